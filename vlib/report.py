"""Check context: rule records, findings, known-findings handling, evidence file."""
import json
import os
import sys
import time

from . import extract, inline, mir

VERIF = extract.VERIF
KNOWN_PATH = os.path.join(VERIF, "known_findings.json")


class ConfigUnavailable(Exception):
    pass


class Finding:
    def __init__(self, prop, rule, key, msg, fn=None, where=None, path=None, config=None):
        self.prop = prop
        self.rule = rule
        self.key = key          # line-free identity: RULE:fn:instance
        self.msg = msg
        self.fn = fn
        self.where = where      # file:line, for the reader only
        self.path = path
        self.configs = [config] if config else []

    def to_json(self):
        return {"rule": self.rule, "key": self.key, "message": self.msg, "function": self.fn,
                "where": self.where, "path": self.path, "configs": self.configs}


class RuleRec:
    def __init__(self, ctx, name, text):
        self.ctx = ctx
        self.name = name
        self.text = text
        self.instances = []      # examined sites (dicts)
        self.obligations = 0
        self.discharged = 0
        self.counts = {}
        self.notes = []

    def instance(self, what, where=None, config=None, **kw):
        d = {"what": what}
        if where:
            d["where"] = where
        if config:
            d["config"] = config
        d.update(kw)
        self.instances.append(d)
        return d

    def ok(self, what=None, where=None, config=None, **kw):
        self.obligations += 1
        self.discharged += 1
        if what:
            self.instance(what, where, config, verdict="holds", **kw)

    def violate(self, key, msg, fn=None, where=None, path=None, config=None):
        self.obligations += 1
        full = "%s:%s" % (self.name, key)
        for f in self.ctx.findings:
            if f.key == full:
                if config and config not in f.configs:
                    f.configs.append(config)
                return f
        f = Finding(self.ctx.prop, self.name, full, msg, fn, where, path, config)
        self.ctx.findings.append(f)
        self.instance(msg, where, config, verdict="VIOLATES", key=full)
        return f

    def count(self, name, n=1):
        self.counts[name] = self.counts.get(name, 0) + n

    def floor(self, name, floor, config=None, actual=None):
        """fail closed when fewer instances than were confirmed by reading are found"""
        if actual is None:
            actual = self.counts.get(name, 0)
        self.counts.setdefault(name, actual)
        if actual < floor:
            self.violate("anchor-missing:%s" % name,
                         "anchor missing: expected at least %d %s, found %d (rule would pass vacuously; "
                         "re-confirm the instance table)" % (floor, name, actual), config=config)
            return False
        return True

    def note(self, s):
        if s not in self.notes:
            self.notes.append(s)

    def to_json(self):
        return {"rule": self.name, "text": self.text, "obligations": self.obligations,
                "discharged": self.discharged, "counts": self.counts, "notes": self.notes,
                "instances": self.instances[:60], "instances_total": len(self.instances)}


class Ctx:
    def __init__(self, prop, tier="quick", release=False):
        self.prop = prop
        self.tier = tier
        self.release = release
        self.findings = []
        self.rules = {}
        self._facts = {}
        self._raw = {}
        self.config_meta = {}
        self.unavailable = {}
        self.assumptions = []
        self.extra = {}
        self.t0 = time.time()

    def rule(self, name, text=""):
        if name not in self.rules:
            self.rules[name] = RuleRec(self, name, text)
        return self.rules[name]

    def F(self, config):
        """facts of a configuration; raises ConfigUnavailable when it does not compile"""
        if config in self.unavailable:
            raise ConfigUnavailable(config)
        if config not in self._facts:
            try:
                data, meta = extract.extract(config, release=self.release)
            except extract.ExtractError as e:
                self.unavailable[config] = (str(e), e.log[-3000:])
                raise ConfigUnavailable(config)
            raw = mir.Facts(config, data, meta)
            self._raw[config] = raw
            self._facts[config] = inline.InlinedFacts(raw)
            meta["inlined_callers"] = len(self._facts[config].inlined_into)
            if getattr(self._facts[config], "scalarised", None):
                meta["argument_structs_taken_apart"] = self._facts[config].scalarised
            self.config_meta[config] = meta
        return self._facts[config]

    def F_raw(self, config):
        self.F(config)
        return self._raw[config]

    def configs(self, names):
        """yield (name, Facts) for each requested configuration that builds"""
        for n in names:
            try:
                yield n, self.F(n)
            except ConfigUnavailable:
                continue

    def assume(self, s):
        if s not in self.assumptions:
            self.assumptions.append(s)


def load_known():
    if not os.path.exists(KNOWN_PATH):
        return []
    with open(KNOWN_PATH) as f:
        return json.load(f).get("findings", [])


def finish(ctx, level_text, seed=0):
    """classify findings against the known-findings file, write evidence, print protocol lines.
    returns the process exit code."""
    known = load_known()
    open_keys = {k["key"]: k for k in known if k.get("status") == "open" and k.get("property") == ctx.prop}
    fixed_keys = {k["key"]: k for k in known if k.get("status") == "fixed" and k.get("property") == ctx.prop}
    violations, known_hits = [], []
    for f in ctx.findings:
        if f.key in open_keys:
            known_hits.append(f)
        else:
            violations.append(f)
    ev_path = os.path.join(os.environ.get("IPCV_EVIDENCE_DIR") or os.path.join(VERIF, "evidence"), "%s.json" % ctx.prop)
    os.makedirs(os.path.dirname(ev_path), exist_ok=True)

    obligations = sum(r.obligations for r in ctx.rules.values())
    discharged = sum(r.discharged for r in ctx.rules.values())
    instances = sum(len(r.instances) for r in ctx.rules.values())
    samples = []
    for r in ctx.rules.values():
        for i in r.instances[:3]:
            samples.append({"rule": r.name, **i})
    fns_analysed = {c: m.get("fns") for c, m in ctx.config_meta.items()}
    ev = {
        "property_id": ctx.prop,
        "tier": ctx.tier,
        "seed": seed,
        "level": "other",
        "coverage": {
            "explanation": level_text,
            "technique": "static analysis of rustc MIR facts (all-paths / all-call-sites rules); nothing is executed",
            "obligations": obligations,
            "discharged": discharged,
            "evaluations": max(instances, 1),
            "distinct_nontrivial": len({json.dumps(i, sort_keys=True) for r in ctx.rules.values() for i in r.instances}),
            "rule": "one evaluation = one rule instance (call site, path obligation, table row) examined in the "
                    "fact base extracted from /repo's working tree on this run; distinct = distinct (rule, site, config)",
            "samples": samples[:40] or [{"note": "no instances"}],
            "configurations": ctx.config_meta,
            "configurations_unavailable": {k: v[0] for k, v in ctx.unavailable.items()},
            "functions_analysed": fns_analysed,
            "rules": [r.to_json() for r in ctx.rules.values()],
            "findings": [f.to_json() for f in violations],
            "known_findings_matched": [f.to_json() for f in known_hits],
            "fixed_entries_on_file": sorted(fixed_keys),
            "exhaustive": True,
            "extra": ctx.extra,
        },
        "assumptions": ctx.assumptions,
        "wall_s": round(time.time() - ctx.t0, 2),
        "violations": len(violations),
    }
    tmp = ev_path + ".tmp.%d" % os.getpid()
    with open(tmp, "w") as f:
        json.dump(ev, f, indent=1, default=str)
    os.replace(tmp, ev_path)

    for r in ctx.rules.values():
        print("rule %-18s obligations=%-3d discharged=%-3d instances=%-3d %s" % (
            r.name, r.obligations, r.discharged, len(r.instances),
            " ".join("%s=%s" % kv for kv in sorted(r.counts.items()))))
    for c, (msg, _log) in ctx.unavailable.items():
        print("note: configuration %s unavailable: %s" % (c, msg))
    for f in known_hits:
        print("KNOWN-FINDING: property=%s %s -- %s" % (ctx.prop, f.key, open_keys[f.key].get("what", f.msg)))
    for f in violations:
        print("  finding rule=%s fn=%s at=%s configs=%s\n    %s" % (f.rule, f.fn, f.where, ",".join(f.configs), f.msg))
        if f.path:
            print("    path: %s" % f.path)
        print("VIOLATION property=%s replay=%s rule=%s key=%s" % (ctx.prop, ev_path, f.rule, f.key))
    print("%s: %d obligations, %d discharged, %d violations, %d known findings, %.1fs" % (
        ctx.prop, obligations, discharged, len(violations), len(known_hits), time.time() - ctx.t0))
    return 1 if violations else 0
