#!/usr/bin/env python3
"""Run all 20 quick checks on scratch copies of /repo, one copy per patch, in parallel, and print per patch which properties
report which keys.  Used to evaluate a batch of agent-written patches (refactors must come out empty, seeds must be reported
by their own property).

  tools/eval_patches.py [-j N] [--props C01,C02] <patch>..."""
import os, re, shutil, subprocess, sys, tempfile
from concurrent.futures import ThreadPoolExecutor
VERIF = os.path.dirname(os.path.dirname(os.path.abspath(__file__)))
ALL = ["C%02d" % i for i in range(1, 21)]


def one(args):
    patch, props = args
    d = tempfile.mkdtemp(prefix="ipcv-eval-")
    try:
        subprocess.run(["rsync", "-a", "--exclude", "target", "--exclude", ".git", "/repo/", d + "/"], check=True)
        r = subprocess.run(["patch", "-p1", "-s", "-i", os.path.abspath(patch)], cwd=d, capture_output=True, text=True)
        if r.returncode != 0:
            return patch, None
        env = dict(os.environ, IPCV_REPO=d, IPCV_EVIDENCE_DIR=os.path.join(d, ".ev"))
        det = {}
        for p in props:
            rr = subprocess.run([os.path.join(VERIF, "check"), p], capture_output=True, text=True, env=env)
            keys = re.findall(r"^VIOLATION property=\S+ replay=\S+ rule=(\S+) key=(.*)$", rr.stdout, re.M)
            if "checker crashed" in rr.stdout + rr.stderr:
                keys.append(("INTERNAL", "checker crashed"))
            if keys:
                det[p] = keys
        return patch, det
    finally:
        shutil.rmtree(d, ignore_errors=True)


def main():
    args = sys.argv[1:]
    j, props = 6, ALL
    if "-j" in args:
        i = args.index("-j"); j = int(args[i + 1]); del args[i:i + 2]
    if "--props" in args:
        i = args.index("--props"); props = args[i + 1].split(","); del args[i:i + 2]
    with ThreadPoolExecutor(max_workers=j) as ex:
        for patch, det in ex.map(one, [(a, props) for a in args]):
            if det is None:
                print("== %s: PATCH DOES NOT APPLY" % patch)
                continue
            print("== %s: %s" % (patch, {k: len(v) for k, v in det.items()} or "silent"))
            seen = set()
            for p, keys in det.items():
                for rule, key in keys:
                    if (rule, key) in seen:
                        continue
                    seen.add((rule, key))
                    print("     [%s] %s %s" % (p, rule, key[:200]))
    return 0


if __name__ == "__main__":
    sys.exit(main())
