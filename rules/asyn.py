"""C20: async stream adaptor -- AS-ORDER, AS-DRAIN, AS-FWD, AS-REMOVE (feature `async`)."""
from vlib.flow import Tracer, segment_summaries, edge_label
from vlib.mir import callee_name, op_local, strip_generics

EVENT_ADT = "ipc::IpcSelectionResult"
USEND = "futures::futures_channel::mpsc::UnboundedSender::unbounded_send"
TRYNEXT = "futures::futures_channel::mpsc::UnboundedReceiver::try_next"


def to_stream_fn(F):
    return next((f for f in F.fns.values() if f.path.startswith("asynch::") and f.path.endswith("::to_stream")), None)


def routing_fn(F):
    return next((f for f in F.fns.values() if "asynch::" in f.path and any(strip_generics(callee_name(t)) == "ipc::IpcReceiverSet::select" for _, t in f.calls())), None)


def rule_as_order(ctx, cfg, F):
    R = ctx.rule("AS-ORDER", "to_stream enqueues (receiver, sender) for the routing thread before it sends the wake-up, and the stream it returns is the receiving half of the very channel whose sending half it enqueued")
    f = to_stream_fn(F)
    if not f:
        R.violate("anchor-missing:to_stream", "to_stream not found", config=cfg)
        return
    R.count("to_stream[%s]" % cfg)
    tr = Tracer(f)
    enq = [(b, t) for b, t in f.calls() if strip_generics(callee_name(t)) == USEND]
    wake = [(b, t) for b, t in f.calls() if strip_generics(callee_name(t)) == "ipc::IpcSender::send"]
    if len(enq) != 1 or len(wake) != 1:
        R.violate("%s:enqueue-wakeup-count" % f.path, "%d enqueues and %d wake-ups (expected one each)" % (len(enq), len(wake)), f.path, f.loc(0), config=cfg)
        return
    eb, et = enq[0]
    wb, wt = wake[0]
    if f.dominates(eb, wb) and eb != wb:
        R.ok("route is enqueued before the wake-up is sent", f.loc(eb), cfg)
    else:
        R.violate("%s:wakeup-before-enqueue" % f.path, "the wake-up can be sent before the route is enqueued: the routing thread may wake, find nothing and sleep on a route that is never installed", f.path, f.loc(wb), config=cfg)
    # enqueued tuple = (to_opaque(self), send half); returned stream wraps the recv half of the same unbounded()
    r0 = tr.roots_of_operand(et["args"][1], (("f", 0, ""),))
    r1 = tr.roots_of_operand(et["args"][1], (("f", 1, ""),))
    ub = [r.block for r in r1 if r.kind == "call" and r.id == "futures::futures_channel::mpsc::unbounded"]
    ok_rx = any(r.kind == "call" and r.id == "ipc::IpcReceiver::to_opaque" for r in r0)
    ret = tr.roots(0, (("f", 0, ""),))
    ok_pair = bool(ub) and any(r.kind == "call" and r.block == ub[0] and r.field_idx()[-1:] == (1,) for r in ret) and any(r.field_idx()[-1:] == (0,) for r in r1 if r.kind == "call")
    if ok_rx and ok_pair:
        R.ok("enqueued (to_opaque(self), tx); returned stream wraps rx of the same unbounded() pair", f.loc(eb), cfg)
    else:
        R.violate("%s:stream-pairing" % f.path, "the stream returned is not the receiving half of the channel whose sender was enqueued with this receiver (receiver ok: %s, pair ok: %s)" % (ok_rx, ok_pair), f.path, f.loc(eb), config=cfg)


def rule_as_poll(ctx, cfg, F):
    R = ctx.rule("AS-POLL", "IpcStream::poll_next asks the forwarding channel on every path, with the caller's own task context: the channel's waker registration is one-shot, so a poll that "
                 "returns Pending without passing the context on is never woken for the next message or for the end of the stream")
    n = 0
    for f in sorted(F.fns.values(), key=lambda x: x.path):
        if not (f.impl_trait or "").endswith("Stream") or not strip_generics(f.path).endswith("::poll_next") or "asynch::IpcStream" not in f.path:
            continue
        n += 1
        tr = Tracer(f)
        ctx_param = next((i for i in range(1, f.argc + 1) if "Context" in f.local_ty(i)), None)
        # (`StreamExt::poll_next_unpin(&mut recv, cx)` is `Pin::new(&mut recv).poll_next(cx)`, by its definition in futures)
        inner = [b for b, t in f.calls() if strip_generics(t.get("callee") or "").endswith(("Stream::poll_next", "StreamExt::poll_next_unpin")) and
                 "UnboundedReceiver" in (t.get("resolved") or "") + " ".join(t.get("generics") or [])]
        good = [b for b in inner if ctx_param is not None and any(r.kind == "param" and r.id == ctx_param for r in tr.roots_of_operand(f.term(b)["args"][1]))]
        if not inner:
            R.violate("%s:no-inner-poll" % strip_generics(f.path), "poll_next does not poll the forwarding channel", f.path, f.loc(0), config=cfg)
        elif len(good) != len(inner):
            R.violate("%s:foreign-context" % strip_generics(f.path), "the forwarding channel is polled with a context other than the caller's", f.path, f.loc(inner[0]), config=cfg)
        elif not f.all_paths_pass(0, good)[0]:
            R.violate("%s:path-without-registration" % strip_generics(f.path), "a path through poll_next returns without polling the forwarding channel with the caller's context: nothing will wake the task",
                      f.path, f.loc(0), config=cfg)
        else:
            R.ok("every path polls the forwarding channel with the caller's context", f.loc(good[0]), cfg)
        # the consumer side does not shut the forwarding queue: after close() the routing thread's sends fail silently and every later message is discarded
        closes = [b for b, t in f.calls() if strip_generics(callee_name(t)).endswith("UnboundedReceiver::close") or strip_generics(t.get("callee") or "").endswith("::close")]
        if closes:
            R.violate("%s:forwarding-queue-closed-by-poll" % strip_generics(f.path), "poll_next closes the forwarding queue: the stream then ends although senders are alive, and their messages are dropped by the routing thread",
                      f.path, f.loc(closes[0]), config=cfg)
        # Pending is only ever passed on, never made up: when the forwarding channel said Ready it registered no waker, so answering Pending for that
        # poll (a message that was skipped, an error that was swallowed) parks the task for good
        for b in sorted(f.live_blocks()):
            if f.is_cleanup(b):
                continue
            for si, st in enumerate(f.stmts(b)):
                if st["s"] != "assign" or st["lhs"]["l"] != 0 or st["lhs"].get("p"):
                    continue
                rv = st["rv"]
                made = (rv["r"] == "agg" and str(rv["kind"].get("adt", "")).endswith("task::Poll") and rv["kind"].get("variant") == "Pending") or \
                       (rv["r"] == "use" and rv["a"][0].get("k") == "c" and rv["a"][0].get("pvariant") == "Pending")
                if not made:
                    continue
                passed_on = False
                for s_ in f.live_blocks():
                    if f.term(s_)["t"] != "switch" or not f.dominates(s_, b):
                        continue
                    for tgt in f.succ(s_):
                        if not (tgt == b or f.dominates(tgt, b)):
                            continue
                        for lab in edge_label(f, s_, tgt):
                            if lab["kind"] in ("variant", "variant_not") and lab.get("variant") == "Pending" and any(r.kind == "call" and r.block in inner for r in tr.roots_of_place(lab["place"])):
                                passed_on = True
                if passed_on:
                    R.ok("Pending is returned where the forwarding channel returned Pending", f.loc(b, si), cfg)
                else:
                    R.violate("%s:pending-made-up" % strip_generics(f.path), "poll_next answers Pending on a path where the forwarding channel did not: no waker was registered for this poll, so the task is never polled "
                              "again and every later message stays in the stream's queue", f.path, f.loc(b, si), config=cfg)
    R.count("poll_fns[%s]" % cfg, n)


def rule_as_loop(ctx, cfg, F):
    Rd = ctx.rule("AS-DRAIN", "in the routing thread every path from one select to the next passes through the route-queue drain until it yields nothing (or the queue-terminated edge); each drained pair is installed as "
                  "insert(add_opaque(receiver), sender) from the same tuple")
    Rf = ctx.rule("AS-FWD", "a message event is forwarded exactly once, with the event's own message, to the sender looked up with the event's id")
    Rr = ctx.rule("AS-REMOVE", "a closed event removes the sender keyed by the event's id on every path (which ends the stream)")
    f = routing_fn(F)
    if not f:
        Rd.violate("anchor-missing:routing-thread", "async routing closure not found", config=cfg)
        return
    Rd.count("routing_fns[%s]" % cfg)
    # the events of one select are walked through `drain(..)` (in the general table) or through `mem::take(&mut selections)`: either way what is iterated is the select result
    tr = Tracer(f, extra_transparent={"std::mem::take": (0, ())})
    sel = [b for b, t in f.calls() if strip_generics(callee_name(t)) == "ipc::IpcReceiverSet::select"]
    nexts = [b for b, t in f.calls() if strip_generics(t.get("callee") or "") == "std::iter::Iterator::next" and EVENT_ADT.split("::")[-1] in f.local_ty(t["dest"]["l"])]
    trynext = [b for b, t in f.calls() if strip_generics(callee_name(t)) == TRYNEXT]
    if len(sel) != 1 or len(nexts) != 1:
        Rd.violate("%s:loop-shape" % f.path, "expected one select and one event iterator (found %d, %d)" % (len(sel), len(nexts)), f.path, f.loc(0), config=cfg)
        return
    sb, nb = sel[0], nexts[0]

    def from_event(op, field):
        for extra in ((), (("f", 0, ""),)):
            for r in tr.roots_of_operand(op, extra):
                if r.kind == "call" and r.id == "ipc::IpcReceiverSet::select" and r.field_idx()[-1:] == (field,):
                    return True
        return False

    # ---- per event
    def edge_fact(b, s, labs):
        for lab in labs:
            if lab["kind"] in ("variant", "variant_not") and lab.get("adt") == EVENT_ADT and lab.get("variant") and "|" not in lab["variant"]:
                yield ("event", lab["variant"])
            if lab["kind"] in ("variant", "variant_not") and lab.get("adt") in ("std::option::Option", "std::ops::ControlFlow") and lab.get("variant") and "|" not in lab["variant"]:
                pl = lab["place"]
                if any(r.kind == "call" and r.id == "std::collections::HashMap::get" for r in tr.roots(pl["l"])):
                    # `senders.get(&id)?` tests the lookup through Try::branch: Continue is Some, Break is None
                    yield ("lookup", {"Continue": "Some", "Break": "None"}.get(lab["variant"], lab["variant"]))

    def block_fact(b):
        t = f.term(b)
        if t["t"] == "call":
            nm = strip_generics(callee_name(t))
            if nm == USEND:
                s_ok = False
                for r in tr.roots_of_operand(t["args"][0]):
                    if r.kind == "call" and r.id == "std::collections::HashMap::get":
                        s_ok = from_event(f.term(r.block)["args"][1], 0)
                yield ("fwd", b, s_ok and from_event(t["args"][1], 1))
            elif nm == "std::collections::HashMap::remove":
                yield ("remove", from_event(t["args"][1], 0))
    ev_paths = segment_summaries(f, nb, [nb, sb] + trynext, edge_fact, block_fact)
    nM = nC = 0
    fwd_bad = rem_bad = None
    for facts, end in ev_paths:
        ev = {x[1] for x in facts if x[0] == "event"}
        if ev == {"MessageReceived"}:
            nM += 1
            fw = [x for x in facts if x[0] == "fwd"]
            look = {x[1] for x in facts if x[0] == "lookup"}
            if look == {"Some"} and (len(fw) != 1 or not fw[0][2]):
                fwd_bad = "a message whose sender was found is forwarded %d times (well-formed: %s)" % (len(fw), [x[2] for x in fw])
            if look == {"None"} and fw:
                fwd_bad = "a message is forwarded although no sender was found"
            if not look and (len(fw) != 1 or not fw[0][2]):
                fwd_bad = "a message event is not forwarded exactly once to the sender of its id"
        elif ev == {"ChannelClosed"}:
            nC += 1
            rm = [x for x in facts if x[0] == "remove"]
            if len(rm) != 1 or not rm[0][1]:
                rem_bad = "a closed event does not remove exactly the sender of its id (%d removals)" % len(rm)
    if fwd_bad or nM == 0:
        Rf.violate("%s:forwarding" % f.path, fwd_bad or "no message-event path found", f.path, f.loc(nb), config=cfg)
    else:
        Rf.ok("message events: forwarded once to senders[event id] with the event's message (%d paths)" % nM, f.loc(nb), cfg)
    if rem_bad or nC == 0:
        Rr.violate("%s:closed-removal" % f.path, rem_bad or "no closed-event path found", f.path, f.loc(nb), config=cfg)
    else:
        Rr.ok("closed events: senders.remove(event id) on every path (%d paths)" % nC, f.loc(nb), cfg)
    Rf.count("message_paths[%s]" % cfg, nM)
    Rr.count("closed_paths[%s]" % cfg, nC)

    # ---- drain between selects
    def edge_fact2(b, s, labs):
        for lab in labs:
            if lab["kind"] == "callbool" and lab["callee"].endswith("is_terminated") and lab["truth"]:
                yield ("terminated",)
            if lab["kind"] in ("variant", "variant_not") and lab.get("variant") and "|" not in lab["variant"]:
                pl = lab["place"]
                if any(r.kind == "call" and r.id == TRYNEXT for r in tr.roots(pl["l"])):
                    if lab.get("adt") == "std::result::Result" and lab["variant"] == "Err":
                        yield ("drained",)
                    if lab.get("adt") == "std::option::Option" and lab["variant"] == "None":
                        yield ("drained",)
                    if lab.get("adt") == "std::ops::ControlFlow" and lab["variant"] == "Break":
                        yield ("drained",)

    def block_fact2(b):
        t = f.term(b)
        if t["t"] == "call" and strip_generics(callee_name(t)) == TRYNEXT:
            yield ("trynext",)
    cyc = segment_summaries(f, sb, [sb], edge_fact2, block_fact2, include_start_fact=False)
    bad = None
    n_cycles = 0
    for facts, end in cyc:
        if end != sb:
            continue
        n_cycles += 1
        if ("drained",) not in facts and ("terminated",) not in facts:
            bad = "a path goes from one select to the next without draining the route queue (try_next until empty) or seeing it terminated"
    if bad or not n_cycles:
        Rd.violate("%s:select-without-drain" % f.path, bad or "no select-to-select cycle found", f.path, f.loc(sb), config=cfg)
    else:
        Rd.ok("every select-to-select cycle drains the route queue or sees it terminated (%d cycles)" % n_cycles, f.loc(sb), cfg)
    # installation of drained pairs
    ins = [(b, t) for b, t in f.calls() if strip_generics(callee_name(t)) == "std::collections::HashMap::insert"]
    Rd.count("install_sites[%s]" % cfg, len(ins))
    for b, t in ins:
        k_ok = v_ok = False
        for r in tr.roots_of_operand(t["args"][1]):
            if r.kind == "call" and r.id in ("ipc::IpcReceiverSet::add_opaque", "ipc::IpcReceiverSet::add"):
                at = f.term(r.block)
                k_ok = any(x.kind == "call" and x.id == TRYNEXT and x.field_idx()[-1:] == (0,) for x in tr.roots_of_operand(at["args"][1]))
        v_ok = any(x.kind == "call" and x.id == TRYNEXT and x.field_idx()[-1:] == (1,) for x in tr.roots_of_operand(t["args"][2]))
        if k_ok and v_ok:
            Rd.ok("drained pair installed as insert(add_opaque(pair.0), pair.1)", f.loc(b), cfg)
        else:
            Rd.violate("%s:install-pairing" % f.path, "a route is not installed as insert(id of this pair's receiver, this pair's sender) (key ok: %s, value ok: %s)" % (k_ok, v_ok), f.path, f.loc(b), config=cfg)
