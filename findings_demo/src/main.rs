use ipc_channel::ipc::{self, IpcReceiver, IpcSender};
use ipc_channel::router::ROUTER;
use std::time::Duration;
fn main() {
    let which = std::env::args().nth(1).unwrap();
    if which == "router" {
        // a u64 is sent, the route expects a String: decode fails, the forwarding closure unwraps
        let (tx, rx) = ipc::channel::<u64>().unwrap();
        let rx_wrong: IpcReceiver<String> = rx.to_opaque().to();
        let out = ROUTER.route_ipc_receiver_to_new_crossbeam_receiver(rx_wrong);
        tx.send(1).unwrap();
        println!("first route result: {:?}", out.recv_timeout(Duration::from_secs(1)));
        // an unrelated, well-formed route on the same router: still served?
        let (tx2, rx2) = ipc::channel::<u32>().unwrap();
        let out2 = ROUTER.route_ipc_receiver_to_new_crossbeam_receiver(rx2);
        let r = tx2.send(7);
        println!("second route send: {:?}; recv: {:?}", r.is_ok(), out2.recv_timeout(Duration::from_secs(1)));
    } else if which == "hang" {
        // C09: the receiver goes away while a multi-packet send is in progress: send must fail, not block forever
        let (tx, rx) = ipc::bytes_channel().unwrap();
        let (done_tx, done_rx) = std::sync::mpsc::channel();
        std::thread::spawn(move || {
            let big = vec![0x5au8; 64 << 20];
            let r = tx.send(&big);
            let _ = done_tx.send(r.is_ok());
        });
        std::thread::sleep(Duration::from_millis(500)); // the sender is now blocked in a follow-up send
        drop(rx);
        match done_rx.recv_timeout(Duration::from_secs(5)) {
            Ok(ok) => println!("send returned; success = {}", ok),
            Err(_) => println!("send is STILL BLOCKED 5 s after the receiver was dropped"),
        }
    } else if which == "crash" {
        // C12 CLOSED-ORIGIN: a sender process dies in the middle of a multi-fragment message while
        // another sender handle (ours) survives; the receiver must not be told "disconnected".
        let (tx, rx) = ipc::bytes_channel().unwrap();
        let child = unsafe { libc::fork() };
        if child == 0 {
            let big = vec![0x5au8; 64 << 20];
            let _ = tx.send(&big); // blocks: nobody reads the follow-up fragments yet
            unsafe { libc::_exit(0) };
        }
        std::thread::sleep(Duration::from_millis(500));
        unsafe {
            libc::kill(child, libc::SIGKILL);
            let mut st = 0;
            libc::waitpid(child, &mut st, 0);
        }
        let r = rx.recv();
        println!("recv after the sending process was killed mid-message: {:?}", r.as_ref().map(|v| v.len()));
        println!("surviving sender still works: send={:?}", tx.send(b"still here").is_ok());
        println!("next recv: {:?}", rx.recv().map(|v| String::from_utf8_lossy(&v).to_string()));
    } else {
        // a sender is embedded, the receiving side decodes it as a receiver
        let (tx, rx) = ipc::channel::<IpcSender<u8>>().unwrap();
        let (inner_tx, _inner_rx) = ipc::channel::<u8>().unwrap();
        tx.send(inner_tx).unwrap();
        let rx_wrong: IpcReceiver<IpcReceiver<u8>> = rx.to_opaque().to();
        let r = std::panic::catch_unwind(std::panic::AssertUnwindSafe(|| rx_wrong.recv().map(|_| ())));
        println!("decode sender-as-receiver: {:?}", r.map(|x| x.map_err(|e| format!("{e:?}"))).map_err(|_| "PANICKED"));
    }
}
