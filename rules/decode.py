"""C16: DECODE-NOPANIC, DECODE-TAKE-ONCE, DECODE-RESULT-UNWRAP over the decode closure."""
from vlib.flow import Tracer, chain_calls, chain_calls_ip
from vlib.mir import callee_name, op_local, op_place, op_const, strip_generics

PANIC_CALLS = {
    "std::option::Option::unwrap": "unwrap", "std::option::Option::expect": "expect",
    "std::result::Result::unwrap": "unwrap", "std::result::Result::expect": "expect",
    "std::result::Result::unwrap_err": "unwrap_err", "std::result::Result::expect_err": "expect_err",
    "core::panicking::panic": "panic", "core::panicking::panic_fmt": "panic", "std::rt::panic_fmt": "panic",
    "std::rt::begin_panic": "panic", "core::panicking::panic_explicit": "panic", "core::panicking::unreachable_display": "panic",
    "core::panicking::assert_failed": "assert", "core::panicking::panic_bounds_check": "bounds",
    "std::vec::Vec::remove": "Vec::remove", "std::vec::Vec::swap_remove": "Vec::swap_remove", "std::vec::Vec::insert": "Vec::insert",
    "core::slice::split_at": "split_at", "std::vec::Vec::drain": "Vec::drain", "std::vec::Vec::split_off": "Vec::split_off",
    "core::slice::copy_from_slice": "copy_from_slice",
}
INDEX_DECL = ("std::ops::Index::index", "std::ops::IndexMut::index_mut")
# tabled as not input-dependent (reason in DESIGN.md section 5, C16)
TABLED = {
    "std::cell::RefCell::borrow_mut": "a table is never borrowed while user code runs (checked: BORROW-SCOPE)",
    "std::cell::RefCell::borrow": "same",
    "std::thread::LocalKey::with": "panics only during thread teardown",
}
USER_PREFIX = ("serde::", "bincode::")


def decode_closure(F):
    """functions that run while a received message is decoded"""
    seeds = []
    for f in F.fns.values():
        if f.impl_trait == "serde::Deserialize" and not f.path.startswith("<platform"):
            seeds.append(f)
        elif strip_generics(f.path) == "ipc::OpaqueIpcMessage::to":
            seeds.append(f)
    seen = {}
    work = list(seeds)
    while work:
        f = work.pop()
        if f.path in seen:
            continue
        seen[f.path] = f
        for c in F.children(f):
            work.append(c)
        for b, t in f.calls():
            for n in (t.get("resolved"), t.get("callee")):
                if n and n in F.fns:
                    work.append(F.fns[n])
                    break
            else:
                # generic crate functions are recorded under their definition path (with <T> params)
                n = strip_generics(callee_name(t))
                for g in F.fns.values():
                    if strip_generics(g.path) == n and (t.get("resolved_local") or t.get("local")):
                        work.append(g)
    return seen


def panic_sources(f):
    out = []
    for b in sorted(f.live_blocks()):
        if f.is_cleanup(b):
            continue
        t = f.term(b)
        if t["t"] == "assert":
            msg = t.get("msg", "")
            kind = msg.split("(")[0].split(" ")[0].strip("{")
            if kind in ("MisalignedPointerDereference", "NullPointerDereference"):
                continue   # debug-build pointer checks inserted by rustc, not in the source
            out.append((b, "assert:" + kind, msg[:40]))
        elif t["t"] == "call":
            name = strip_generics(callee_name(t))
            decl = strip_generics(t.get("callee") or "")
            if name in PANIC_CALLS:
                out.append((b, PANIC_CALLS[name], name))
            elif decl in INDEX_DECL:
                g = t.get("generics", [])
                if any("RangeFull" in x for x in g):
                    continue
                if _index_guarded(f, b, t):
                    continue          # `if i >= v.len() { return .. }` / `if i < v.len() { v[i] .. }`: the access cannot be out of range
                if _range_clamped(f, b, t):
                    continue          # `bytes[..min(bytes.len(), 256)]`: a prefix clamped to the length (of bytes, not of a str: a str can still be cut inside a character)
                out.append((b, "index", "%s<%s>" % (decl.split("::")[-1], ",".join(g[-1:]))))
    return out


def _range_clamped(f, b, t):
    """the indexing call takes `[0..min(len(v), K)]` / `[..min(len(v), K)]` of the byte slice or vector v it indexes"""
    from vlib.flow import Expr, expr_strip_blocks, ref_place
    if len(t["args"]) < 2:
        return False
    recv_ty = f.local_ty(op_local(t["args"][0])) if op_local(t["args"][0]) is not None else ""
    if "str" in recv_ty.replace("&", "").split("<")[0].split() or recv_ty.replace("&", "").strip() in ("str", "mut str") or "String" in recv_ty:
        return False
    ex = Expr(f)
    e = expr_strip_blocks(ex.of_operand(t["args"][1]))
    if e[0] != "agg" or not (e[1].endswith("Range::Range") or e[1].endswith("RangeTo::RangeTo")):
        return False
    parts = e[2]
    if e[1].endswith("Range::Range"):
        if len(parts) != 2 or parts[0] != ("const", 0):
            return False
        end = parts[1]
    else:
        end = parts[0]
    vec = expr_strip_blocks(ex.of_operand(t["args"][0]))
    if end[0] == "var":
        return _clamped_local(f, ex, end[1], vec)
    if end[0] != "call" or not end[1].endswith("::min") or len(end[2]) != 2:
        return False
    for x in end[2]:
        if x[0] == "call" and x[1].endswith("::len") and len(x[2]) == 1:
            inner = x[2][0]
            # len() of the very thing that is indexed (through any number of derefs / re-borrows, which the expression engine drops)
            if repr(inner) == repr(vec) or repr(inner) in repr(vec) or repr(vec) in repr(inner):
                return True
    return False


def _clamped_local(f, ex, l, vec):
    """`let end = if v.len() > K { K } else { v.len() };`: every definition of the local is len(v) itself, or a constant assigned behind an edge that says len(v) exceeds it"""
    from vlib.flow import expr_strip_blocks, edge_label, relation_of_label
    ds = [d for d in f.defs().get(l, []) if not f.is_cleanup(d[0])]
    if len(ds) < 2:
        return False

    def is_len(e):
        return e[0] == "call" and e[1].endswith("::len") and len(e[2]) == 1 and (repr(e[2][0]) == repr(vec) or repr(e[2][0]) in repr(vec) or repr(vec) in repr(e[2][0]))
    for b, si, node in ds:
        if si is None:
            # `end = v.len()` written as the call itself
            if node.get("dest", {}).get("p") or not strip_generics(callee_name(node)).endswith("::len") or not node["args"]:
                return False
            inner = expr_strip_blocks(ex.of_operand(node["args"][0]))
            if not (repr(inner) == repr(vec) or repr(inner) in repr(vec) or repr(vec) in repr(inner)):
                return False
            continue
        if node["lhs"].get("p") or node["rv"]["r"] != "use":
            return False
        a = node["rv"]["a"][0]
        c = op_const(a) if a.get("k") == "c" else None
        if c is None:
            if not is_len(expr_strip_blocks(ex.of_operand(a))):
                return False
            continue
        ok = False
        for s_ in f.live_blocks():
            if f.term(s_)["t"] != "switch" or not f.dominates(s_, b):
                continue
            for tgt in f.succ(s_):
                if not (tgt == b or f.dominates(tgt, b)):
                    continue
                for lab in edge_label(f, s_, tgt):
                    rel = relation_of_label(f, lab)
                    if not rel:
                        continue
                    x, y, rs = rel
                    ex_, ey_ = expr_strip_blocks(ex.of_operand(x)), expr_strip_blocks(ex.of_operand(y))
                    # len(v) > c or len(v) >= c (either orientation)
                    if is_len(ex_) and ey_ == ("const", c) and rs <= {"gt", "eq"}:
                        ok = True
                    if is_len(ey_) and ex_ == ("const", c) and rs <= {"lt", "eq"}:
                        ok = True
        if not ok:
            return False
    return True


def _index_guarded(f, b, t):
    """the indexing call at b is dominated by an edge that says index < len(the same vector)"""
    from vlib.flow import Expr, expr_strip_blocks, edge_label, ref_place
    if len(t["args"]) < 2:
        return False
    ex = Expr(f)
    idx = expr_strip_blocks(ex.of_operand(t["args"][1]))
    vec = ref_place(f, t["args"][0])
    for s_ in f.live_blocks():
        if f.term(s_)["t"] != "switch" or not f.dominates(s_, b):
            continue
        for tgt in f.succ(s_):
            if not (tgt == b or f.dominates(tgt, b)):
                continue
            for lab in edge_label(f, s_, tgt):
                if lab["kind"] != "cmp":
                    continue
                for a_, b_, lt in ((lab["a"], lab["b"], (lab["op"] == "Lt" and lab["truth"]) or (lab["op"] == "Ge" and not lab["truth"])),
                                   (lab["b"], lab["a"], (lab["op"] == "Gt" and lab["truth"]) or (lab["op"] == "Le" and not lab["truth"]))):
                    if not lt or expr_strip_blocks(ex.of_operand(a_)) != idx:
                        continue
                    # the other side: len() of the vector that is indexed
                    lb = op_local(b_)
                    seen = 0
                    while lb is not None and seen < 6:
                        seen += 1
                        ds = [d for d in f.defs().get(lb, []) if not f.is_cleanup(d[0])]
                        if len(ds) != 1:
                            break
                        if ds[0][1] is None:
                            if strip_generics(callee_name(ds[0][2])).endswith("::len") and ref_place(f, ds[0][2]["args"][0]) == vec and vec is not None:
                                return True
                            break
                        rv = ds[0][2]["rv"]
                        lb = op_local(rv["a"][0]) if rv["r"] in ("use", "cast") else None
    return False


def fresh_slot_unwraps(F, D):
    """panic sources of the form `slot.take().unwrap()` inside a by-reference conversion method of the in-process
    opaque channel, justified when (i) every constructor of that type stores Some(..) and (ii) the decode path converts
    each value once (it is moved out of its table slot first -- DECODE-TAKE-ONCE).  Returns {(fn path, block)}: reason."""
    out = {}
    for p, f in D.items():
        if not (f.path.startswith("platform::inprocess::OsOpaqueIpcChannel::to_")):
            continue
        adt = "platform::inprocess::OsOpaqueIpcChannel"
        # (i) constructors
        ctor_ok = True
        n_ctor = 0
        for g in F.fns.values():
            for b in g.live_blocks():
                for st in g.stmts(b):
                    if st["s"] == "assign" and st["rv"]["r"] == "agg" and st["rv"]["kind"].get("adt") == adt:
                        n_ctor += 1
                        names = chain_calls(g, st["rv"]["a"][0])
                        tr = Tracer(g)
                        inner_some = False
                        for r in tr.roots_of_operand(st["rv"]["a"][0]):
                            if r.kind == "call" and r.id == "std::cell::RefCell::new":
                                ct = g.term(r.block)
                                inner_some = any(x.kind == "agg" and x.id == "std::option::Option::Some" for x in tr.roots_of_operand(ct["args"][0]))
                        if "std::cell::RefCell::new" not in names or not inner_some:
                            ctor_ok = False
        if not ctor_ok or n_ctor == 0:
            continue
        tr = Tracer(f)
        for b, t in f.calls():
            if strip_generics(callee_name(t)) == "std::option::Option::unwrap":
                names = chain_calls(f, t["args"][0])
                roots = tr.roots_of_operand(t["args"][0])
                from_self = any(r.kind == "param" and r.id == 1 for r in roots) or any(
                    r.kind == "call" and r.block is not None and strip_generics(r.id) in ("std::cell::RefCell::take", "std::mem::take", "std::mem::replace", "std::cell::RefCell::replace") and
                    any(x.kind == "param" and x.id == 1 for x in tr.roots_of_operand(f.term(r.block)["args"][0])) for r in roots)
                if ("std::option::Option::take" in names or "std::cell::RefCell::take" in names or "std::mem::take" in names or "std::mem::replace" in names or "std::cell::RefCell::replace" in names) and from_self:
                    out[(f.path, b)] = "value is freshly constructed with Some(..) (%d constructors) and converted once" % n_ctor
    return out


def rule_decode_nopanic(ctx, cfg, F):
    R = ctx.rule("DECODE-NOPANIC", "no panic source (unwrap/expect, indexing, bounds/overflow assertion, explicit panic) is reachable inside the "
                 "decode closure: OpaqueIpcMessage::to, every Deserialize impl of the crate and every crate function they call")
    D = decode_closure(F)
    R.count("decode_fns[%s]" % cfg, len(D))
    # a received message that has not been decoded yet can be printed (`{:?}` in a log line ahead of `to()`): that must not panic on its bytes either
    for f_ in F.fns.values():
        if (f_.impl_self or "") == "ipc::OpaqueIpcMessage" and (f_.impl_trait or "") in ("std::fmt::Debug", "std::fmt::Display") and f_.path not in D:
            D = dict(D)
            D[f_.path] = f_
            R.count("message_printers[%s]" % cfg)
    n = 0
    fresh = fresh_slot_unwraps(F, D)
    for p in sorted(D):
        f = D[p]
        srcs = panic_sources(f)
        for (b, kind, detail) in list(srcs):
            if (f.path, b) in fresh:
                R.ok("%s: take().unwrap() cannot fail: %s (relies on DECODE-TAKE-ONCE)" % (f.path, fresh[(f.path, b)]), f.loc(b), cfg)
                srcs.remove((b, kind, detail))
        for (b, kind, detail) in srcs:
            n += 1
            R.violate("%s:%s:%s" % (strip_generics(f.path), kind, detail.split("<")[0]),
                      "%s in the decode path (%s): a corrupt or mismatched payload panics the receiver instead of yielding an error" % (kind, detail),
                      f.path, f.loc(b), config=cfg)
        if not srcs:
            R.ok("%s: no panic source" % f.path, f.loc(0), cfg)
    return D


def rule_borrow_scope(ctx, cfg, F, D):
    R = ctx.rule("BORROW-SCOPE", "no serde/bincode (user) code runs while a side table is mutably borrowed, so RefCell::borrow_mut in the decode path cannot panic")
    n = 0
    for p in sorted(D):
        f = D[p]
        for b, t in f.calls_to("std::cell::RefCell::borrow_mut", "std::cell::RefCell::borrow"):
            n += 1
            guard = t["dest"]["l"]
            # region: from the borrow until the guard is dropped
            drops = [x for x in f.live_blocks() if f.term(x)["t"] == "drop" and f.term(x)["pl"]["l"] == guard and not f.is_cleanup(x)]
            region = f.reachable(t["to"], avoid=drops) if t["to"] >= 0 else set()
            bad = None
            trb = Tracer(f)
            cell = {r.key() for r in trb.roots_of_operand(t["args"][0])}
            again = None
            for x in region:
                tx = f.term(x)
                if tx["t"] == "call":
                    nm = strip_generics(callee_name(tx))
                    dc = strip_generics(tx.get("callee") or "")
                    if nm.startswith(USER_PREFIX) or dc.startswith(USER_PREFIX):
                        bad = (x, nm)
                    if x != b and nm in ("std::cell::RefCell::borrow_mut", "std::cell::RefCell::borrow") and cell and \
                            (nm.endswith("borrow_mut") or strip_generics(callee_name(t)).endswith("borrow_mut")) and {r.key() for r in trb.roots_of_operand(tx["args"][0])} == cell:
                        again = x
            if again is not None:
                R.violate("%s:second-borrow-under-borrow" % strip_generics(f.path), "the same side table is borrowed again while a mutable borrow of it is still alive (a temporary that lives to the end of the statement): "
                          "RefCell panics with 'already borrowed' on that path instead of the decode returning an error", f.path, f.loc(again), config=cfg)
            elif bad:
                R.violate("%s:user-code-under-borrow:%s" % (strip_generics(f.path), bad[1]), "%s runs while the side table is mutably borrowed: a nested (de)serialisation would panic on the second borrow" % bad[1],
                          f.path, f.loc(bad[0]), config=cfg)
            else:
                R.ok("%s: borrow released before any user code" % f.path, f.loc(b), cfg)
    R.count("borrows[%s]" % cfg, n)


TAKERS = ("std::option::Option::take", "std::cell::RefCell::take", "std::cell::RefCell::replace", "std::cell::Cell::take", "std::mem::take", "std::mem::replace", "std::option::Option::replace", "std::vec::Vec::remove", "std::vec::Vec::swap_remove")


def rule_take_once(ctx, cfg, F, D):
    R = ctx.rule("DECODE-TAKE-ONCE", "each attachment is moved out of its table slot when it is handed to the program (Option::take or equivalent), so a "
                 "second reference to the same index finds an empty slot and takes the error path; the empty case does not reach Ok")
    n = 0
    for p in sorted(D):
        f = D[p]
        if not f.path.startswith("ipc::") and not f.path.startswith("<ipc::"):
            continue
        for b, t in f.calls():
            nm = strip_generics(callee_name(t))
            if nm.endswith("::OsOpaqueIpcChannel::to_sender") or nm.endswith("::OsOpaqueIpcChannel::to_receiver"):
                n += 1
                names = chain_calls_ip(F, f, t["args"][0])
                if any(x in names for x in TAKERS):
                    R.ok("%s: %s applied to a value taken out of its slot" % (f.path, nm.split("::")[-1]), f.loc(b), cfg)
                else:
                    R.violate("%s:%s:slot-not-consumed" % (strip_generics(f.path), nm.split("::")[-1]),
                              "%s is applied to the table slot in place: an index referenced twice is converted twice (the second conversion wraps "
                              "the sentinel; closing it asserts) instead of being reported as an error" % nm.split("::")[-1], f.path, f.loc(b), config=cfg)
    # shared memory slots: the region wrapped into the deserialised value must come through a taker
    for p in sorted(D):
        f = D[p]
        if f.impl_trait != "serde::Deserialize" or "IpcSharedMemory" not in f.impl_self:
            continue
        for b in sorted(f.live_blocks()):
            if f.is_cleanup(b):
                continue
            for si, st in enumerate(f.stmts(b)):
                if st["s"] == "assign" and st["rv"]["r"] == "agg" and st["rv"]["kind"].get("adt") == "std::option::Option" and st["rv"]["kind"].get("variant") == "Some":
                    a = st["rv"]["a"][0]
                    if op_place(a) is None or "OsIpcSharedMemory" not in f.local_ty(a["pl"]["l"]):
                        continue
                    n += 1
                    names = chain_calls_ip(F, f, a)
                    if any(x in names for x in TAKERS):
                        R.ok("%s: region moved out of its slot" % f.path, f.loc(b, si), cfg)
                    else:
                        R.violate("%s:region:slot-not-consumed" % strip_generics(f.path), "the region handed to the program is not moved out of its table slot", f.path, f.loc(b, si), config=cfg)
    # ... and the value built for the program holds `Some(region taken)` or nothing at all (the sentinel): never the raw result of the slot lookup, for which
    # "no such slot / already used" would silently become an empty region
    from vlib.flow import Expr, expr_strip_blocks, expr_str
    for p in sorted(D):
        f = D[p]
        if f.impl_trait != "serde::Deserialize" or "IpcSharedMemory" not in f.impl_self:
            continue
        ex = Expr(f)
        for b in sorted(f.live_blocks()):
            if f.is_cleanup(b):
                continue
            for si, st in enumerate(f.stmts(b)):
                if st["s"] == "assign" and st["rv"]["r"] == "agg" and st["rv"]["kind"].get("adt") == "ipc::IpcSharedMemory" and st["rv"]["a"]:
                    e = expr_strip_blocks(ex.of_operand(st["rv"]["a"][0]))
                    if (e[0] == "agg" and e[1].endswith("Option::Some")) or (e[0] == "agg" and e[1].endswith("Option::None")) or e[0] == "const":
                        R.ok("%s: the region field is Some(taken region) or the empty value" % f.path, f.loc(b, si), cfg)
                    elif _defs_some_or_none(f, st["rv"]["a"][0]):
                        # `let region = if index == MAX { None } else { Some(taken) }; Ok(IpcSharedMemory { os_shared_memory: region })`: each arm is one of the two accepted values
                        R.ok("%s: the region field is Some(taken region) or the empty value on every path" % f.path, f.loc(b, si), cfg)
                    elif _known_some(f, b, st["rv"]["a"][0]) and any(x in chain_calls_ip(F, f, st["rv"]["a"][0]) for x in TAKERS):
                        # `if taken.is_none() { return Err(..) } Ok(IpcSharedMemory { os_shared_memory: taken })`: the lookup result is kept as the Option it is,
                        # but only where it has been found to hold a region, and it was moved out of its slot
                        n += 1
                        R.ok("%s: the region field is the taken slot itself, on the edge where it is known to hold a region" % f.path, f.loc(b, si), cfg)
                    else:
                        R.violate("%s:region:lookup-result-unchecked" % strip_generics(f.path), "the deserialised value wraps the result of the slot lookup as it is (%s): a missing or already used slot decodes to an empty region instead of an error" % expr_str(e)[:80],
                                  f.path, f.loc(b, si), config=cfg)
    R.count("conversion_sites[%s]" % cfg, n)



def _defs_some_or_none(f, operand):
    """the operand is (a chain of plain copies of) a local with several definitions, each of them the literal `Some(..)` or `None`"""
    l = op_local(operand)
    if l is None or (op_place(operand) or {}).get("p"):
        return False
    for _ in range(8):
        ds = [d for d in f.defs().get(l, []) if not f.is_cleanup(d[0])]
        if len(ds) == 1 and ds[0][1] is not None and ds[0][2]["rv"]["r"] == "use" and not ds[0][2]["lhs"].get("p") and \
                op_place(ds[0][2]["rv"]["a"][0]) is not None and not ds[0][2]["rv"]["a"][0]["pl"].get("p"):
            l = ds[0][2]["rv"]["a"][0]["pl"]["l"]
            continue
        break
    if len(ds) < 2:
        return False
    return all(d[1] is not None and not d[2]["lhs"].get("p") and d[2]["rv"]["r"] == "agg" and d[2]["rv"]["kind"].get("adt") == "std::option::Option" for d in ds)


def _known_some(f, b, operand):
    """block b lies behind an edge that says the Option in `operand` (or what it was moved from) is Some: `is_some()` true, `is_none()` false, or the Some arm of a match"""
    from vlib.flow import edge_label

    def chain(l):
        out = set()
        for _ in range(8):
            if l is None or l in out:
                break
            out.add(l)
            ds = [d for d in f.defs().get(l, []) if not f.is_cleanup(d[0])]
            if len(ds) == 1 and ds[0][1] is not None and ds[0][2]["rv"]["r"] in ("use", "ref") and not ds[0][2]["lhs"].get("p"):
                src = ds[0][2]["rv"]["pl"] if ds[0][2]["rv"]["r"] == "ref" else op_place(ds[0][2]["rv"]["a"][0])
                l = src["l"] if src is not None and not src.get("p") else None
            else:
                break
        return out
    mine = chain(op_local(operand))
    if not mine:
        return False
    for s_ in f.live_blocks():
        if f.term(s_)["t"] != "switch" or not f.dominates(s_, b) or s_ == b:
            continue
        for tgt in f.succ(s_):
            if not (tgt == b or f.dominates(tgt, b)):
                continue
            if any(b in f.reachable(x, avoid=[tgt]) for x in f.succ(s_) if x != tgt):
                continue
            for lab in edge_label(f, s_, tgt):
                if lab["kind"] == "pred" and ((lab["pred"] == "is_some" and lab["truth"]) or (lab["pred"] == "is_none" and not lab["truth"])):
                    if chain(op_local(lab["arg"])) & mine:
                        return True
                if lab["kind"] == "variant" and lab.get("adt") == "std::option::Option" and lab.get("variant") == "Some" and not lab["place"].get("p"):
                    if chain(lab["place"]["l"]) & mine:
                        return True
    return False


def rule_decode_reader(ctx, cfg, F):
    R = ctx.rule("DECODE-READER", "received bytes are decoded with bincode's slice reader (bincode::deserialize / Options::deserialize on &[u8]), which checks a length prefix against the bytes "
                 "that remain before allocating; the stream readers (deserialize_from and friends) allocate the announced length first, so one hostile length aborts the receiving process")
    n = 0
    for f in sorted(F.fns.values(), key=lambda x: x.path):
        if f.file.endswith("test.rs"):
            continue
        for b, t in f.calls():
            nm = strip_generics(callee_name(t))
            decl = strip_generics(t.get("callee") or "")
            if nm.startswith("bincode::") and ("deserialize" in nm):
                n += 1
                if "deserialize_from" in nm or "deserialize_from" in decl or "deserialize_seed" in nm and "from" in nm:
                    R.violate("%s:stream-reader" % strip_generics(f.path), "%s decodes received bytes with %s: the stream reader allocates an announced length before reading it" % (f.path, nm),
                              f.path, f.loc(b), config=cfg)
                else:
                    R.ok("%s decodes with the slice reader (%s)" % (f.path, nm.split("::")[-1]), f.loc(b), cfg)
    R.count("decode_sites[%s]" % cfg, n)


def rule_result_unwrap(ctx, cfg, F):
    R = ctx.rule("DECODE-RESULT-UNWRAP", "library code never unwraps the result of decoding a received message (OpaqueIpcMessage::to)")
    n = 0
    for f in sorted(F.fns.values(), key=lambda x: x.path):
        if f.file.endswith("test.rs"):
            continue
        tr = None
        for b, t in f.calls():
            nm = strip_generics(callee_name(t))
            if nm in ("std::result::Result::unwrap", "std::result::Result::expect"):
                tr = tr or Tracer(f)
                for r in tr.roots_of_operand(t["args"][0]):
                    if r.kind == "call" and r.id == "ipc::OpaqueIpcMessage::to":
                        R.violate("%s:unwrap-of-decode-result" % strip_generics(f.path), "%s unwraps the result of OpaqueIpcMessage::to: an undecodable message panics this thread" % f.path,
                                  f.path, f.loc(b), config=cfg)
        for b, t in f.calls_to("ipc::OpaqueIpcMessage::to"):
            n += 1
    R.count("decode_calls[%s]" % cfg, n)
    if not any(fi.rule == "DECODE-RESULT-UNWRAP" for fi in ctx.findings):
        R.ok("no unwrap of a decode result among %d decode calls" % n, None, cfg)
