"""C06: receiver set rules -- SET-ID, SET-DRAIN, SET-NONBLOCK, SET-CLOSE, SET-EINTR (unix), SET-ID / SET-REMOVE (in-process)."""
from vlib.flow import Explorer, Expr, Tracer, edge_label, path_summaries
from vlib.mir import callee_name, op_const, op_local, op_place, strip_generics
from rules.send import _root_local

EWOULDBLOCK = 11


def set_fns(F, backend):
    base = "platform::%s::OsIpcReceiverSet::" % backend
    return F.fns.get(base + "add"), F.fns.get(base + "select")


def rule_set_id(ctx, cfg, F, backend):
    R = ctx.rule("SET-ID", "add(): the id returned and the id stored for the member come from one and the same next() on the set's counter, and nothing else writes the counter; "
                 "select(): the id of every reported event comes from the entry looked up by the event's token (unix) / from the id vector at the selected index (in-process)")
    add, sel = set_fns(F, backend)
    if not add or not sel:
        R.violate("anchor-missing:%s-set" % backend, "add/select of the %s receiver set not found" % backend, config=cfg)
        return
    tr = Tracer(add)
    nexts = [(b, t) for b, t in add.calls() if strip_generics(t.get("callee") or "") == "std::iter::Iterator::next"]
    counter_nexts = [(b, t) for b, t in nexts if any(r.kind == "param" and r.id == 1 and r.field_names() for r in tr.roots_of_operand(t["args"][0]))]
    cfield = None
    if len(counter_nexts) == 1:
        cfield = [r.field_names()[0] for r in tr.roots_of_operand(counter_nexts[0][1]["args"][0]) if r.kind == "param"][0]
        R.count("next_sites[%s]" % cfg, 1)
    elif not counter_nexts:
        # plain integer counter: `id = self.f; self.f = self.f + c` with c >= 1
        ex = Expr(add)
        for b in sorted(add.live_blocks()):
            for si, st in enumerate(add.stmts(b)):
                if st["s"] == "assign" and st["lhs"]["l"] == 1 and st["lhs"].get("p") and st["lhs"]["p"][0] == "*":
                    names = [e["n"] for e in st["lhs"]["p"] if isinstance(e, dict) and "f" in e]
                    e = ex.of_rvalue(st["rv"], 0, b)
                    if len(names) == 1 and e[0] == "bin" and e[1] == "Add" and e[3][0] == "const" and isinstance(e[3][1], int) and e[3][1] >= 1 and \
                       e[2] == ("field", ("param", 1), e[2][2] if len(e[2]) > 2 else None, names[0]):
                        cfield = names[0]
        if cfield:
            R.count("next_sites[%s]" % cfg, 1)
    if cfield is None:
        # say what the id is derived from instead
        src = set()
        for b in sorted(add.live_blocks()):
            for st in add.stmts(b):
                if st["s"] == "assign" and st["lhs"]["l"] == 0 and st["rv"]["r"] == "agg" and st["rv"]["kind"].get("variant") == "Ok":
                    src |= {repr(r) for r in tr.roots_of_operand(st["rv"]["a"][0])}
        R.violate("%s:id-not-from-monotone-counter" % add.path, "the id handed out by add does not come from a monotonically increasing counter of the set (it derives from %s): "
                  "after a member is removed an id can be handed out twice while its first holder is still in the set" % sorted(src), add.path, add.loc(0), config=cfg)
        return
    # returned id
    ret_roots = set()
    for b in sorted(add.live_blocks()):
        for st in add.stmts(b):
            if st["s"] == "assign" and st["lhs"]["l"] == 0 and st["rv"]["r"] == "agg" and st["rv"]["kind"].get("variant") == "Ok":
                ret_roots |= {(r.kind, r.id, r.field_names()[:1]) for r in tr.roots_of_operand(st["rv"]["a"][0])}
    want = {("param", 1, (cfield,))}
    # a plain counter is incremented in place; the flow-insensitive slice then also sees its own `+ c`
    _strip = lambda rs: {r for r in rs if not (r[0] == "op" and str(r[1]).startswith("Add"))}
    ret_roots = _strip(ret_roots)
    if ret_roots != want:
        R.violate("%s:returned-id-origin" % add.path, "the id returned by add does not come (only) from the counter: %s" % sorted(ret_roots), add.path, add.loc(0), config=cfg)
    else:
        R.ok("add returns the value of the monotone counter `%s`" % cffield if False else "add returns the value of the monotone counter `%s`" % cfield, add.loc(0), cfg)
    # stored id: unix -> PollEntry.id aggregate operand; in-process -> push onto the id vector
    stored = []
    for b in sorted(add.live_blocks()):
        for si, st in enumerate(add.stmts(b)):
            if st["s"] == "assign" and st["rv"]["r"] == "agg" and (st["rv"]["kind"].get("adt") or "").endswith("PollEntry"):
                stored.append(("PollEntry.id", st["rv"]["a"][0], b))
    member_vecs = set()          # fields of the set that add() appends to (the id vector and the receiver vector, or one vector of entries)
    for b, t in add.calls_to("std::vec::Vec::push"):
        fld = next(iter(x.field_names()[:1] for x in tr.roots_of_operand(t["args"][0]) if x.kind == "param" and x.id == 1), None)
        if fld:
            member_vecs.add(fld)
        if (t.get("generics") or [""])[0] == "u64":
            stored.append(("id vector", t["args"][1], b))
        else:
            from rules.ipcl import _leaves
            for ty, o in _leaves(add, t["args"][1]):
                if ty == "u64" and o.get("k") != "c":
                    stored.append(("member entry", o, b))
    if not stored:
        R.violate("%s:no-stored-id" % add.path, "add stores no id for the member", add.path, add.loc(0), config=cfg)
    for what, op, b in stored:
        rs = _strip({(r.kind, r.id, r.field_names()[:1]) for r in tr.roots_of_operand(op)})
        if rs == want:
            R.ok("add stores the same next() result in %s" % what, add.loc(b), cfg)
        else:
            R.violate("%s:stored-id-origin" % add.path, "the id stored in %s does not come from the same counter value as the returned id: %s" % (what, sorted(rs)), add.path, add.loc(b), config=cfg)
    # nobody else touches the counter
    adt = add.local_adt(1)
    for f in F.fns.values():
        if f is add or not f.path.startswith("platform::%s::" % backend) and ("<platform::%s::" % backend) not in f.path:
            continue
        for b in f.live_blocks():
            for st in f.stmts(b):
                if st["s"] != "assign":
                    continue
                for pl in ([st["lhs"]] + ([st["rv"]["pl"]] if st["rv"]["r"] in ("ref", "raw") and "Mut" in st["rv"].get("m", "") else [])):
                    names = [e["n"] for e in pl.get("p", []) if isinstance(e, dict) and "f" in e]
                    if cfield in names and f.local_adt(pl["l"]) == adt:
                        R.violate("%s:counter-written-elsewhere" % f.path, "%s writes or mutably borrows the id counter outside add" % f.path, f.path, f.loc(b), config=cfg)
    # select side
    trs = Tracer(sel)
    n_ids = 0
    for b in sorted(sel.live_blocks()):
        if sel.is_cleanup(b):
            continue
        for si, st in enumerate(sel.stmts(b)):
            if st["s"] == "assign" and st["rv"]["r"] == "agg" and (st["rv"]["kind"].get("adt") or "").endswith("OsIpcSelectionResult"):
                n_ids += 1
                idop = st["rv"]["a"][0]
                roots = trs.roots_of_operand(idop)
                if backend == "unix":
                    ok = False
                    for r in roots:
                        if r.kind == "call" and r.id == "std::collections::HashMap::get" and r.field_names()[-1:] == ("id",):
                            gt = sel.term(r.block)
                            tok = trs.roots_of_operand(gt["args"][1])
                            ok = any(x.kind == "call" and x.id == "mio::event::Event::token" for x in tok) and len(roots) == 1
                    if ok:
                        R.ok("%s id comes from the entry looked up by the event's token" % st["rv"]["kind"]["variant"], sel.loc(b, si), cfg)
                    else:
                        R.violate("%s:event-id-origin:%s" % (sel.path, st["rv"]["kind"]["variant"]), "the id reported in %s does not come from the entry of the event's token (%s)" % (st["rv"]["kind"]["variant"], sorted(map(repr, roots))[:3]),
                                  sel.path, sel.loc(b, si), config=cfg)
                else:
                    ok = False
                    for r in roots:
                        if r.kind == "call" and strip_generics(r.id) in ("std::ops::Index::index", "<std::vec::Vec<T, A> as std::ops::Index<I>>::index", "std::vec::Vec::remove", "std::vec::Vec::swap_remove"):
                            # (`ids.remove(i)` hands out ids[i] as it takes the member out: the same element)
                            it = sel.term(r.block)
                            base_ok = any(x.kind == "param" and x.id == 1 and x.field_names()[:1] in member_vecs for x in trs.roots_of_operand(it["args"][0])) and \
                                (r.field_idx()[-1:] in ((), (0,)) or "u64" in sel.local_ty(op_local(idop) or 0))
                            idx_ok = any(x.kind == "call" and x.id == "crossbeam_channel::SelectedOperation::index" for x in trs.roots_of_operand(it["args"][1]))
                            ok = base_ok and idx_ok
                    if ok:
                        R.ok("%s id = receiver_ids[selected index]" % st["rv"]["kind"]["variant"], sel.loc(b, si), cfg)
                    else:
                        R.violate("%s:event-id-origin:%s" % (sel.path, st["rv"]["kind"]["variant"]), "the reported id is not receiver_ids[index of the selected operation] (%s)" % sorted(map(repr, roots))[:3],
                                  sel.path, sel.loc(b, si), config=cfg)
    R.count("event_ids[%s]" % cfg, n_ids)
    if backend == "inprocess":
        rem = [(b, t) for b, t in sel.calls_to("std::vec::Vec::remove")]
        idx_roots = [frozenset(r.key() for r in trs.roots_of_operand(t["args"][1])) for b, t in rem]
        vecs = {next(iter(x.field_names()[:1] for x in trs.roots_of_operand(t["args"][0]) if x.kind == "param"), None) for b, t in rem}
        if rem and len(rem) == len(member_vecs) and len(set(idx_roots)) == 1 and vecs == member_vecs:
            R.ok("closed member: removed at one index from every vector add() appends to (%s)" % ", ".join(sorted(v[0] for v in member_vecs)), sel.loc(rem[0][0]), cfg)
        else:
            R.violate("%s:parallel-remove" % sel.path, "the parallel vectors are not both removed at the same index (%d removes on %s)" % (len(rem), sorted(map(str, vecs))), sel.path, sel.loc(0), config=cfg)


INTERRUPTED_DISCR = 35


def _reach_without_poll_error(f, tr, pb):
    """blocks reachable from the poll call without taking an edge that says its result is an Err"""
    seen, todo = set(), [f.term(pb)["to"]]
    while todo:
        b = todo.pop()
        if b is None or b in seen or b == pb:
            continue
        seen.add(b)
        for s_ in f.succ(b):
            if f.is_cleanup(s_):
                continue
            err_edge = False
            for lab in edge_label(f, b, s_):
                if lab["kind"] in ("variant", "variant_not") and lab.get("variant") == "Err" and lab.get("adt") == "std::result::Result":
                    rs = tr.roots_of_place(lab["place"])
                    if any(r.kind == "call" and r.block == pb for r in rs):
                        err_edge = True
            if not err_edge:
                todo.append(s_)
    return seen


def rule_set_unix(ctx, cfg, F):
    Rd = ctx.rule("SET-DRAIN", "registrations are edge-triggered, so after a successful member read every path reads again: the per-member loop is left only on the closed edge, "
                  "the would-block edge or an error return")
    Rn = ctx.rule("SET-NONBLOCK", "members are read with BlockingMode::Nonblocking")
    Rc = ctx.rule("SET-CLOSE", "on the closed edge every path, before leaving the member loop, removes the member's entry, deregisters it, closes its descriptor and reports ChannelClosed(id)")
    Re = ctx.rule("SET-EINTR", "in the wait loop the edge `error kind == Interrupted` leads back to the poll and never to a return")
    add, sel = set_fns(F, "unix")
    if not sel:
        Rd.violate("anchor-missing:select", "unix select not found", config=cfg)
        return
    f = sel
    tr = Tracer(f)
    rule_set_noreblock(ctx, cfg, F)
    reads = [(b, t) for b, t in f.calls() if strip_generics(callee_name(t)) == "platform::unix::recv"]
    Rd.count("member_reads[%s]" % cfg, len(reads))
    event_next = {b for b, t in f.calls() if strip_generics(t.get("callee") or "") == "std::iter::Iterator::next"}
    for rb, rt in reads:
        modes = {r.id.split("::")[-1] for r in tr.roots_of_operand(rt["args"][1]) if r.kind == "agg"}
        if modes == {"Nonblocking"}:
            Rn.ok("member read passes Nonblocking", f.loc(rb), cfg)
        else:
            Rn.violate("%s:member-read-mode" % f.path, "the member read passes %s: a blocking read inside select() stalls every other member" % sorted(modes), f.path, f.loc(rb), config=cfg)
        fdr = tr.roots_of_operand(rt["args"][0])
        if not any(r.kind == "call" and r.id == "std::collections::HashMap::get" and r.field_names()[-1:] == ("fd",) for r in fdr):
            Rn.violate("%s:member-read-fd" % f.path, "the member read does not use the descriptor of the event's entry", f.path, f.loc(rb), config=cfg)

        def is_res(pl_local):
            return any(r.kind == "call" and r.block == rb for r in tr.roots(pl_local))

        def edge_fact(b, s, labs):
            for lab in labs:
                if lab["kind"] in ("variant", "variant_not") and lab.get("adt") == "std::result::Result" and lab.get("variant") and is_res(lab["place"]["l"]) and not lab["place"].get("p"):
                    yield ("res", lab["variant"])
                elif lab["kind"] == "callbool" and lab["callee"].endswith("::channel_is_closed"):
                    yield ("closed", lab["truth"])
                elif lab["kind"] in ("variant", "variant_not") and (lab.get("adt") or "").endswith("UnixError") and lab.get("variant"):
                    if lab["variant"] in ("ChannelClosed",):
                        yield ("closed", True)
                elif lab["kind"] == "cmp" and lab["op"] in ("Eq", "Ne"):
                    c = op_const(lab["b"]) if op_const(lab["b"]) is not None else op_const(lab["a"])
                    if c == EWOULDBLOCK:
                        yield ("wouldblock", lab["truth"] if lab["op"] == "Eq" else not lab["truth"])
                elif lab["kind"] == "val" and lab["value"] == EWOULDBLOCK:
                    yield ("wouldblock", True)

        def block_fact(b):
            t = f.term(b)
            if t["t"] == "call":
                n = strip_generics(callee_name(t))
                if n in ("std::collections::HashMap::remove", "mio::Registry::deregister", "libc::close"):
                    yield ("did", n.split("::")[-1])
                if n == "std::vec::Vec::push":
                    for r in tr.roots_of_operand(t["args"][1]):
                        if r.kind == "agg" and r.id.endswith("OsIpcSelectionResult::ChannelClosed"):
                            yield ("did", "report-closed")
                        if r.kind == "agg" and r.id.endswith("OsIpcSelectionResult::DataReceived"):
                            yield ("did", "report-data")
                if b in event_next:
                    yield ("left", "next-event")
            elif t["t"] == "return":
                yield ("left", "return")

        # explore from the read until the read is reached again or the member loop is left
        ex = Explorer(f)
        leaves = []

        def step(b, st, env):
            first, facts = st
            if b == rb and not first:
                return None
            extra = list(block_fact(b))
            facts = facts | frozenset(extra)
            if any(x[0] == "left" for x in extra) and not first:
                leaves.append((facts, b))
                return None
            return (False, facts)

        def edge(b, s, labs, st, env):
            first, facts = st
            extra = list(edge_fact(b, s, labs))
            return (first, facts | frozenset(extra))
        ex.walk(rb, (True, frozenset()), step, edge=edge, env0=ex.entry_env(rb))
        drain_bad, close_bad = [], []
        n_closed = 0
        for facts, lb in leaves:
            res = {x[1] for x in facts if x[0] == "res"}
            closed = ("closed", True) in facts
            wb = ("wouldblock", True) in facts
            how = {x[1] for x in facts if x[0] == "left"}
            did = {x[1] for x in facts if x[0] == "did"}
            if "Ok" in res and "Err" not in res:
                drain_bad.append((lb, "after a successful read (%s) the member loop is left via %s without reading again" % (sorted(did), sorted(how))))
            elif "Err" in res and not closed and not wb and "next-event" in how:
                drain_bad.append((lb, "the member loop is left for the next event on an error that is neither closed nor would-block"))
            if closed and "Err" in res:
                n_closed += 1
                missing = {"remove", "deregister", "close", "report-closed"} - did
                if missing:
                    close_bad.append((lb, "closed edge leaves the member loop without: %s" % ", ".join(sorted(missing))))
        for lb, msg in drain_bad[:2]:
            Rd.violate("%s:member-loop-left-early:%s" % (f.path, "ok" if "successful" in msg else "err"), msg + ": with edge-triggered polling the remaining messages are never reported", f.path, f.loc(lb), config=cfg)
        if not drain_bad:
            Rd.ok("member loop left only on closed / would-block / error return (%d exits examined)" % len(leaves), f.loc(rb), cfg)
        for lb, msg in close_bad[:2]:
            Rc.violate("%s:closed-arm-incomplete:%s" % (f.path, msg.split(": ")[1].replace(", ", "+")), msg, f.path, f.loc(lb), config=cfg)
        if n_closed and not close_bad:
            Rc.ok("closed edge: remove + deregister + close + ChannelClosed on every path (%d paths)" % n_closed, f.loc(rb), cfg)
        Rc.count("closed_paths[%s]" % cfg, n_closed)
    # the poll instance is shared with every process forked while the set is alive (an epoll descriptor is not copied by fork, it is shared): tearing a set down closes
    # this process's descriptors and nothing else -- taking members out of the poll there (EPOLL_CTL_DEL) empties the set of the process that goes on using it
    for g in F.fns.values():
        if g.impl_trait == "std::ops::Drop" and "OsIpcReceiverSet" in (g.impl_self or ""):
            dereg = [b for b, t in g.calls() if strip_generics(callee_name(t)).endswith("Registry::deregister")]
            if dereg:
                Rc.violate("%s:drop-deregisters-members" % strip_generics(g.path), "dropping a receiver set deregisters its members from the poll instance: a forked child that drops its copy of the set "
                           "removes them from the parent's set as well, whose select() then waits for ever although messages and closures are pending", g.path, g.loc(dereg[0]), config=cfg)
            else:
                Rc.ok("dropping the set closes descriptors and leaves the (shareable) poll instance alone", g.loc(0), cfg)
    # EINTR
    polls = [(b, t) for b, t in f.calls() if strip_generics(callee_name(t)) == "mio::Poll::poll"]
    Re.count("poll_sites[%s]" % cfg, len(polls))
    for pb, pt in polls:
        found = False
        for b in sorted(f.live_blocks()):
            if f.term(b)["t"] != "switch":
                continue
            for s in f.succ(b):
                for lab in edge_label(f, b, s):
                    # (std's ErrorKind is foreign to the fact base, its variants appear by discriminant: Interrupted is 35 in the pinned toolchain -- the value the
                    # reference tree's own `ErrorKind::Interrupted` constant carries)
                    if lab["kind"] in ("variant", "variant_not") and "ErrorKind" in str(lab.get("adt", "")) and (lab.get("value") == INTERRUPTED_DISCR or INTERRUPTED_DISCR in (lab.get("not") or [])) and \
                            any(r.kind == "call" and r.id == "std::io::Error::kind" for r in tr.roots_of_place(lab["place"])):
                        # `matches!(error.kind(), ErrorKind::Interrupted)`: a test of the kind's discriminant
                        if lab["kind"] == "variant":
                            found = True
                            reach = Explorer(f).feasible_blocks(start=s, avoid=[pb])
                            rets = [x for x in reach if any(st_["s"] == "assign" and st_["lhs"]["l"] == 0 and st_["rv"]["r"] == "agg" and st_["rv"]["kind"].get("variant") == "Err" for st_ in f.stmts(x)) or
                                    (f.term(x)["t"] == "call" and f.term(x)["dest"]["l"] == 0 and "from_residual" in callee_name(f.term(x)))]
                            rets = [x for x in rets if not any(rb_ in reach and f.dominates(rb_, x) for rb_, _ in reads)]
                            rets = [x for x in rets if x not in _reach_without_poll_error(f, tr, pb)]
                            if rets:
                                Re.violate("%s:eintr-returns" % f.path, "an interrupted wait (EINTR) can reach a return instead of polling again", f.path, f.loc(b), config=cfg)
                            elif pb not in f.reachable(s):
                                Re.violate("%s:eintr-no-retry" % f.path, "an interrupted wait does not lead back to the poll", f.path, f.loc(b), config=cfg)
                            else:
                                Re.ok("error kind matched against Interrupted leads back to poll()", f.loc(b), cfg)
                        continue
                    if lab["kind"] == "callbool" and lab["callee"] in ("std::cmp::PartialEq::ne", "std::cmp::PartialEq::eq", "std::cmp::impls::eq", "std::cmp::impls::ne") or \
                       (lab["kind"] == "callbool" and lab["callee"].endswith("PartialEq>::eq")):
                        args = lab["args"]
                        kinds = [a for a in args if any(r.kind == "call" and r.id == "std::io::Error::kind" for r in tr.roots_of_operand(a))]
                        consts = [a for a in args for r in tr.roots_of_operand(a) if r.kind == "const"]
                        is_intr = any(_pvariant(f, a) == "Interrupted" for a in args)
                        if kinds and is_intr:
                            is_ne = lab["callee"].endswith("ne")
                            equal = (not lab["truth"]) if is_ne else lab["truth"]
                            if equal:
                                found = True
                                reach = Explorer(f).feasible_blocks(start=s, avoid=[pb])
                                # an error return reached without polling again
                                rets = []
                                for x in reach:
                                    for st_ in f.stmts(x):
                                        if st_["s"] == "assign" and st_["lhs"]["l"] == 0 and st_["rv"]["r"] == "agg" and st_["rv"]["kind"].get("variant") == "Err":
                                            rets.append(x)
                                        if st_["s"] == "assign" and st_["lhs"]["l"] == 0 and st_.get("inl_ret"):
                                            pass
                                    tx = f.term(x)
                                    if tx["t"] == "call" and tx["dest"]["l"] == 0 and "from_residual" in callee_name(tx):
                                        rets.append(x)
                                # errors of the member reads that follow are not errors of the wait
                                rets = [x for x in rets if not any(rb_ in reach and f.dominates(rb_, x) for rb_, _ in reads)]
                                # ... nor is anything else that a successful wait reaches as well (setting up for the reads, after the loop)
                                rets = [x for x in rets if x not in _reach_without_poll_error(f, tr, pb)]
                                if rets:
                                    Re.violate("%s:eintr-returns" % f.path, "an interrupted wait (EINTR) can reach a return instead of polling again", f.path, f.loc(b), config=cfg)
                                elif pb not in f.reachable(s):
                                    Re.violate("%s:eintr-no-retry" % f.path, "an interrupted wait does not lead back to the poll", f.path, f.loc(b), config=cfg)
                                else:
                                    Re.ok("error kind == Interrupted leads back to poll()", f.loc(b), cfg)
        if not found:
            Re.violate("%s:eintr-not-distinguished" % f.path, "the wait loop does not distinguish an interrupted poll (ErrorKind::Interrupted): a signal makes select() fail", f.path, f.loc(pb), config=cfg)



def rule_set_noreblock(ctx, cfg, F):
    R = ctx.rule("SET-NOREBLOCK", "select waits only while it has nothing to report: no path leads from a point where an event has been put into the result list (or a member "
                 "has been read) back to the blocking wait, so a batch of results is never held back behind a second indefinite wait")
    add, sel = set_fns(F, "unix")
    if not sel:
        R.violate("anchor-missing:select", "unix select not found", config=cfg)
        return
    f = sel
    waits = [b for b, t in f.calls() if strip_generics(callee_name(t)) in ("mio::Poll::poll", "mio::poll::Poll::poll") or strip_generics(callee_name(t)).endswith("::Poll::poll")
             or strip_generics(callee_name(t)) in ("libc::poll", "libc::epoll_wait", "libc::select")]
    produced = [b for b, t in f.calls() if strip_generics(callee_name(t)) == "std::vec::Vec::push" and "OsIpcSelectionResult" in " ".join(t.get("generics", []))]
    produced += [b for b, t in f.calls() if strip_generics(callee_name(t)) == "platform::unix::recv"]
    R.count("wait_sites[%s]" % cfg, len(waits))
    R.count("result_sites[%s]" % cfg, len(produced))
    bad = None
    for pb in produced:
        t = f.term(pb)
        if t["to"] < 0:
            continue
        reach = f.reachable(t["to"])
        hit = [w for w in waits if w in reach]
        if hit:
            bad = (pb, hit[0])
            break
    if bad:
        R.violate("%s:waits-again-with-results" % f.path, "after a result has been collected (%s) the function can reach the blocking wait again (%s): results already in hand are held back "
                  "until some other event arrives" % (f.loc(bad[0]), f.loc(bad[1])), f.path, f.loc(bad[1]), config=cfg)
    elif waits and produced:
        R.ok("the blocking wait is not reachable from any of the %d result-producing sites" % len(produced), f.loc(waits[0]), cfg)


def _pvariant(f, operand):
    """name of the C-like enum variant a promoted constant operand points to"""
    l = op_local(operand)
    seen = set()
    while l is not None and l not in seen:
        seen.add(l)
        ds = [d for d in f.defs().get(l, []) if d[1] is not None and not f.is_cleanup(d[0])]
        if len(ds) != 1:
            return None
        rv = ds[0][2]["rv"]
        if rv["r"] == "use":
            a = rv["a"][0]
            if a["k"] == "c":
                return a.get("pvariant")
            l = op_local(a)
        elif rv["r"] in ("ref", "raw"):
            l = rv["pl"]["l"]
        else:
            return None
    return None


def rule_set_inproc(ctx, cfg, F):
    R = ctx.rule("SET-INPROC", "in-process set: add() appends exactly one id and one (consumed) receiver, to the two parallel vectors, on every path; select() reports exactly one event per call, "
                 "built from the message of the selected operation, and a failed receive removes the member and reports it closed")
    add, sel = set_fns(F, "inprocess")
    if not add or not sel:
        R.violate("anchor-missing:inprocess-set", "in-process add/select not found", config=cfg)
        return
    tr = Tracer(add)
    pushes = [(b, t) for b, t in add.calls_to("std::vec::Vec::push")]
    targets = sorted(next(iter(x.field_names()[:1] for x in tr.roots_of_operand(t["args"][0]) if x.kind == "param"), ("?",))[0] for b, t in pushes)
    # what is appended, flattened: one id and one receiver per add() -- onto two parallel vectors or as one entry of one vector
    from rules.ipcl import _leaves
    parts = [(ty, o) for b, t in pushes for ty, o in _leaves(add, t["args"][1])]
    ids = [o for ty, o in parts if ty == "u64"]
    rcvs = [o for ty, o in parts if "OsIpcReceiver" in ty]
    ok = len(ids) == 1 and len(rcvs) == 1 and len(set(targets)) == len(targets) and all(add.all_paths_pass(0, [b])[0] for b, t in pushes)
    consumed = bool(rcvs) and any(r.kind == "call" and r.id.endswith("::OsIpcReceiver::consume") for r in tr.roots_of_operand(rcvs[0]))
    R.count("add_pushes[%s]" % cfg, len(ids) + len(rcvs))
    if ok and consumed:
        R.ok("add pushes one id and one consumed receiver on every path", add.loc(pushes[0][0]), cfg)
    else:
        R.violate("%s:parallel-push" % add.path, "add does not push exactly one id and one consumed receiver onto the parallel vectors (targets %s, consumed %s)" % (targets, consumed), add.path, add.loc(0), config=cfg)
    trs = Tracer(sel)
    # every Ok return carries a one-element vector
    n_ret = 0
    bad = None
    for b in sorted(sel.live_blocks()):
        if sel.is_cleanup(b):
            continue
        for si, st in enumerate(sel.stmts(b)):
            if st["s"] == "assign" and st["lhs"]["l"] == 0 and st["rv"]["r"] == "agg" and st["rv"]["kind"].get("variant") == "Ok":
                n_ret += 1
                # the vector comes from a boxed 1-array (vec![x])
                names = set()
                from vlib.flow import chain_calls
                names = chain_calls(sel, st["rv"]["a"][0])
                rts = trs.roots_of_operand(st["rv"]["a"][0])
                one = any("box_assume_init_into_vec" in n or "into_vec" in n or n.endswith("from_elem") for n in names) or any(r.kind == "agg" and r.id == "array" for r in rts) or \
                    (bool(rts) and all(r.kind == "call" and ("into_vec" in r.id or r.id.endswith("from_elem")) for r in rts))     # (the vector handed through an inner Result)
                if not one:
                    bad = "an Ok return of select is not a one-element vec![..]"
    # (counted: the kinds of event select can report -- data and closed -- however many Ok returns they are funnelled through)
    n_ev = len({st["rv"]["kind"]["variant"] for b in sel.live_blocks() if not sel.is_cleanup(b) for st in sel.stmts(b)
                if st["s"] == "assign" and st["rv"]["r"] == "agg" and (st["rv"]["kind"].get("adt") or "").endswith("OsIpcSelectionResult")})
    R.count("select_returns[%s]" % cfg, n_ev if n_ret else 0)
    # data event fields come from the selected operation's recv
    for b in sorted(sel.live_blocks()):
        for si, st in enumerate(sel.stmts(b)):
            if st["s"] == "assign" and st["rv"]["r"] == "agg" and (st["rv"]["kind"].get("adt") or "").endswith("OsIpcSelectionResult") and st["rv"]["kind"]["variant"] == "DataReceived":
                rs = trs.roots_of_operand(st["rv"]["a"][1])
                if not any(r.kind == "call" and r.id == "crossbeam_channel::SelectedOperation::recv" and r.field_idx()[-1:] == (0,) for r in rs):
                    bad = "the payload reported is not field 0 of the message received from the selected operation (%s)" % sorted(map(repr, rs))
    if bad:
        R.violate("%s:event-shape" % sel.path, bad, sel.path, sel.loc(0), config=cfg)
    else:
        R.ok("select reports one event per call, with the selected operation's message", sel.loc(0), cfg)
