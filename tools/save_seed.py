#!/usr/bin/env python3
"""usage: tools/save_seed.py <PROP> <letter> "<what it needs to manifest>"  [--features X]
Copies /tmp/seed/<PROP>/MUTANTS/<letter> into /verif/seeded/<PROP>-<letter>/, runs every check against the patched /repo
(apply, run, undo) and records which rules report it in meta.json.  Confirmation of suite/demo behaviour is done separately
with tools/confirm_seed.sh and its outcome is passed with --confirmed."""
import json, os, re, shutil, subprocess, sys
prop, letter, needs = sys.argv[1], sys.argv[2], sys.argv[3]
feat = sys.argv[sys.argv.index("--features") + 1] if "--features" in sys.argv else ""
confirmed = sys.argv[sys.argv.index("--confirmed") + 1] if "--confirmed" in sys.argv else "yes"
src = "%s/%s/MUTANTS/%s" % (os.environ.get("SEED_ROOT", "/tmp/seed"), prop, letter)
dst = "/verif/seeded/%s-%s" % (prop, letter)
os.makedirs(dst, exist_ok=True)
for f in os.listdir(src):
    if os.path.isfile(os.path.join(src, f)):
        shutil.copy(os.path.join(src, f), os.path.join(dst, f))
import tempfile
scratch = tempfile.mkdtemp(prefix="ipcv-save-")
subprocess.run(["rsync", "-a", "--exclude", "target", "--exclude", ".git", "/repo/", scratch + "/"], check=True)
subprocess.run(["patch", "-p1", "-s", "-i", os.path.join(dst, "patch.diff")], cwd=scratch, check=True)
detected = {}
try:
    env = dict(os.environ, IPCV_REPO=scratch, IPCV_EVIDENCE_DIR=os.path.join(scratch, ".ev"))
    for i in range(1, 21):
        p = "C%02d" % i
        r = subprocess.run(["./check", p], cwd="/verif", capture_output=True, text=True, env=env)
        keys = re.findall(r"^VIOLATION property=\S+ replay=\S+ rule=(\S+) key=(.*)$", r.stdout, re.M)
        if keys:
            detected[p] = [k[1] for k in keys]
finally:
    shutil.rmtree(scratch, ignore_errors=True)
files = re.findall(r"^diff --git a/(\S+)", open(os.path.join(dst, "patch.diff")).read(), re.M)
meta = {
    "id": "%s-%s" % (prop, letter),
    "breaks_property": prop,
    "origin": "written by an independent sub-agent that saw only the property text and a scratch worktree of /repo (nothing from /verif)",
    "files_changed": files,
    "needs_to_manifest": needs,
    "demo": {"file": "demo.rs", "place_at": "tests/demo_%s.rs" % letter, "features": feat},
    "confirmed_by_me": {
        "how": "tools/confirm_seed.sh in the scratch worktree %s/%s (removed afterwards)" % (os.environ.get("SEED_ROOT", "/tmp/seed"), prop),
        "suite_passes_with_change": confirmed != "no",
        "demo_fails_with_change": confirmed != "no",
        "demo_passes_without_change": confirmed != "no",
        "note": confirmed if confirmed not in ("yes", "no") else "",
    },
    "checks_run": "patch applied to a scratch copy of /repo (rsync, outside /repo and /verif); ./check C01..C20 with IPCV_REPO pointing at the copy; copy removed",
    "detected_by": detected,
    "detected": bool(detected),
    "detected_by_own_property": prop in detected,
}
json.dump(meta, open(os.path.join(dst, "meta.json"), "w"), indent=1)
print(dst, "detected by", {k: len(v) for k, v in detected.items()})
