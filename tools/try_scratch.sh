#!/bin/sh
# usage: tools/try_scratch.sh <patch> [props...]  -- apply the patch to a scratch copy of /repo (never /repo itself), run the checks there, remove the copy
P="$1"; shift
d=$(mktemp -d /tmp/ipcv-try-XXXXXX)
rsync -a --exclude target --exclude .git /repo/ "$d/"
(cd "$d" && patch -p1 -s -i "$P") || { echo "PATCH DOES NOT APPLY"; rm -rf "$d"; exit 1; }
PROPS="$@"
[ -z "$PROPS" ] && PROPS="C01 C02 C03 C04 C05 C06 C07 C08 C09 C10 C11 C12 C13 C14 C15 C16 C17 C18 C19 C20"
for p in $PROPS; do
  IPCV_REPO="$d" IPCV_EVIDENCE_DIR="$d/.ev" /verif/check $p 2>&1 | grep -E "^VIOLATION|checker crashed" | sed 's/replay=[^ ]* //' | sed "s/^/[$p] /" | cut -c1-260
done
rm -rf "$d"
