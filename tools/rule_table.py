#!/usr/bin/env python3
"""print the markdown table 'rules run per property' from the evidence files of the last run (DESIGN.md section 9.2)"""
import json, os
HERE = os.path.dirname(os.path.dirname(os.path.abspath(__file__)))
print("| id | rules run (obligations discharged on the current tree) | configurations |")
print("|----|--------------------------------------------------------|----------------|")
for i in range(1, 21):
    pid = "C%02d" % i
    ev = json.load(open(os.path.join(HERE, "evidence", pid + ".json")))
    cov = ev["coverage"]
    rules = ["%s (%d)" % (r["rule"], r["discharged"]) for r in cov["rules"]]
    print("| %s | %s | %s |" % (pid, ", ".join(rules), " ".join(sorted(cov["configurations"]))))
