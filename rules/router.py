"""C07 and C17: the router thread's event loop and the proxy functions.

The router's `run` function is located by role: it calls IpcReceiverSet::select and invokes a
boxed FnMut handler.  Per-event facts (event kind, wake-up test, control-message kind) are
accumulated along feasible paths, so the rules do not depend on the order in which the source
tests them (match guard, nested if, early computed bool...)."""
from vlib.flow import Explorer, Tracer, chain_calls, edge_label, ref_place
from vlib.mir import callee_name, op_const, op_local, op_place, strip_generics

SELECT = ("ipc::IpcReceiverSet::select",)
INVOKE_DECL = ("std::ops::FnMut::call_mut", "std::ops::FnOnce::call_once", "std::ops::Fn::call")
EVENT_ADT = "ipc::IpcSelectionResult"
UNWRAPS = ("std::option::Option::unwrap", "std::option::Option::expect", "std::result::Result::unwrap", "std::result::Result::expect")
EMPTIERS = ("std::collections::HashMap::clear", "std::collections::HashMap::drain", "std::mem::take", "std::mem::replace")


def find_run(F):
    """functions that select on a receiver set and invoke a handler"""
    out = []
    for f in F.fns.values():
        if not f.path.startswith("router::"):
            continue
        names = {strip_generics(callee_name(t)) for _, t in f.calls()}
        decls = {strip_generics(t.get("callee") or "") for _, t in f.calls()}
        if any(s in names for s in SELECT) and any(d in decls for d in INVOKE_DECL):
            out.append(f)
    return out


def control_enum(F, f):
    """the enum received from the crossbeam control queue in f, with variant roles"""
    for b, t in f.calls_to("crossbeam_channel::Receiver::recv"):
        g = " ".join(t.get("generics", []))
        for path, a in F.adts.items():
            if path.split("::")[-1] in g and len(a["variants"]) >= 2:
                roles = {}
                for i, v in enumerate(a["variants"]):
                    tys = " ".join(fl["t"] for fl in v["fields"])
                    if "Sender<()>" in tys:
                        roles[v["n"]] = "shutdown"
                    elif "OpaqueIpcReceiver" in tys:
                        roles[v["n"]] = "add"
                    else:
                        roles[v["n"]] = "other"
                return path, roles, b
    return None, {}, None


class RunModel:
    def __init__(self, F, f):
        self.F, self.f = F, f
        self.tr = Tracer(f)
        self.ctl_adt, self.ctl_roles, self.ctl_recv_block = control_enum(F, f)
        self.select_blocks = {b for b, t in f.calls() if strip_generics(callee_name(t)) in SELECT}
        self.invoke_blocks = {b for b, t in f.calls() if strip_generics(t.get("callee") or "") in INVOKE_DECL}
        self.ctl_recv_blocks = {b for b, t in f.calls_to("crossbeam_channel::Receiver::recv")}
        # event local(s): locals of the event enum type that are switched on
        self.event_locals = {i for i, l in enumerate(f.locals) if l["adt"] == EVENT_ADT and not l["t"].startswith("&")}
        # the event loop header: Iterator::next whose result is Option<IpcSelectionResult>
        self.iter_blocks = set()
        for b, t in f.calls():
            if strip_generics(t.get("callee") or "") == "std::iter::Iterator::next" and EVENT_ADT.split("::")[-1] in f.local_ty(t["dest"]["l"]):
                self.iter_blocks.add(b)

    def is_event_id(self, operand):
        """value is payload field 0 of the current event"""
        for r in self.tr.roots_of_operand(operand):
            if r.kind in ("local", "call", "param") and r.field_idx()[-1:] == (0,):
                # rooted at the event local (moved out of the iterator)
                if self._from_event(r):
                    return True
        return False

    def _from_event(self, r):
        if r.kind == "local" and r.id in self.event_locals:
            return True
        if r.kind == "call" and r.block in self.iter_blocks:
            return True
        # the tracer passes through Iterator::next (transparent) down to the select() result
        if r.kind == "call" and r.id in SELECT:
            return True
        return False

    def is_event_msg(self, operand):
        """the operand is (a 1-tuple of) payload field 1 of the current event"""
        for extra in ((), (("f", 0, ""),)):
            for r in self.tr.roots_of_operand(operand, extra):
                if self._from_event(r) and r.field_idx()[-1:] == (1,):
                    return True
        return False

    def state_local(self):
        """the router's state: the `self` parameter, or -- when run() builds the state itself -- the local of the type that holds the handler table"""
        if getattr(self, "_state", None) is None:
            self._state = 1
            def has_table(adt):
                a = self.F.adts.get(adt)
                return bool(a) and any("HashMap<" in fl["t"] and "FnMut" in fl["t"] for fl in a["variants"][0]["fields"])
            if not (self.f.argc >= 1 and has_table(self.f.local_adt(1))):
                for i, l in enumerate(self.f.locals):
                    if i > self.f.argc and not l["t"].startswith(("&", "*")) and has_table(l["adt"]):
                        self._state = i
                        break
        return self._state

    def is_self_field(self, operand, ty_pred=None):
        sl = self.state_local()
        if sl == 1 and self.f.argc >= 1:
            for r in self.tr.roots_of_operand(operand):
                if r.kind == "param" and r.id == 1 and r.field_names():
                    return r.field_names()[0]
            return None
        a = self.F.adts.get(self.f.local_adt(sl))
        fields = a["variants"][0]["fields"] if a else []
        # a reference to / a copy of a field of the state local: follow borrows, re-borrows and plain copies back to `state.field`
        pl = op_place(operand)
        for _ in range(32):
            if pl is None:
                return None
            fp = [e["f"] for e in pl.get("p", []) if isinstance(e, dict) and "f" in e]
            if pl["l"] == sl:
                return fields[fp[0]]["n"] if fp and fp[0] < len(fields) else None
            ds = [d for d in self.f.defs().get(pl["l"], []) if not self.f.is_cleanup(d[0]) and not (d[1] is not None and d[2]["lhs"].get("p"))]
            if len(ds) != 1:
                return None
            b, si, node = ds[0]
            if si is None:
                from vlib.flow import transparent
                trn = transparent(node)
                pl = op_place(node["args"][trn[0]]) if trn is not None and node["args"] else None
            elif node["rv"]["r"] in ("ref", "raw"):
                pl = node["rv"]["pl"]
            elif node["rv"]["r"] in ("use", "cast"):
                pl = op_place(node["rv"]["a"][0])
            else:
                return None
        return None

    def handlers_field(self):
        """name of the state's field of type HashMap<u64, Box<dyn FnMut..>>"""
        adt = self.f.local_adt(self.state_local())
        a = self.F.adts.get(adt)
        if not a:
            return None
        for fl in a["variants"][0]["fields"]:
            if "HashMap<" in fl["t"] and "FnMut" in fl["t"]:
                return fl["n"]
        return None


def explore_run(ctx, cfg, F, f, RC17, RC07):
    """one exploration of run(); feeds both C17 and C07 rules.  RC17/RC07 are dicts rule-name -> RuleRec or None."""
    m = RunModel(F, f)
    ex = Explorer(f)
    tr = m.tr
    hf = m.handlers_field()
    problems = {}
    seen_facts = {"closed_wakeup_edge": False, "shutdown_edge": False, "invoke_paths": 0, "remove_paths": 0, "recv_paths": 0,
                  "insert_sites": 0, "stop_returns": 0}

    # state: (variant, eq, ctl, nrecv, ninvoke, nremove, cleared, stopping)
    init = (None, None, None, 0, 0, 0, False, None)

    def step(b, st, env):
        variant, eq, ctl, nrecv, ninvoke, nremove, cleared, stopping = st
        if b in m.select_blocks:
            if stopping:
                problems.setdefault(("STOP-EXIT", stopping, "select"), b)
                return None
            variant, eq, ctl, nrecv, ninvoke, nremove = None, None, None, 0, 0, 0
        if b in m.iter_blocks:
            # closing the books of the previous event
            _event_done(st, b)
            variant, eq, ctl, nrecv, ninvoke, nremove = None, None, None, 0, 0, 0
        t = f.term(b)
        if t["t"] == "call":
            name = strip_generics(callee_name(t))
            decl = strip_generics(t.get("callee") or "")
            if b in m.invoke_blocks:
                if stopping:
                    problems.setdefault(("STOP-EXIT", stopping, "handler invocation"), b)
                    return None
                ninvoke += 1
                # RT-KEY dispatch: handler looked up with the event id, called with the event message
                if RC07:
                    h_ok = any(r.kind == "call" and r.id in ("std::collections::HashMap::get_mut", "std::collections::HashMap::get") for r in tr.roots_of_operand(t["args"][0]))
                    key_ok = False
                    for r in tr.roots_of_operand(t["args"][0]):
                        if r.kind == "call" and r.block is not None and r.id.startswith("std::collections::HashMap::get"):
                            gt = f.term(r.block)
                            key_ok = m.is_event_id(gt["args"][1]) and m.is_self_field(gt["args"][0]) == hf
                    msg_ok = m.is_event_msg(t["args"][1])
                    if not (h_ok and key_ok and msg_ok):
                        problems.setdefault(("RT-KEY", "dispatch", "handler=%s key=%s msg=%s" % (h_ok, key_ok, msg_ok)), b)
                    if not (variant == "MessageReceived" and eq is False):
                        problems.setdefault(("RT-KEY", "dispatch-on-wrong-edge", "variant=%s wakeup-test=%s" % (variant, eq)), b)
            elif b in m.ctl_recv_blocks:
                nrecv += 1
                if not (variant == "MessageReceived" and eq is True):
                    problems.setdefault(("RT-ONE-MSG", "recv-on-wrong-edge", "variant=%s wakeup-test=%s" % (variant, eq)), b)
            elif name == "std::collections::HashMap::remove" and m.is_self_field(t["args"][0]) == hf:
                nremove += 1
                if RC07 and not m.is_event_id(t["args"][1]):
                    problems.setdefault(("RT-REMOVE", "key", "removal key is not the event's id"), b)
            elif name in EMPTIERS and m.is_self_field(t["args"][0]) == hf:
                cleared = True
            elif name == "crossbeam_channel::Sender::send" and "()" in " ".join(t.get("generics", [])) and ctl == "shutdown":
                # the acknowledgement
                if not cleared:
                    problems.setdefault(("STOP-DROP-FIRST", "ack-before-drop", ""), b)
            elif name in UNWRAPS:
                if stopping:
                    # stopping only lets go of things; the one thing it may insist on is the acknowledgement.  Acquiring something new here
                    # (a fresh receiver set, ...) and unwrapping it can panic the router before the ack, e.g. when descriptors are exhausted
                    rs = tr.roots_of_operand(t["args"][0])
                    if not rs or not all(r.kind == "call" and r.id == "crossbeam_channel::Sender::send" for r in rs):
                        src = sorted(r.id for r in rs if r.kind == "call")
                        problems.setdefault(("STOP-NOPANIC", "unwrap-while-stopping", (src[0] if src else "value").split("::")[-1]), b)
                # unwrap of a handler-table lookup needs the wake-up id excluded
                for r in tr.roots_of_operand(t["args"][0]):
                    if r.kind == "call" and r.id in ("std::collections::HashMap::remove", "std::collections::HashMap::get_mut", "std::collections::HashMap::get"):
                        lt = f.term(r.block)
                        if m.is_self_field(lt["args"][0]) == hf and eq is not False:
                            problems.setdefault(("STOP-NOPANIC", "%s.%s" % (r.id.split("::")[-1], name.split("::")[-1]), variant or "?"), b)
            elif name == "std::collections::HashMap::insert" and m.is_self_field(t["args"][0]) == hf:
                seen_facts["insert_sites"] += 1
                if RC07:
                    # key = add_opaque(receiver of this control message), value = handler of the same message
                    key_roots = tr.roots_of_operand(t["args"][1])
                    k_ok = False
                    rcv_src = None
                    for r in key_roots:
                        if r.kind == "call" and r.id in ("ipc::IpcReceiverSet::add_opaque", "ipc::IpcReceiverSet::add"):
                            at = f.term(r.block)
                            rr = tr.roots_of_operand(at["args"][1])
                            for x in rr:
                                if x.kind == "call" and x.id == "crossbeam_channel::Receiver::recv":
                                    k_ok = True
                                    rcv_src = (x.block, x.field_idx()[-1:])
                    v_ok = False
                    for r in tr.roots_of_operand(t["args"][2]):
                        if r.kind == "call" and r.id == "crossbeam_channel::Receiver::recv" and rcv_src and r.block == rcv_src[0] and r.field_idx()[-1:] != rcv_src[1]:
                            v_ok = True
                    if not (k_ok and v_ok and ctl == "add"):
                        problems.setdefault(("RT-KEY", "insert", "key-from-add=%s handler-from-same-message=%s ctl=%s" % (k_ok, v_ok, ctl)), b)
        elif t["t"] == "return":
            _event_done(st, b, at_return=True)
            if stopping:
                seen_facts["stop_returns"] += 1
        return (variant, eq, ctl, nrecv, ninvoke, nremove, cleared, stopping)

    def _event_done(st, b, at_return=False):
        variant, eq, ctl, nrecv, ninvoke, nremove, cleared, stopping = st
        if variant is None:
            return
        if variant == "MessageReceived" and eq is True:
            seen_facts["recv_paths"] += 1
            if nrecv != 1:
                problems.setdefault(("RT-ONE-MSG", "count", "%d control receives for one wake-up" % nrecv), b)
        if variant == "MessageReceived" and eq is False and not stopping:
            seen_facts["invoke_paths"] += 1
            if ninvoke != 1:
                problems.setdefault(("RT-KEY", "invoke-count", "%d handler invocations for one message" % ninvoke), b)
        if variant == "ChannelClosed" and eq is not True:
            seen_facts["remove_paths"] += 1
            if nremove != 1:
                problems.setdefault(("RT-REMOVE", "count", "%d removals for one closed event" % nremove), b)

    def edge(b, s, labs, st, env):
        variant, eq, ctl, nrecv, ninvoke, nremove, cleared, stopping = st
        for lab in labs:
            if lab["kind"] in ("variant", "variant_not") and lab.get("adt") == EVENT_ADT and lab.get("variant"):
                if "|" not in lab["variant"]:
                    variant = lab["variant"]
            elif lab["kind"] in ("variant", "variant_not") and lab.get("adt") == m.ctl_adt and lab.get("variant"):
                if "|" not in lab["variant"]:
                    ctl = m.ctl_roles.get(lab["variant"], "other")
                    if ctl == "shutdown":
                        seen_facts["shutdown_edge"] = True
                        stopping = "shutdown"
            elif lab["kind"] == "cmp" and lab["op"] in ("Eq", "Ne"):
                a, c = lab["a"], lab["b"]
                pair = None
                if m.is_event_id(a) and m.is_self_field(c):
                    pair = True
                elif m.is_event_id(c) and m.is_self_field(a):
                    pair = True
                if pair:
                    eq = lab["truth"] if lab["op"] == "Eq" else (not lab["truth"])
        if variant == "ChannelClosed" and eq is True and not stopping:
            seen_facts["closed_wakeup_edge"] = True
            stopping = "wakeup-closed"
        return (variant, eq, ctl, nrecv, ninvoke, nremove, cleared, stopping)

    states = ex.walk(0, init, step, edge=edge)
    return m, problems, seen_facts, states


def rules_run(ctx, cfg, F, want):
    """want: 'C17' or 'C07'"""
    runs = find_run(F)
    if want == "C17":
        R_exit = ctx.rule("STOP-EXIT", "from the Shutdown control message and from closure of the wake-up channel every feasible path reaches "
                          "return without another select and without invoking a handler")
        R_drop = ctx.rule("STOP-DROP-FIRST", "on the Shutdown path the handler table is emptied before the acknowledgement is sent")
        R_np = ctx.rule("STOP-NOPANIC", "a handler-table lookup is unwrapped only where the wake-up id has been excluded")
    else:
        R_one = ctx.rule("RT-ONE-MSG", "exactly one control-queue receive per wake-up message, none on any other event")
        R_key = ctx.rule("RT-KEY", "a route is inserted under the id add_opaque returned for the receiver of the same control message; a message "
                         "is dispatched exactly once to the handler looked up with the event's id, with the event's message")
        R_rem = ctx.rule("RT-REMOVE", "a closed event removes exactly the handler keyed by the event's id")
    if not runs:
        (R_exit if want == "C17" else R_one).violate("anchor-missing:router-run", "no function selects on a receiver set and invokes handlers", config=cfg)
        return
    for f in runs:
        m, problems, facts, states = explore_run(ctx, cfg, F, f, want == "C17", want == "C07")
        loc = lambda b: f.loc(b)
        if want == "C17":
            got = {k for k in problems if k[0] in ("STOP-EXIT", "STOP-DROP-FIRST", "STOP-NOPANIC")}
            if not facts["shutdown_edge"]:
                R_exit.violate("%s:no-shutdown-edge" % f.path, "no edge of %s distinguishes the Shutdown control message" % f.path, f.path, loc(0), config=cfg)
            if not facts["closed_wakeup_edge"]:
                R_exit.violate("%s:wakeup-closed-not-distinguished" % f.path,
                               "closure of the wake-up channel (proxy dropped) is not a distinguished case: the router never stops and treats it as a route closure",
                               f.path, loc(0), config=cfg)
            for k in sorted(got, key=repr):
                b = problems[k]
                if k[0] == "STOP-EXIT":
                    R_exit.violate("%s:%s->%s" % (f.path, k[1], k[2].replace(" ", "-")),
                                   "after %s the router reaches another %s instead of returning" % (k[1], k[2]), f.path, loc(b), config=cfg)
                elif k[0] == "STOP-DROP-FIRST":
                    R_drop.violate("%s:ack-before-handlers-dropped" % f.path, "the shutdown acknowledgement is sent while registered handlers are still alive", f.path, loc(b), config=cfg)
                elif k[1] == "unwrap-while-stopping":
                    R_np.violate("%s:%s:%s" % (f.path, k[1], k[2]), "while stopping, the router unwraps the result of %s: if that fails the router thread panics before acknowledging and shutdown() panics with it" % k[2],
                                 f.path, loc(b), config=cfg)
                else:
                    R_np.violate("%s:%s:%s" % (f.path, k[1], k[2]), "%s on the %s arm can be reached with the wake-up id, for which the table has no entry (panics the router thread)" % (k[1], k[2]),
                                 f.path, loc(b), config=cfg)
            if facts["shutdown_edge"] and not any(k[0] == "STOP-EXIT" and k[1] == "shutdown" for k in got):
                R_exit.ok("Shutdown: every path returns without select/handler (%d states)" % states, loc(0), cfg)
            if facts["closed_wakeup_edge"] and not any(k[0] == "STOP-EXIT" and k[1] == "wakeup-closed" for k in got):
                R_exit.ok("wake-up channel closed: every path returns without select/handler", loc(0), cfg)
            if facts["shutdown_edge"] and not any(k[0] == "STOP-DROP-FIRST" for k in got):
                R_drop.ok("handlers emptied before the acknowledgement", loc(0), cfg)
            if not any(k[0] == "STOP-NOPANIC" for k in got):
                R_np.ok("table lookups unwrapped only with the wake-up id excluded", loc(0), cfg)
            R_exit.count("run_fns[%s]" % cfg)
        else:
            for k in sorted((k for k in problems if k[0] in ("RT-ONE-MSG", "RT-KEY", "RT-REMOVE")), key=repr):
                b = problems[k]
                R = {"RT-ONE-MSG": R_one, "RT-KEY": R_key, "RT-REMOVE": R_rem}[k[0]]
                R.violate("%s:%s:%s" % (f.path, k[1], k[2]), "%s: %s %s" % (k[0], k[1], k[2]), f.path, loc(b), config=cfg)
            if not any(k[0] == "RT-ONE-MSG" for k in problems):
                R_one.ok("one control receive per wake-up (%d wake-up paths)" % facts["recv_paths"], loc(0), cfg)
            if not any(k[0] == "RT-KEY" for k in problems):
                R_key.ok("insert keyed by add_opaque of the same message; dispatch by event id (%d dispatch paths, %d insert sites)" % (facts["invoke_paths"], facts["insert_sites"]), loc(0), cfg)
            if not any(k[0] == "RT-REMOVE" for k in problems):
                R_rem.ok("closed event removes the handler of its id (%d paths)" % facts["remove_paths"], loc(0), cfg)
            R_one.count("wakeup_paths[%s]" % cfg, facts["recv_paths"])
            R_key.count("dispatch_paths[%s]" % cfg, facts["invoke_paths"])
            R_key.count("insert_sites[%s]" % cfg, facts["insert_sites"])
            R_rem.count("remove_paths[%s]" % cfg, facts["remove_paths"])


# --------------------------------------------------------------------------- proxy side

def _proxy_fns(F):
    return [f for f in F.fns.values() if f.path.startswith("router::")]


def is_ctl_send(t):
    return strip_generics(callee_name(t)) == "crossbeam_channel::Sender::send" and "RouterMsg" in " ".join(t.get("generics", []))


def is_wakeup_send(t):
    return strip_generics(callee_name(t)) == "ipc::IpcSender::send" and " ".join(t.get("generics", [])).strip() in ("()",)


def rule_rt_pair(ctx, cfg, F):
    R = ctx.rule("RT-PAIR", "every control message put on the router's queue is paired with exactly one wake-up on the ipc channel: the wake-up "
                 "post-dominates the control send in the same function, or the control send sits in a closure run by Result::map iff the wake-up succeeded")
    n_ctl = n_wake = 0
    paired_wakeups = set()
    for f in _proxy_fns(F):
        for b, t in f.calls():
            if is_ctl_send(t):
                n_ctl += 1
                wake = [b2 for b2, t2 in f.calls() if is_wakeup_send(t2)]
                if wake:
                    ok, wit = f.all_paths_pass(t["to"], wake) if t["to"] >= 0 else (False, None)
                    if not ok:
                        # wake-up first, control message after it on every normal path
                        ok = any(f.term(w)["to"] >= 0 and f.all_paths_pass(f.term(w)["to"], [b])[0] and f.dominates(w, b) for w in wake)
                    if ok:
                        R.ok("control send in %s is followed by a wake-up on every path" % f.path, f.loc(b), cfg)
                        for w in wake:
                            paired_wakeups.add((f.path, w))
                    else:
                        R.violate("%s:control-send-without-wakeup" % f.path, "a path from the control send returns without sending the wake-up: the route is never installed",
                                  f.path, f.loc(b), config=cfg)
                elif f.kind == "Closure":
                    # closure passed to a combinator in the parent: the wake-up must be the combinator's receiver
                    parent = F.fns.get(f.parent)
                    ok = False
                    if parent:
                        trp = Tracer(parent)
                        for pb, pt in parent.calls():
                            nm = strip_generics(callee_name(pt))
                            if nm in ("std::result::Result::map", "std::result::Result::and_then", "std::option::Option::map"):
                                uses = any(r.kind == "agg" and r.id == f.path for a in pt["args"][1:] for r in trp.roots_of_operand(a))
                                rr_ = trp.roots_of_operand(pt["args"][0])
                                # the value the closure is run on is the result of the wake-up send on EVERY way it can come about: an `Ok(())` made up on a
                                # branch that skipped the wake-up (because "one is pending anyway") queues a control message the router is never woken for
                                recv_is_wakeup = bool(rr_) and all(r.kind == "call" and r.id == "ipc::IpcSender::send" for r in rr_)
                                if uses and recv_is_wakeup:
                                    ok = True
                                    for r in trp.roots_of_operand(pt["args"][0]):
                                        if r.kind == "call":
                                            paired_wakeups.add((parent.path, r.block))
                    if ok:
                        R.ok("control send in %s runs iff the wake-up of %s succeeded" % (f.path, f.parent), f.loc(b), cfg)
                    else:
                        R.violate("%s:control-send-unpaired" % f.path, "control send in a closure that is not tied to a successful wake-up", f.path, f.loc(b), config=cfg)
                else:
                    R.violate("%s:control-send-without-wakeup" % f.path, "control send with no wake-up in the same function", f.path, f.loc(b), config=cfg)
    for f in _proxy_fns(F):
        for b, t in f.calls():
            if is_wakeup_send(t):
                n_wake += 1
                if (f.path, b) not in paired_wakeups:
                    R.violate("%s:wakeup-without-control-message" % f.path, "a wake-up is sent with no paired control message: the router blocks forever in recv()",
                              f.path, f.loc(b), config=cfg)
    R.count("control_sends[%s]" % cfg, n_ctl)
    R.count("wakeup_sends[%s]" % cfg, n_wake)


def rule_stop_flag(ctx, cfg, F):
    R = ctx.rule("STOP-FLAG", "in add_route the shutdown-flag test dominates the control send and its true edge returns without sending; in shutdown "
                 "the flag's true edge returns without waiting, and flag write, wake-up, control send and ack wait happen while the guard is held")
    n = 0
    for f in _proxy_fns(F):
        if f.kind == "Closure":
            continue
        sends = [b for b, t in f.calls() if is_ctl_send(t) or is_wakeup_send(t)]
        if not sends:
            continue
        # routing helpers that only delegate to add_route have no send of their own
        n += 1
        tr = Tracer(f)
        flag_switch, stopped_targets = None, []
        stopped = _stopped_value(F)
        for b in sorted(f.live_blocks()):
            t = f.term(b)
            if t["t"] != "switch":
                continue
            edges = _state_edges(F, f, tr, b)
            if edges is not None:
                flag_switch = b
                stopped_targets = [s_ for s_, v in edges if v is not None and stopped is not None and v == stopped[1]]
        if flag_switch is None:
            R.violate("%s:no-flag-test" % f.path, "%s sends to the router without testing the shutdown flag" % f.path, f.path, f.loc(0), config=cfg)
            continue
        if not all(f.dominates(flag_switch, s) for s in sends):
            R.violate("%s:flag-test-does-not-dominate-send" % f.path, "a send to the router is reachable without passing the shutdown-flag test", f.path, f.loc(flag_switch), config=cfg)
            continue
        # stopped edge: no send reachable
        if not stopped_targets:
            R.violate("%s:no-flag-test" % f.path, "%s tests the proxy state but no edge stands for `already shut down` (%s)" % (f.path, stopped), f.path, f.loc(flag_switch), config=cfg)
            continue
        from vlib.flow import feasible_reach_without
        # (feasible paths only: a helper that answers the test with `None` / `Some(guard)` is followed by the caller's match on that answer)
        if any(s in f.reachable(tt) for tt in stopped_targets for s in sends) and any(feasible_reach_without(f, sends, [], start=tt) for tt in stopped_targets):
            R.violate("%s:flag-set-still-sends" % f.path, "with the shutdown flag set %s still sends to the router" % f.path, f.path, f.loc(flag_switch), config=cfg)
            continue
        # guard held: the MutexGuard local is dropped only after the last send
        guard_drops = [b for b in f.live_blocks() if f.term(b)["t"] == "drop" and "MutexGuard" in f.term(b)["ty"] and not f.is_cleanup(b)]
        bad = [g for g in guard_drops if any(s in f.reachable(g) for s in sends) and feasible_reach_without(f, sends, [], start=g)]
        # several locks (the state in a mutex of its own beside the one around the channel ends): one guard taken before the test and kept across the sends is what makes
        # test-and-send atomic; a guard that only lived for the test itself does not matter then
        by_guard = {}
        for g in guard_drops:
            by_guard.setdefault(f.term(g)["pl"]["l"] if isinstance(f.term(g).get("pl"), dict) else f.term(g).get("l"), []).append(g)
        def held_across(targets):
            return [gl for gl, drops in by_guard.items() if gl is not None and not any(s in f.reachable(d) for d in drops for s in targets)
                    and any(f.dominates(d0[0], flag_switch) for d0 in f.defs().get(gl, []) if not f.is_cleanup(d0[0]))]
        if bad and held_across(sends):
            bad = []
        if bad:
            R.violate("%s:guard-released-before-send" % f.path, "the proxy mutex guard is released before the sends complete", f.path, f.loc(bad[0]), config=cfg)
            continue
        # the function that sets the flag also waits for the acknowledgement: that wait must happen under the guard too,
        # otherwise a concurrent second shutdown() sees the flag and returns while the router is still running
        sets_flag = (any(_stores_state(F, f, st) == stopped for b in f.live_blocks() for st in f.stmts(b)) or
                     any(_call_stores_state(F, f, f.term(b)) == stopped for b in f.live_blocks())) if stopped is not None else False
        if sets_flag:
            # whoever asks for the stop records it: no way out of this function leaves the proxy "running" (a shutdown that returns early without
            # writing the state is lost, and a route offered afterwards is served)
            stores = [b for b in f.live_blocks() if any(_stores_state(F, f, st) == stopped for st in f.stmts(b)) or _call_stores_state(F, f, f.term(b)) == stopped]
            if not f.all_paths_pass(0, set(stores) | set(stopped_targets))[0]:
                R.violate("%s:returns-without-recording-stop" % f.path, "%s can return without having written the stopped state and without having found it already written" % f.path, f.path, f.loc(flag_switch), config=cfg)
                continue
            waits = [b for b, t in f.calls() if strip_generics(callee_name(t)) == "crossbeam_channel::Receiver::recv" and "()" in " ".join(t.get("generics", []))]
            closure_skips = []
            # closure form: Result::map(wakeup result, closure that sends and waits)
            for b, t in f.calls():
                if strip_generics(callee_name(t)) in ("std::result::Result::map", "std::result::Result::and_then"):
                    trp = Tracer(f)
                    for a in t["args"][1:]:
                        for r in trp.roots_of_operand(a):
                            g = F.fns.get(r.id) if r.kind == "agg" else None
                            if g is not None and any(strip_generics(callee_name(t2)) == "crossbeam_channel::Receiver::recv" for _, t2 in g.calls()):
                                waits.append(b)
                                gw = [b2 for b2, t2 in g.calls() if strip_generics(callee_name(t2)) == "crossbeam_channel::Receiver::recv"]
                                if not g.all_paths_pass(0, set(gw))[0]:
                                    closure_skips.append((g, gw[0]))
            if not waits:
                R.violate("%s:no-ack-wait" % f.path, "%s sets the shutdown flag but never waits for the router's acknowledgement" % f.path, f.path, f.loc(flag_switch), config=cfg)
                continue
            # ... and on every way out: a caller for which the wait is skipped (a per-thread "I am the router" flag, a timeout) gets shutdown() back while the
            # router may still be running callbacks -- the flag cannot tell this router's thread from another router's
            skipped = [sb for sb in stores if not f.all_paths_pass(sb, set(waits) | set(stopped_targets))[0]]
            if closure_skips and not skipped:
                skipped = [stores[0]] if stores else [flag_switch]
            if skipped:
                R.violate("%s:ack-wait-skipped" % f.path, "%s records the stop and can then return without waiting for the router's acknowledgement on some path: when it returns the router "
                          "may still be invoking callbacks" % f.path, f.path, f.loc(skipped[0]), config=cfg)
                continue
            late = [g_ for g_ in guard_drops if any(w in f.reachable(g_) for w in waits) and feasible_reach_without(f, waits, [], start=g_)]
            if late and held_across(waits):
                late = []
            if late:
                R.violate("%s:ack-wait-outside-guard" % f.path, "the proxy mutex is released before the acknowledgement is awaited: a second shutdown() racing with the first sees the flag set "
                          "and returns while the router thread is still running", f.path, f.loc(late[0]), config=cfg)
                continue
        # what the caller handed in (a receiver, a callback with whatever it owns) is not destroyed while the proxy's lock is held: its destructor is user code and may
        # come back to this proxy (a callback that owns a handle which shuts the router down or registers a route when dropped)
        user_drops = [b for b in f.live_blocks() if f.term(b)["t"] == "drop" and not f.is_cleanup(b) and
                      "MutexGuard" not in f.term(b)["ty"] and f.term(b)["ty"].startswith(("std::boxed::Box<dyn", "ipc::OpaqueIpcReceiver", "router::RouterMsg", "ipc::IpcReceiver"))]
        under = [ub for ub in user_drops if any(ub in f.reachable(0, avoid=[g]) and g in f.reachable(ub) for g in guard_drops)]
        # (a drop of the not-yet-moved parameter on the unwind-free path after the guard is gone is what the reference does)
        if under:
            R.violate("%s:user-value-dropped-under-lock" % f.path, "%s can drop a value handed in by the caller (%s) while it still holds the proxy mutex: a destructor that calls back into the proxy "
                      "(shutdown, add_route) blocks on that mutex for ever, and with it every later user of the proxy" % (f.path, f.term(under[0])["ty"][:60]), f.path, f.loc(under[0]), config=cfg)
            continue
        R.ok("%s: flag test dominates %d sends; flag-set edge sends nothing; guard held across the sends%s" % (f.path, len(sends), " and the acknowledgement wait" if sets_flag else ""), f.loc(flag_switch), cfg)
    R.count("proxy_senders[%s]" % cfg, n)


LOCKS = ("std::sync::Mutex::lock", "std::sync::poison::mutex::Mutex::lock", "std::sync::RwLock::write", "std::sync::RwLock::read")


def rule_lock_order(ctx, cfg, F, prefix="router::"):
    R = ctx.rule("LOCK-ORDER", "locks are taken in one order: whenever a function takes mutex B while it still holds the guard of mutex A, no function takes A while holding B's guard "
                 "(two threads in the two functions would each wait for the other's lock -- shutdown against add_route)")
    edges = {}
    n_locks = 0
    for f in sorted(F.fns.values(), key=lambda x: x.path):
        if not f.path.startswith(prefix):
            continue
        tr = None
        locks = []
        for b, t in f.calls():
            if strip_generics(callee_name(t)) in LOCKS and t["args"]:
                tr = tr or Tracer(f)
                rs = tr.roots_of_operand(t["args"][0])
                if len(rs) != 1:
                    continue
                r = next(iter(rs))
                key = "%s:%s%s" % (r.kind, (f.local_ty(r.id).lstrip("&") if r.kind == "param" else r.id), "".join("." + n_ for n_ in r.field_names()))
                # the guard: the local the lock result ends up in (through unwrap / expect / ?)
                g = t["dest"]["l"]
                for _ in range(4):
                    nxt = [b2 for b2, t2 in f.calls() if t2["args"] and op_local(t2["args"][0]) == g and strip_generics(callee_name(t2)) in
                           ("std::result::Result::unwrap", "std::result::Result::expect", "std::result::Result::unwrap_or_else")]
                    if not nxt:
                        break
                    g = f.term(nxt[0])["dest"]["l"]
                drops = [d for d in f.live_blocks() if f.term(d)["t"] == "drop" and not f.is_cleanup(d) and f.term(d)["pl"]["l"] == g]
                locks.append((b, t, key, drops))
        n_locks += len(locks)
        for b, t, key, drops in locks:
            under = f.reachable(t["to"], avoid=drops) - set(drops)
            for b2, t2, key2, _ in locks:
                if b2 != b and b2 in under and key2 != key:
                    edges.setdefault((key, key2), (f.path, f.loc(b2)))
    bad = False
    for (a, b_), (fn, loc) in sorted(edges.items()):
        if (b_, a) in edges and a < b_:
            bad = True
            fn2, loc2 = edges[(b_, a)]
            R.violate("lock-order-inverted:%s<->%s" % (a.split(":")[-1], b_.split(":")[-1]),
                      "%s takes %s while holding %s (%s), and %s takes them the other way round (%s): two threads, one in each function, deadlock" % (fn, b_, a, loc, fn2, loc2), fn, loc, config=cfg)
    if not bad:
        R.ok("%d lock sites, %d nested acquisitions, no two in opposite order" % (n_locks, len(edges)), None, cfg)
    R.count("lock_sites[%s]" % cfg, n_locks)


def rule_stop_nodrop(ctx, cfg, F):
    R = ctx.rule("STOP-NODROP", "no Drop impl of a router type stops the router or waits for it: the last proxy handle may be dropped by a callback on the router thread itself, "
                 "where a blocking stop handshake can never be answered")
    n = 0
    for f in sorted(F.fns.values(), key=lambda x: x.path):
        if f.impl_trait != "std::ops::Drop" or "router::" not in (f.impl_self or ""):
            continue
        n += 1
        seen, work, bad = set(), [f], None
        while work and bad is None:
            g = work.pop()
            if g.path in seen:
                continue
            seen.add(g.path)
            for b, t in g.calls():
                nm = strip_generics(callee_name(t))
                if nm == "crossbeam_channel::Receiver::recv" or nm.endswith("::RouterProxy::shutdown"):
                    bad = (g, b, nm)
                    break
                h = F.fns.get(t.get("resolved") or t.get("callee")) or getattr(F, "all_fns", {}).get(t.get("resolved") or t.get("callee"))
                if h is not None and h.path.startswith("router::"):
                    work.append(h)
        if bad:
            R.violate("%s:drop-stops-router" % strip_generics(f.path), "Drop of %s reaches %s: dropped on the router thread (by a callback that owned the last handle) it waits for an answer only that thread could give" % (f.impl_self, bad[2].split("::")[-1]),
                      f.path, f.loc(0), config=cfg)
        else:
            R.ok("Drop of %s neither stops the router nor waits for it" % f.impl_self, f.loc(0), cfg)
    if n == 0:
        R.ok("no router type has a Drop impl", None, cfg)
    R.count("router_drops[%s]" % cfg, n)


def _is_state_type(F, ty):
    """the proxy's stopped-or-not state: a bool, or a private enum without payloads (Running / ShutDown)"""
    if ty == "bool":
        return True
    a = F.adts.get(ty)
    return bool(a) and ty.startswith("router::") and len(a["variants"]) >= 2 and all(not v["fields"] for v in a["variants"])


def _stores_state(F, f, st):
    """(type, value) when the statement writes the state field behind the lock: `comm.shutdown = true`, `comm.state = ProxyState::ShutDown`"""
    if st["s"] != "assign" or not st["lhs"].get("p"):
        return None
    ty = _place_type(f, st["lhs"])
    if not _is_state_type(F, ty):
        return None
    rv = st["rv"]
    if ty == "bool":
        return (ty, op_const(rv["a"][0])) if rv["r"] == "use" and op_const(rv["a"][0]) is not None else None
    if rv["r"] == "agg" and rv["kind"].get("adt") == ty:
        return (ty, rv["kind"]["variant"])
    if rv["r"] == "use" and rv["a"][0].get("pvariant"):
        return (ty, rv["a"][0]["pvariant"])
    if rv["r"] == "use" and op_local(rv["a"][0]) is not None:
        # `comm.state = move _tmp` with `_tmp = ProxyState::ShutDown`
        ds = [d for d in f.defs().get(op_local(rv["a"][0]), []) if d[1] is not None and not f.is_cleanup(d[0])]
        if len(ds) == 1 and ds[0][2]["rv"]["r"] == "agg" and ds[0][2]["rv"]["kind"].get("adt") == ty:
            return (ty, ds[0][2]["rv"]["kind"]["variant"])
    return None


def _call_stores_state(F, f, t):
    """`mem::replace(&mut comm.shutdown, true)`: a store of the state through a call"""
    if t["t"] == "call" and strip_generics(callee_name(t)) == "std::mem::replace" and len(t["args"]) == 2 and "bool" in " ".join(t.get("generics", [])):
        c = op_const(t["args"][1])
        if c is not None:
            return ("bool", c)
    return None


def _stopped_value(F):
    """the value the stopping entry point writes: the only state store in the proxy's functions that is not the initial value"""
    vals = set()
    for g in _proxy_fns(F):
        for b in g.live_blocks():
            for st in g.stmts(b):
                v = _stores_state(F, g, st)
                if v is not None and v[1] not in (0, False):
                    vals.add(v)
            v = _call_stores_state(F, g, g.term(b))
            if v is not None and v[1] not in (0, False):
                vals.add(v)
    return next(iter(vals)) if len(vals) == 1 else None


def _state_edges(F, f, tr, b):
    """for a switch on the state field read through the lock guard: [(successor, state value the edge implies or None)]; None when the switch is on something else"""
    out, hit = [], False
    for s in f.succ(b):
        val = None
        for lab in edge_label(f, b, s):
            if lab["kind"] == "not" and op_local(lab["of"]) is not None:
                # `if !comm.shutdown { .. }`: the switch is on the negation of a copy of the state
                ds_ = [d for d in f.defs().get(op_local(lab["of"]), []) if not f.is_cleanup(d[0])]
                if len(ds_) == 1 and ds_[0][1] is not None and ds_[0][2]["rv"]["r"] == "use" and op_place(ds_[0][2]["rv"]["a"][0]) is not None:
                    pl_ = ds_[0][2]["rv"]["a"][0]["pl"]
                    if _is_state_type(F, _place_type(f, pl_)) and any(r.kind == "param" and r.id == 1 for r in tr.roots(pl_["l"])):
                        hit = True
                        val = 0 if lab["truth"] else 1
                continue
            if lab["kind"] == "callbool" and strip_generics(lab["callee"]) in ("std::mem::replace", "std::mem::take") and lab["args"]:
                # `if mem::replace(&mut comm.shutdown, true) { return }`: the old value is what is tested (and the new one is stored, see _call_stores_state)
                rp_ = ref_place(f, lab["args"][0])
                if rp_ is not None and any(r.kind == "param" and r.id == 1 for r in tr.roots(rp_[0])) and "bool" in " ".join(f.term(lab["def_block"]).get("generics", []) or ["bool"]):
                    hit = True
                    val = 1 if lab["truth"] else 0
                continue
            if lab["kind"] not in ("val", "val_not", "variant", "variant_not") or "place" not in lab:
                continue
            ty = _place_type(f, lab["place"]) if lab["kind"] in ("val", "val_not") else (lab.get("adt") or "")
            if not _is_state_type(F, ty) or not any(r.kind == "param" and r.id == 1 for r in tr.roots(lab["place"]["l"])):
                continue
            hit = True
            if lab["kind"] == "val":
                val = lab["value"]
            elif lab["kind"] == "val_not":
                val = 1 if list(lab.get("not", [])) == [0] else (0 if list(lab.get("not", [])) == [1] else None)
            else:
                val = lab.get("variant") if lab.get("variant") and "|" not in lab["variant"] else None
        out.append((s, val))
    return out if hit else None


def _place_type(f, pl):
    projs = [e for e in pl.get("p", []) if isinstance(e, dict) and "f" in e]
    if projs:
        return projs[-1].get("t", "")
    ty = f.local_ty(pl["l"])
    for e in pl.get("p", []):
        if e == "*":
            # `*guard` with the state kept in a mutex of its own (`Mutex<bool>`): the pointee
            ty = ty[len("&mut "):] if ty.startswith("&mut ") else (ty[1:] if ty.startswith("&") else ty)
    return ty


def rule_forward_closure(ctx, cfg, F):
    R = ctx.rule("RT-FORWARD", "each crossbeam-forwarding closure performs exactly one crossbeam send per invocation, of the decoded event message")
    n = 0
    for f in F.fns.values():
        if f.kind == "Closure" and f.path.startswith("router::") and "route_ipc_receiver" in f.path:
            sends = [b for b, t in f.calls() if strip_generics(callee_name(t)) == "crossbeam_channel::Sender::send"]
            n += 1
            ok = len(sends) == 1 and f.all_paths_pass(0, sends)[0]
            if ok:
                R.ok("%s: one crossbeam send on every normal path" % f.path, f.loc(sends[0]), cfg)
            else:
                R.violate("%s:forward-count" % f.path, "forwarding closure does not send exactly once per message (%d send sites)" % len(sends), f.path, f.loc(0), config=cfg)
            # the closure runs on the router thread: a consumer that dropped its crossbeam receiver must not take every other route down with a panic
            trf = Tracer(f)
            for b2, t2 in f.calls():
                if strip_generics(callee_name(t2)) in ("std::result::Result::unwrap", "std::result::Result::expect", "std::result::Result::unwrap_err", "std::result::Result::expect_err") and t2["args"]:
                    if any(r.kind == "call" and r.block in sends for r in trf.roots_of_operand(t2["args"][0])):
                        R.violate("%s:forward-send-unwrapped" % f.path, "the result of the crossbeam send is unwrapped on the router thread: a consumer that went away panics the router and every other route dies with it",
                                  f.path, f.loc(b2), config=cfg)
    R.count("forward_closures[%s]" % cfg, n)
    # the forwarding closure runs on the single router thread: the queue it forwards into must never make it wait
    for f in sorted(F.fns.values(), key=lambda x: x.path):
        if not f.path.startswith("router::"):
            continue
        bounded = [(b, t) for b, t in f.calls() if strip_generics(callee_name(t)) in ("crossbeam_channel::bounded", "std::sync::mpsc::sync_channel", "crossbeam_channel::channel::bounded")]
        if not bounded:
            continue
        tr = Tracer(f)
        for b, t in f.calls():
            nm = strip_generics(callee_name(t))
            if nm.startswith("router::") and any(r.kind == "call" and any(r.block == bb for bb, _ in bounded) for a in t["args"] for r in tr.roots_of_operand(a)):
                R.violate("%s:forwarding-queue-bounded" % strip_generics(f.path), "%s hands the sender of a BOUNDED queue to %s: once the consumer lags, the forwarding closure blocks the router thread "
                          "and every other route stops receiving" % (f.path, nm), f.path, f.loc(b), config=cfg)


REORDER = ("sort", "sort_by", "sort_by_key", "sort_unstable", "sort_unstable_by", "sort_unstable_by_key", "sort_by_cached_key", "reverse", "swap", "rotate_left", "rotate_right",
           "swap_remove", "dedup", "dedup_by", "dedup_by_key", "retain", "retain_mut", "rev", "select_nth_unstable", "select_nth_unstable_by_key", "partition", "shuffle", "insert", "truncate", "split_off")


STABLE_KEYED = ("sort_by_key", "sort_by_cached_key")


def _key_ignores_payload(F, f, clo):
    """the key closure of a stable sort over the event batch: True when its body reads nothing of an event but its discriminant and field 0 (the member id)
    and passes the event to no function that stays out of line"""
    l = op_local(clo)
    g = None
    for _ in range(6):
        if l is None:
            return False
        ds = [d for d in f.defs().get(l, []) if not f.is_cleanup(d[0]) and d[1] is not None]
        if len(ds) != 1:
            return False
        rv = ds[0][2]["rv"]
        if rv["r"] == "agg" and "closure" in rv["kind"]:
            g = F.fns.get(rv["kind"]["closure"])
            break
        if rv["r"] in ("use", "cast") and op_local(rv["a"][0]) is not None:
            l = op_local(rv["a"][0])
            continue
        return False
    if g is None or g.argc < 2:
        return False
    for b in g.live_blocks():
        for st in g.stmts(b):
            if st["s"] != "assign":
                continue
            rv = st["rv"]
            pls = [a["pl"] for a in rv.get("a", []) if a.get("k") in ("cp", "mv")] + ([rv["pl"]] if "pl" in rv else [])
            for pl in pls:
                pr = pl.get("p") or []
                for i, e in enumerate(pr):
                    if isinstance(e, dict) and "v" in e:
                        nxt = pr[i + 1] if i + 1 < len(pr) else None
                        if not (isinstance(nxt, dict) and nxt.get("f") == 0 and nxt.get("t") in ("u64", "usize")):
                            return False
        t = g.term(b)
        if t["t"] == "call":
            return False          # something else sees the event (or decides the key): not judged here
    return True


_ITER_STEPS = ("collect", "map", "into_iter", "iter", "iter_mut", "drain", "filter_map", "flat_map", "flatten", "chain", "cloned", "copied", "enumerate", "zip", "by_ref", "peekable",
               "from_iter", "extend", "to_vec", "into_boxed_slice", "into_vec", "as_mut_slice", "as_slice", "deref", "deref_mut", "branch", "unwrap", "expect")


def _derives_from(f, tr, operand, sel_blocks, depth=0):
    """the operand is what select() returned after any number of element-wise iterator steps (`select()?.into_iter().map(wrap).collect()`): the batch in another container"""
    if depth > 8:
        return False
    for r in tr.roots_of_operand(operand):
        if r.kind != "call" or r.block is None:
            continue
        if r.block in sel_blocks:
            return True
        t = f.term(r.block)
        if strip_generics(callee_name(t)).split("::")[-1] in _ITER_STEPS and t["args"] and _derives_from(f, tr, t["args"][0], sel_blocks, depth + 1):
            return True
    return False


def rule_batch_order(ctx, cfg, F, rule_name="RT-ORDER", only_prefix=None):
    R = ctx.rule(rule_name, "the batch of events returned by select() is consumed in the order returned: no sorting, reversing, swapping, filtering or partial consumption API is applied to it "
                 "between select() and the dispatch loop (per-channel message order is the order of the batch)")
    n = 0
    for f in sorted(F.fns.values(), key=lambda x: x.path):
        sels = [(b, t) for b, t in f.calls() if strip_generics(callee_name(t)).endswith("ReceiverSet::select") and not f.path.startswith("platform::")]
        if not sels:
            continue
        if only_prefix and only_prefix not in f.path:
            continue
        tr = Tracer(f)
        sel_blocks = {b for b, t in sels}
        for b, t in f.calls():
            nm = strip_generics(callee_name(t))
            short = nm.split("::")[-1]
            if short in REORDER and t["args"]:
                roots = tr.roots_of_operand(t["args"][0])
                if any(r.kind == "call" and r.block in sel_blocks for r in roots) or _derives_from(f, tr, t["args"][0], sel_blocks):
                    if short in STABLE_KEYED and len(t["args"]) > 1 and _key_ignores_payload(F, f, t["args"][1]):
                        # a stable sort whose key reads nothing of an event but which member it belongs to and whether it is the closure: events of one
                        # member keep their relative order (and the closure, reported last by the set, stays last)
                        R.ok("%s sorts the batch by member (stable, key independent of the payload)" % f.path, f.loc(b), cfg)
                        continue
                    R.violate("%s:batch-reordered:%s" % (strip_generics(f.path), short), "%s applies %s to the batch returned by select(): events of one channel can be handled out of order (or a closure before its last message)" % (f.path, nm),
                              f.path, f.loc(b), config=cfg)
                    n += 1
        R.count("select_consumers[%s]" % cfg)
        if not any(fi.rule == rule_name and fi.fn == f.path for fi in ctx.findings):
            R.ok("%s consumes the select() batch in order" % f.path, f.loc(sels[0][0]), cfg)
