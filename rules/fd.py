"""C11 (and the descriptor clauses of C03, C08, C16): raw-descriptor typestate.

FD-PATH, FD-DROP, FD-MOVE, FD-CLOSE-OWNED, CLOEXEC, NO-FORGET.
All facts are derived from the MIR of platform::unix; the only tables are libc's own
API classes (which calls create / release a descriptor) and the confirmed floor counts.
"""
from vlib.flow import Explorer, Expr, Tracer, Root, edge_label, expr_str
from vlib.mir import callee_is, callee_name, op_const, op_local, op_place, place_str, strip_generics

UNIX = "platform::unix"

# libc calls that create a descriptor as their return value
FOREIGN_SOURCES = {
    "libc::socket", "libc::accept", "libc::accept4", "libc::dup", "libc::dup2", "libc::dup3",
    "libc::shm_open", "libc::open", "libc::open64", "libc::openat", "libc::creat",
    "libc::epoll_create", "libc::epoll_create1", "libc::eventfd", "libc::timerfd_create",
    "libc::signalfd", "libc::inotify_init", "libc::inotify_init1", "libc::memfd_create",
    "libc::mkstemp", "libc::kqueue", "libc::pidfd_open", "libc::userfaultfd",
}
# libc calls that write descriptors into an out-array (argument index of the array)
FOREIGN_OUT_SOURCES = {"libc::socketpair": 3, "libc::pipe": 0, "libc::pipe2": 0}
FOREIGN_SINKS = {"libc::close"}
# raw syscalls that create a descriptor, by number (x86_64 / aarch64 memfd_create)
SYSCALL_SOURCES = {319, 279}

INT_TYPES = ("i32", "std::os::fd::RawFd", "libc::c_int")
CONTAINER_CALLS = ("std::cell::Cell::new",
                   # wrappers a tracked value passes through unchanged (a helper returning Result<fd, E> / Option<fd>, `?` at the call site)
                   "std::ops::Try::branch", "std::result::Result::unwrap", "std::result::Result::expect", "std::option::Option::unwrap", "std::option::Option::expect",
                   "std::result::Result::map_err", "std::result::Result::ok", "std::option::Option::ok_or", "std::option::Option::ok_or_else",
                   "std::result::Result::unwrap_or", "std::option::Option::unwrap_or",
                   # pointer re-typing
                   "std::ptr::mut_ptr::cast", "std::ptr::const_ptr::cast", "std::ptr::mut_ptr::cast_const", "std::ptr::const_ptr::cast_mut",
                   "std::ptr::NonNull::new", "std::ptr::NonNull::new_unchecked", "std::ptr::NonNull::as_ptr", "std::ptr::NonNull::cast")

# ---- resource domain: the same typestate machinery decides descriptors (default) and heap/mapping pointers
_FD_DOMAIN = dict(FOREIGN_SOURCES=FOREIGN_SOURCES, FOREIGN_OUT_SOURCES=FOREIGN_OUT_SOURCES, FOREIGN_SINKS=FOREIGN_SINKS,
                  INT_TYPES=INT_TYPES, FIELD_TYPES=("i32", "std::cell::Cell<i32>"), KIND="fd")
_MEM_DOMAIN = dict(FOREIGN_SOURCES={"libc::malloc", "libc::calloc", "libc::realloc", "libc::mmap"}, FOREIGN_OUT_SOURCES={},
                   FOREIGN_SINKS={"libc::free", "libc::munmap"},
                   INT_TYPES=("*mut libc::c_void", "*mut u8", "*mut platform::unix::cmsghdr", "*const u8", "*mut i8"),
                   FIELD_TYPES=("*mut u8", "*mut platform::unix::cmsghdr", "*mut libc::c_void"), KIND="mem")


class domain:
    """context manager switching the resource domain of this module"""
    def __init__(self, which):
        self.which = _MEM_DOMAIN if which == "mem" else _FD_DOMAIN

    def __enter__(self):
        g = globals()
        self.saved = {k: g[k] for k in ("FOREIGN_SOURCES", "FOREIGN_OUT_SOURCES", "FOREIGN_SINKS", "INT_TYPES", "FIELD_TYPES", "KIND")}
        g.update(self.which)

    def __exit__(self, *a):
        globals().update(self.saved)


FIELD_TYPES = ("i32", "std::cell::Cell<i32>")
KIND = "fd"


def is_unix_fn(f):
    return f.path.startswith(UNIX + "::") or ("<" + UNIX + "::") in f.path or f.path.startswith("<" + UNIX)


def unix_fns(F):
    return [f for f in F.fns.values() if UNIX in f.path]


# --------------------------------------------------------------------------- owning fields

def fd_field_candidates(F):
    """(adt, field index, field name) of crate ADTs under platform::unix with an integer-typed
    (or Cell<integer>) field"""
    out = []
    for path, a in F.adts.items():
        if not path.startswith(UNIX + "::"):
            continue
        for v in a["variants"]:
            for i, fl in enumerate(v["fields"]):
                if fl["t"] in FIELD_TYPES:
                    out.append((path, i, fl["n"]))
    return out


def drop_closed_fields(F):
    """fields that the type's own Drop passes to libc::close: {(adt, fieldname): drop fn}"""
    out = {}
    for path, a in F.adts.items():
        d = F.drop_fn(path)
        if not d:
            continue
        tr = Tracer(d)
        for b, t in d.calls_to(*FOREIGN_SINKS):
            for r in tr.roots_of_operand(t["args"][0]):
                if r.kind == "param" and r.id == 1 and r.field_names():
                    out[(path, r.field_names()[0])] = d
    return out


def sentinel_moved_fields(F):
    """fields read through mem::replace/mem::take/Cell::replace with a negative constant:
    {(adt, fieldname)} -- a stated belief that the field owns something that can be moved out"""
    out = set()
    if KIND != "fd":
        return out
    for f in unix_fns(F):
        tr = Tracer(f)
        for b, t in f.calls_to("std::mem::replace", "std::cell::Cell::replace"):
            c = op_const(t["args"][1]) if len(t["args"]) > 1 else None
            if c is None or c >= 0:
                continue
            for r in tr.roots_of_operand(t["args"][0]):
                if r.kind == "param" and r.field_names():
                    adt = f.local_adt(r.id)
                    out.add((adt, r.field_names()[0]))
    return out


def owning_fields(F):
    """owning descriptor fields: closed by Drop, or moved out with a sentinel"""
    own = {}
    for k, d in drop_closed_fields(F).items():
        own[k] = {"drop": d.path, "why": "closed by Drop"}
    for k in sentinel_moved_fields(F):
        own.setdefault(k, {"drop": None, "why": "moved out with a sentinel"})
    # only integer-typed (or Cell<int>) fields are descriptor fields
    cands = {(a, n) for a, i, n in fd_field_candidates(F)}
    direct = {k: v for k, v in own.items() if k in cands}
    # containers: Drop closes something reached through a collection field (the receiver set)
    containers = {k: v for k, v in own.items() if k not in cands}
    return direct, containers


def field_index(F, adt, name):
    a = F.adts.get(adt)
    if not a:
        return None
    for v in a["variants"]:
        for i, fl in enumerate(v["fields"]):
            if fl["n"] == name:
                return i
    return None


# --------------------------------------------------------------------------- typestate engine

class FdEngine:
    def __init__(self, F, own_direct, own_containers, summaries):
        self.F = F
        self.own = own_direct
        self.containers = own_containers
        self.sum = summaries          # fn path -> {param index: 'consume'|'borrow'|'partial'}
        self.own_idx = {}
        for (adt, name) in own_direct:
            self.own_idx.setdefault(adt, set()).add(field_index(F, adt, name))

    extra_sinks = ()

    def sink_kind(self, f, t, aliases, tracer):
        """is this call terminator a release of one of the aliases?  returns description or None"""
        args = t["args"]
        hit = [i for i, a in enumerate(args) if op_place(a) is not None and a["pl"]["l"] in aliases]
        if not hit:
            return None
        xs = self.extra_sinks or (LIST_SINKS if KIND == "fd" else ())
        if xs and (strip_generics(t.get("callee") or "") in xs or strip_generics(callee_name(t)) in xs):
            if any(args[i].get("k") == "mv" and not args[i]["pl"].get("p") and not f.local_ty(args[i]["pl"]["l"]).startswith("&") for i in hit):
                return "%s (consumes the list by value)" % strip_generics(t.get("callee") or callee_name(t))
        if callee_is(t, *FOREIGN_SINKS):
            return strip_generics(callee_name(t))
        name = strip_generics(callee_name(t))
        s = self.sum.get(name)
        if s:
            for i in hit:
                if s.get(i + 1) in ("consume", "partial"):
                    return "%s (takes ownership of argument %d)" % (name, i)
        if name == "std::vec::Vec::push" and KIND == "fd" and len(args) > 1 and op_place(args[1]) is not None and args[1]["pl"]["l"] in aliases:
            # pushed into a plain local list of raw descriptors: not a release, the list now holds it (handled by the caller: see `holder`)
            for r in tracer.roots_of_operand(args[0]):
                if r.kind == "call" and r.block is not None and "Vec<i32>" in f.local_ty(f.term(r.block)["dest"]["l"]):
                    return ("HOLD", f.term(r.block)["dest"]["l"])
        if name in ("std::collections::HashMap::insert", "std::vec::Vec::push"):
            # insertion into an owning container field of self
            for r in tracer.roots_of_operand(args[0]):
                if r.kind == "param" and r.field_names():
                    adt = f.local_adt(r.id)
                    if (adt, r.field_names()[0]) in self.containers:
                        return "%s into %s.%s" % (name.split("::")[-1], adt, r.field_names()[0])
        return None

    def run(self, f, start, aliases0, status_locals=(), source_site=None, alias_read=None, start_stmt=0):
        """explore from block `start`; returns dict(leaks=[path], doubles=[(block, what)],
        returned=bool, sinks=set(desc))"""
        ex = Explorer(f)
        tracer = Tracer(f)
        res = {"leaks": [], "doubles": [], "returned": False, "sinks": set(), "states": 0, "reloop": []}
        status_locals = set(status_locals)

        def step(b, st, env):
            aliases, status, first = st
            aliases = set(aliases)
            if source_site is not None and b == source_site[0] and not first:
                # the creating site is reached again (loop): the previous instance must be settled
                if status == "owned":
                    res["reloop"].append(b)
                return None
            stmts = f.stmts(b)
            for si, s in enumerate(stmts):
                if first and b == start and si < start_stmt:
                    continue
                if s["s"] != "assign":
                    continue
                lhs, rv = s["lhs"], s["rv"]
                src_alias = False
                # wrappers: locals holding the owning struct the resource was moved into (tagged ("w", local) in the alias set).
                # Reading the owning field back out of one re-derives a raw alias, so a later raw release is a second release.
                wsrc = None
                if rv["r"] in ("use", "cast"):
                    wsrc = op_place(rv["a"][0])
                elif rv["r"] in ("ref", "raw"):
                    wsrc = rv["pl"]
                if wsrc is not None and ("w", wsrc["l"]) in aliases:
                    wnames = [e["n"] for e in wsrc.get("p", []) if isinstance(e, dict) and "f" in e]
                    if wnames and (_place_adt(f, wsrc), wnames[-1]) in self.own:
                        src_alias = True
                    elif not lhs.get("p"):
                        # a move/copy/borrow of the wrapper, or of an enum/tuple it travels in (`(r as Continue).0`)
                        aliases.add(("w", lhs["l"]))
                        aliases.discard(lhs["l"])
                        continue
                elif not lhs.get("p"):
                    aliases.discard(("w", lhs["l"]))
                if src_alias:
                    pass
                elif alias_read and alias_read(f, b, si, s):
                    src_alias = True
                elif rv["r"] in ("use", "cast"):
                    a = rv["a"][0]
                    if op_place(a) is not None and a["pl"]["l"] in aliases:
                        src_alias = True
                    elif op_place(a) is not None:
                        # a plain tuple that carries the value in one of its components (`let (a, b) = (pair[0], pair[1])`): component-wise
                        tl = a["pl"]["l"]
                        tags = [x for x in aliases if isinstance(x, tuple) and len(x) == 3 and x[0] == "t" and x[1] == tl]
                        if tags:
                            fpath_ = [e["f"] for e in a["pl"].get("p", []) if isinstance(e, dict) and "f" in e]
                            if fpath_:
                                src_alias = ("t", tl, fpath_[0]) in aliases
                            elif not lhs.get("p"):
                                for x in tags:
                                    aliases.add(("t", lhs["l"], x[2]))
                                    if a.get("k") == "mv":
                                        aliases.discard(x)
                                continue
                elif rv["r"] == "agg" and "tuple" in rv["kind"] and not lhs.get("p") and KIND == "fd" and \
                        any(op_place(a) is not None and a["pl"]["l"] in aliases for a in rv["a"]) and \
                        not any(op_place(a) is not None and ("w", a["pl"]["l"]) in aliases for a in rv["a"]):
                    for i_, a in enumerate(rv["a"]):
                        if op_place(a) is not None and a["pl"]["l"] in aliases:
                            aliases.add(("t", lhs["l"], i_))
                    aliases.discard(lhs["l"])
                    continue
                elif rv["r"] == "agg":
                    k = rv["kind"]
                    hit = [i for i, a in enumerate(rv["a"]) if op_place(a) is not None and a["pl"]["l"] in aliases]
                    if not hit and not lhs.get("p") and any(op_place(a) is not None and ("w", a["pl"]["l"]) in aliases for a in rv["a"]):
                        aliases.add(("w", lhs["l"]))      # Ok(wrapper), (wrapper, x)
                        continue
                    if hit:
                        adt = k.get("adt")
                        if adt and adt in self.own_idx and any(i in self.own_idx[adt] for i in hit):
                            if status == "released":
                                res["doubles"].append((b, "aggregate %s" % adt))
                            status = "released"
                            res["sinks"].add("aggregate %s" % adt)
                            for a in rv["a"]:
                                if op_place(a) is not None and a.get("k") == "mv":
                                    aliases.discard(a["pl"]["l"])
                            if not lhs.get("p"):
                                aliases.add(("w", lhs["l"]))
                            continue
                        src_alias = True
                if lhs.get("p"):
                    # store into a field: owning field => release
                    names = [e["n"] for e in lhs["p"] if isinstance(e, dict) and "f" in e]
                    if src_alias and names:
                        adt = _place_adt(f, lhs)
                        if (adt, names[-1]) in self.own:
                            if status == "released":
                                res["doubles"].append((b, "store into %s.%s" % (adt, names[-1])))
                            status = "released"
                            res["sinks"].add("store %s.%s" % (adt, names[-1]))
                    continue
                if src_alias:
                    aliases.add(lhs["l"])
                else:
                    aliases.discard(lhs["l"])
            t = f.term(b)
            if t["t"] == "call":
                if strip_generics(callee_name(t)) in ("std::mem::forget", "std::mem::ManuallyDrop::new") and t["args"] and op_place(t["args"][0]) is not None \
                        and ("w", t["args"][0]["pl"]["l"]) in aliases and status == "released":
                    # the owning wrapper is defused: its Drop will not run, the raw value read out of it carries the obligation again
                    aliases.discard(("w", t["args"][0]["pl"]["l"]))
                    status = "owned"
                sk = self.sink_kind(f, t, aliases, tracer)
                if isinstance(sk, tuple) and sk[0] == "HOLD":
                    aliases.add(sk[1])
                    sk = None
                if sk:
                    if status == "released":
                        res["doubles"].append((b, sk))
                    status = "released"
                    res["sinks"].add(sk)
                dest = t["dest"]
                if not dest.get("p"):
                    name = strip_generics(callee_name(t))
                    is_cont = name in CONTAINER_CALLS or strip_generics(t.get("callee") or "") in CONTAINER_CALLS
                    holds = is_cont and any(op_place(a) is not None and a["pl"]["l"] in aliases for a in t["args"])
                    wholds = is_cont and any(op_place(a) is not None and ("w", a["pl"]["l"]) in aliases for a in t["args"])
                    if holds:
                        aliases.add(dest["l"])
                    else:
                        aliases.discard(dest["l"])
                    if wholds:
                        aliases.add(("w", dest["l"]))
                    else:
                        aliases.discard(("w", dest["l"]))
            elif t["t"] == "return":
                if status == "owned":
                    if 0 in aliases:
                        res["returned"] = True
                    else:
                        return (frozenset(aliases), "LEAK", False)
            return (frozenset(aliases), status, False)

        def at_return(b, st, path):
            if st[1] == "LEAK":
                res["leaks"].append(path)

        def edge(b, s, labs, st, env):
            aliases, status, first = st
            for lab in labs:
                if lab["kind"] == "pred" and lab["pred"] == "is_null" and lab["truth"] and KIND == "mem":
                    la = op_local(lab["arg"])
                    if la is not None and la in aliases:
                        return None
                if KIND == "mem" and lab["kind"] == "variant" and lab.get("variant") in ("None", "Break") and lab["place"]["l"] in aliases and \
                        any(r.kind == "call" and r.id == "std::ptr::NonNull::new" for r in tracer.roots(lab["place"]["l"])):
                    return None           # NonNull::new(p) is None exactly when p is null: nothing was allocated on this edge
                if lab["kind"] == "cmp" and KIND == "mem":
                    # `p == MAP_FAILED` / `p != MAP_FAILED`: the failed edge carries no mapping
                    continue
                if lab["kind"] == "cmp":
                    la, lb = op_local(lab["a"]), op_const(lab["b"])
                    for _ in range(4):
                        # a match guard tests the value through a reference to it (`fd if fd < 0`): `_t = *(&result)`
                        if la is None or la in aliases or la in status_locals:
                            break
                        dd = [x for x in f.defs().get(la, []) if not f.is_cleanup(x[0])]
                        if len(dd) != 1 or dd[0][1] is None:
                            break
                        rv_ = dd[0][2]["rv"]
                        if rv_["r"] in ("ref", "raw") and not [e for e in rv_["pl"].get("p", []) if e != "*"]:
                            la = rv_["pl"]["l"]
                        elif rv_["r"] in ("use", "cast") and op_place(rv_["a"][0]) is not None and not [e for e in rv_["a"][0]["pl"].get("p", []) if e != "*"]:
                            la = rv_["a"][0]["pl"]["l"]
                        else:
                            break
                    if la is not None and la not in aliases and la not in status_locals and status_locals:
                        # a copy of the status result (`let r = socketpair(..); if r < 0`)
                        if any(r.kind == "call" and f.term(r.block)["dest"]["l"] in status_locals for r in tracer.roots(la)):
                            la = next(iter(status_locals))
                    if la is not None and lb is not None and (la in aliases or la in status_locals):
                        if _implies_invalid(lab["op"], lb, lab["truth"]):
                            return None
            return st

        res["states"] = ex.walk(start, (frozenset(aliases0), "owned", True), step, at_return=at_return, edge=edge)
        return res


def _implies_invalid(op, c, truth):
    """does `x op c == truth` imply x < 0 (no descriptor)?"""
    if op == "Lt" and truth and c <= 0:
        return True
    if op == "Le" and truth and c < 0:
        return True
    if op == "Ge" and not truth and c <= 0:
        return True
    if op == "Gt" and not truth and c < 0:
        return True
    if op == "Eq" and truth and c < 0:
        return True
    if op == "Ne" and not truth and c < 0:
        return True
    return False


def _place_adt(f, pl):
    """ADT path owning the last field of the place (best effort via field type names)"""
    # walk: the type of the place before the last field projection
    t = f.local_adt(pl["l"])
    projs = [e for e in pl.get("p", []) if isinstance(e, dict) and "f" in e]
    for e in projs[:-1]:
        ty = e.get("t", "")
        t = ty.split("<")[0].lstrip("&").replace("mut ", "").strip()
    return t


# --------------------------------------------------------------------------- summaries

def int_params(f):
    """parameters that can carry a tracked resource: of a resource type, or a tuple with a component of one (`(ptr, length)` handed on as one value)"""
    out = []
    for i in range(1, f.argc + 1):
        ty = f.local_ty(i)
        if ty in INT_TYPES:
            out.append(i)
        elif ty.startswith("(") and ty.endswith(")") and any(x.strip() in INT_TYPES for x in ty[1:-1].split(",")):
            out.append(i)
    return out


def compute_summaries(F, own_direct, own_containers):
    """param ownership summaries for crate functions with integer parameters (fixpoint)"""
    summ = {}
    fns = [f for f in unix_fns(F) if int_params(f)]
    for _ in range(6):
        changed = False
        eng = FdEngine(F, own_direct, own_containers, summ)
        for f in fns:
            cur = {}
            for i in int_params(f):
                r = eng.run(f, 0, {i})
                if not r["sinks"]:
                    cur[i] = "borrow"
                elif not r["leaks"] and not r["reloop"]:
                    cur[i] = "consume"
                else:
                    cur[i] = "partial"
            name = strip_generics(f.path)
            if summ.get(name) != cur:
                summ[name] = cur
                changed = True
        if not changed:
            break
    return summ


def moving_reads(F, own_direct):
    """FD-MOVE classification of reads of owning fields outside Drop.
    returns list of dicts {fn, block, kind: 'moving'|'borrowing', field, how}"""
    out = []
    if KIND != "fd":
        return out
    for f in unix_fns(F):
        if f.impl_trait == "std::ops::Drop":
            continue
        tr = Tracer(f)
        for b, t in f.calls():
            name = strip_generics(callee_name(t))
            if name in ("std::mem::replace", "std::cell::Cell::replace", "std::mem::take", "std::cell::Cell::take"):
                fld = _owning_field_of(f, tr, t["args"][0], own_direct)
                if fld:
                    c = op_const(t["args"][1]) if len(t["args"]) > 1 else None
                    moving = c is not None and c < 0
                    out.append({"fn": f, "block": b, "kind": "moving" if moving else "borrowing", "field": fld,
                                "how": "%s(.., %s)" % (name.split("::")[-1], c), "dest": t["dest"]})
            elif name == "std::cell::Cell::get":
                fld = _owning_field_of(f, tr, t["args"][0], own_direct)
                if fld:
                    # moving iff every path to Return stores a negative constant into the same field
                    setters = []
                    for b2, t2 in f.calls_to("std::cell::Cell::set"):
                        c = op_const(t2["args"][1])
                        if c is not None and c < 0 and _owning_field_of(f, tr, t2["args"][0], own_direct) == fld:
                            setters.append(b2)
                    ok, _w = f.all_paths_pass(t["to"], setters) if setters else (False, None)
                    out.append({"fn": f, "block": b, "kind": "moving" if ok else "borrowing", "field": fld,
                                "how": "Cell::get" + (" + set(-1)" if ok else ""), "dest": t["dest"]})
    return out


def _owning_field_of(f, tr, operand, own_direct):
    for r in tr.roots_of_operand(operand):
        if r.kind in ("param", "local", "call") and r.field_names():
            names = r.field_names()
            for (adt, n) in own_direct:
                if n == names[-1]:
                    # the type holding the field
                    if r.kind == "param":
                        base = f.local_adt(r.id)
                    else:
                        base = None
                    if base is None or base == adt or len(names) > 1:
                        return (adt, n)
    return None


def returns_owned(F, own_direct, own_containers, summ):
    """crate functions returning a raw integer that is an owned descriptor"""
    out = {}
    mv = moving_reads(F, own_direct)
    eng = FdEngine(F, own_direct, own_containers, summ)
    for _ in range(4):
        changed = False
        for f in unix_fns(F):
            if KIND == "fd" and f.local_ty(0) not in INT_TYPES:
                continue
            if KIND != "fd" and "*mut" not in f.local_ty(0):
                continue
            name = strip_generics(f.path)
            owned = False
            why = None
            for (b, t, kind, what) in list(source_sites(F, f, out, mv)):
                if kind != "ret":
                    continue
                r = eng.run(f, t["to"], {t["dest"]["l"]}, source_site=(b,)) if t["to"] >= 0 else None
                if r and r["returned"]:
                    owned, why = True, what
            if owned and name not in out:
                out[name] = why
                changed = True
        if not changed:
            break
    return out, mv


def source_sites(F, f, ret_owned, mv):
    """yield (block, terminator, kind, description) of descriptor-creating calls in f.
    kind 'ret': the call's return value is the descriptor; 'out': out-array argument."""
    for b, t in f.calls():
        name = strip_generics(callee_name(t))
        decl = strip_generics(t.get("callee") or "")
        if name in FOREIGN_SOURCES or decl in FOREIGN_SOURCES:
            yield b, t, "ret", name
        elif name in FOREIGN_OUT_SOURCES:
            yield b, t, "out", name
        elif KIND != "fd":
            if name in ret_owned:
                yield b, t, "ret", "%s (returns an owned resource)" % name
        elif name.startswith("sc::syscall") or name.startswith("sc::platform"):
            c = op_const(t["args"][0]) if t["args"] else None
            if c in SYSCALL_SOURCES:
                yield b, t, "ret", "%s(nr=%d)" % (name, c)
        elif name == "libc::fcntl":
            c = op_const(t["args"][1]) if len(t["args"]) > 1 else None
            if c in (0, 1030):   # F_DUPFD, F_DUPFD_CLOEXEC
                yield b, t, "ret", "libc::fcntl(F_DUPFD%s)" % ("_CLOEXEC" if c == 1030 else "")
        elif name in ret_owned:
            yield b, t, "ret", "%s (returns an owned descriptor)" % name
    for m in mv:
        if m["fn"] is f and m["kind"] == "moving":
            t = f.term(m["block"])
            yield m["block"], t, "ret", "moving read of %s.%s via %s" % (m["field"][0], m["field"][1], m["how"])


# --------------------------------------------------------------------------- rules

def rule_fd_path(ctx, cfg, F, model, rule_name="FD-PATH", rule_text=None):
    F = F.nodrop() if hasattr(F, "nodrop") else F
    R = ctx.rule(rule_name, rule_text or "every raw descriptor created or received in a function of platform::unix is, on every "
                 "normal path to a return, released exactly once: closed, moved into an owning type, handed to a "
                 "function that takes ownership, inserted into the set's table, or returned; '< 0' edges carry no obligation")
    own_direct, own_containers, summ, ret_owned, mv = model
    eng = FdEngine(F, own_direct, own_containers, summ)
    n_sources = 0
    for f in sorted(unix_fns(F), key=lambda x: x.path):
        for (b, t, kind, what) in source_sites(F, f, ret_owned, mv):
            if kind == "ret":
                if t["to"] < 0:
                    continue
                n_sources += 1
                r = eng.run(f, t["to"], {t["dest"]["l"]}, source_site=(b,))
                _report_path(R, cfg, f, b, what, r, "")
            else:
                # out-array: locate the array local and the status result
                ai = FOREIGN_OUT_SOURCES[strip_generics(callee_name(t))]
                tr = Tracer(f)
                arrs = {r.id for r in tr.roots_of_operand(t["args"][ai]) if r.kind == "local"}
                arrs |= {r.id for r in tr.roots_of_operand(t["args"][ai]) if r.kind == "agg"}
                arr_local = _out_array_local(f, t["args"][ai])
                if arr_local is None:
                    arr_local = _out_array_via_call(f, t["args"][ai])
                if arr_local is None:
                    R.violate("%s:%s:out-array-unresolved" % (f.path, what), "cannot resolve the out array of %s" % what,
                              f.path, f.loc(b), config=cfg)
                    continue
                status = {t["dest"]["l"]} if not t["dest"].get("p") else set()
                for k in (0, 1):
                    n_sources += 1

                    def alias_read(fn, bb, si, st, k=k, arr_local=arr_local):
                        rv = st["rv"]
                        if rv["r"] != "use":
                            return False
                        pl = op_place(rv["a"][0])
                        if pl is None or pl["l"] != arr_local:
                            return False
                        for e in pl.get("p", []):
                            if isinstance(e, dict) and "i" in e:
                                return _const_of_local(fn, e["i"]) == k
                            if isinstance(e, dict) and "ci" in e:
                                return e["ci"] == k
                        return False
                    r = eng.run(f, t["to"], set(), status_locals=status, source_site=(b,), alias_read=alias_read)
                    # an out-slot that is never read is a leak as well
                    if not r["sinks"] and not r["leaks"]:
                        r["leaks"].append([b])
                    _report_path(R, cfg, f, b, "%s[%d]" % (what, k), r, "[%d]" % k)
        # descriptors of a control message copied into an owned list: the list must be consumed by value (every element wrapped or closed) on every path
        if KIND == "fd":
            for (b, t) in cmsg_lists(F, f):
                n_sources += 1
                eng.extra_sinks = LIST_SINKS
                try:
                    r = eng.run(f, t["to"], {t["dest"]["l"]}, source_site=(b,))
                finally:
                    eng.extra_sinks = ()
                _report_path(R, cfg, f, b, "list of descriptors copied out of the control message", r, "[list]")
        # descriptors received in control messages
        for (b, si, st) in cmsg_loads(F, f):
            n_sources += 1
            if si is None:
                r = eng.run(f, f.term(b)["to"], {st["lhs"]["l"]}, source_site=(b,))
            else:
                r = eng.run(f, b, {st["lhs"]["l"]}, source_site=(b,), start_stmt=si + 1)
            _report_path(R, cfg, f, b, "descriptor read from CMSG_DATA", r, "")
    R.count("sources[%s]" % cfg, n_sources)
    # parameters consumed on some paths only
    for name, s in sorted(summ.items()):
        for i, k in s.items():
            if k == "partial":
                f = F.fns.get(name) or next((g for g in F.fns.values() if strip_generics(g.path) == name), None)
                R.violate("%s:param%d:partial" % (name, i), "parameter %d of %s is released on some paths and not on others" % (i, name),
                          name, f and f.loc(0), config=cfg)
            elif k == "consume":
                R.ok("%s takes ownership of parameter %d on every path" % (name, i), config=cfg)
    return n_sources


def _const_of_local(f, l):
    ds = [d for d in f.defs().get(l, []) if d[1] is not None]
    if len(ds) == 1 and ds[0][2]["rv"]["r"] == "use":
        return op_const(ds[0][2]["rv"]["a"][0])
    return None


def _out_array_local(f, operand):
    """local of the array whose element address is passed"""
    l = op_local(operand)
    seen = set()
    while l is not None and l not in seen:
        seen.add(l)
        ds = [d for d in f.defs().get(l, []) if d[1] is not None]
        if len(ds) != 1:
            return None
        rv = ds[0][2]["rv"]
        if rv["r"] in ("ref", "raw"):
            pl = rv["pl"]
            if any(isinstance(e, dict) and ("i" in e or "ci" in e) for e in pl.get("p", [])):
                return pl["l"]
            if pl.get("p") == ["*"]:
                l = pl["l"]
                continue
            if not pl.get("p") and "; 2]" in f.local_ty(pl["l"]):
                return pl["l"]
            return None
        if rv["r"] in ("use", "cast"):
            l = op_local(rv["a"][0])
            continue
        return None
    return None


def _out_array_via_call(f, operand):
    """`arr.as_mut_ptr()` / `arr.as_mut_slice().as_mut_ptr()`: follow pointer-producing calls to the array local"""
    from vlib.flow import transparent
    l = op_local(operand)
    seen = set()
    while l is not None and l not in seen:
        seen.add(l)
        if "; 2]" in f.local_ty(l) and not f.local_ty(l).startswith("&"):
            return l
        ds = [d for d in f.defs().get(l, []) if not f.is_cleanup(d[0])]
        if len(ds) != 1:
            return None
        b, si, node = ds[0]
        if si is None:
            if transparent(node) is None or not node["args"]:
                return None
            l = op_local(node["args"][0])
            continue
        rv = node["rv"]
        if rv["r"] in ("ref", "raw"):
            l = rv["pl"]["l"]
        elif rv["r"] in ("use", "cast"):
            l = op_local(rv["a"][0])
        else:
            return None
    return None


LIST_MAKERS = ("std::slice::to_vec", "core::slice::to_vec", "alloc::slice::to_vec", "std::borrow::ToOwned::to_owned", "std::convert::From::from", "std::iter::Iterator::collect",
               "std::vec::Vec::from", "std::iter::FromIterator::from_iter", "std::vec::Vec::extend_from_slice")
_LIST_FILLERS = ("std::vec::Vec::extend_from_slice", "std::vec::Vec::extend", "std::iter::Extend::extend", "std::vec::Vec::append")
LIST_SINKS = ("std::iter::IntoIterator::into_iter", "std::vec::Vec::into_iter", "std::vec::Vec::drain")


def cmsg_lists(F, f):
    """calls that copy the descriptors of a control message into an owned list: (block, terminator)"""
    calls = {strip_generics(callee_name(t)) for _, t in f.calls()}
    if not any(c.endswith("CMSG_DATA") for c in calls):
        return []
    tr = Tracer(f)
    out = []
    for b, t in f.calls():
        nm, decl = strip_generics(callee_name(t)), strip_generics(t.get("callee") or "")
        if t["to"] >= 0 and nm in _LIST_FILLERS and len(t["args"]) > 1 and any(r.kind == "call" and r.id.endswith("CMSG_DATA") for r in tr.roots_of_operand(t["args"][1])):
            # `list.extend_from_slice(control-message data)`: the list is the resource from here on
            for r in tr.roots_of_operand(t["args"][0]):
                if r.kind == "call" and r.block is not None and "Vec<i32>" in f.local_ty(f.term(r.block)["dest"]["l"]):
                    out.append((b, dict(t, dest={"l": f.term(r.block)["dest"]["l"]})))
            continue
        if t["to"] < 0 or t["dest"].get("p") or "Vec<i32>" not in f.local_ty(t["dest"]["l"]):
            continue
        if not (nm in LIST_MAKERS or decl in LIST_MAKERS or nm.endswith("::to_vec") or nm.endswith("::collect")):
            continue
        if any(r.kind == "call" and r.id.endswith("CMSG_DATA") for a in t["args"] for r in tr.roots_of_operand(a)):
            out.append((b, t))
    return out


def _from_cmsg_list(f, tr, block, depth=0):
    """is the value produced by the call at `block` (Vec::pop, Iterator::next, Index::index ...) an element of a list of received descriptors?"""
    t = f.term(block)
    if t["t"] != "call" or not t["args"] or depth > 4:
        return False
    for r in tr.roots_of_operand(t["args"][0]):
        if r.kind == "call" and r.id.endswith("CMSG_DATA"):
            return True
        if r.kind == "call" and r.block is not None and r.block != block:
            tt = f.term(r.block)
            nm = strip_generics(callee_name(tt))
            if (nm in LIST_MAKERS or nm.endswith("::to_vec") or nm.endswith("::collect")) and any(
                    x.kind == "call" and x.id.endswith("CMSG_DATA") for a in tt["args"] for x in tr.roots_of_operand(a)):
                return True
            if nm in ("std::vec::Vec::new", "std::vec::Vec::with_capacity") and _list_is_cmsg(f, tr, r.block):
                return True
            if _from_cmsg_list(f, tr, r.block, depth + 1):
                return True
    return False


def _list_is_cmsg(f, tr, block):
    """the Vec<i32> created at `block` holds descriptors taken from a control message"""
    t = f.term(block)
    nm = strip_generics(callee_name(t))
    if any(x.kind == "call" and x.id.endswith("CMSG_DATA") for a in t["args"] for x in tr.roots_of_operand(a)):
        return True
    if nm in ("std::vec::Vec::new", "std::vec::Vec::with_capacity"):
        for b2, t2 in f.calls():
            if strip_generics(callee_name(t2)) in ("std::vec::Vec::push",) + _LIST_FILLERS and len(t2["args"]) > 1 and \
                    any(x.kind == "call" and x.block == block for x in tr.roots_of_operand(t2["args"][0])) and \
                    any(x.kind == "call" and x.id.endswith("CMSG_DATA") for x in tr.roots_of_operand(t2["args"][1])):
                return True
    return False


def cmsg_loads(F, f):
    """statements `x = *p` (x integer) with p derived from CMSG_DATA in a function that receives"""
    calls = {strip_generics(callee_name(t)) for _, t in f.calls()}
    if not any(c.endswith("CMSG_DATA") for c in calls):
        return []
    tr = Tracer(f)
    out = []
    for b in sorted(f.live_blocks()):
        if f.is_cleanup(b):
            continue
        for si, st in enumerate(f.stmts(b)):
            if st["s"] != "assign" or st["lhs"].get("p"):
                continue
            rv = st["rv"]
            if rv["r"] != "use" or f.local_ty(st["lhs"]["l"]) not in INT_TYPES:
                continue
            pl = op_place(rv["a"][0])
            if pl is None:
                continue
            if pl.get("p") != ["*"]:
                # by-value element of a list of received descriptors: `fd = (next(&mut list.into_iter()) as Some).0`
                if pl.get("p") and any(isinstance(e, dict) and "f" in e for e in pl["p"]):
                    ds = [d for d in f.defs().get(pl["l"], []) if d[1] is None and not f.is_cleanup(d[0])]
                    if len(ds) == 1 and strip_generics(ds[0][2].get("callee") or callee_name(ds[0][2])) in ("std::iter::Iterator::next",) and _from_cmsg_list(f, tr, ds[0][0]) \
                            and "i32" in f.local_ty(pl["l"]) and "&" not in f.local_ty(pl["l"]):
                        out.append((b, si, st))
                continue
            roots = tr.roots(pl["l"])
            if any(r.kind == "call" and r.id.endswith("CMSG_DATA") for r in roots):
                out.append((b, si, st))
        # `p.read()` / `ptr::read(p)` with p derived from CMSG_DATA: the same load written as a call
        t = f.term(b)
        if t["t"] == "call" and strip_generics(callee_name(t)) in ("std::ptr::const_ptr::read", "std::ptr::mut_ptr::read", "std::ptr::read", "std::ptr::read_unaligned",
                                                                  "std::ptr::const_ptr::read_unaligned") and t["args"] and not t["dest"].get("p") \
                and f.local_ty(t["dest"]["l"]) in INT_TYPES and any(r.kind == "call" and r.id.endswith("CMSG_DATA") for r in tr.roots_of_operand(t["args"][0])):
            out.append((b, None, {"s": "assign", "lhs": {"l": t["dest"]["l"]}, "rv": {"r": "call-load"}, "call_load": True}))
    return out


def _report_path(R, cfg, f, b, what, r, suffix):
    where = f.loc(b)
    if r["leaks"] or r["reloop"]:
        seen = set()
        for p in r["leaks"]:
            exit_desc = _exit_desc(f, p)
            key = "%s:%s%s->%s" % (f.path, _short(what), suffix, exit_desc)
            if key in seen:
                continue
            seen.add(key)
            R.violate(key, "descriptor from %s is still owned at the return reached via %s (leak)" % (what, exit_desc),
                      f.path, where, path="bb" + "->bb".join(map(str, p[-12:])), config=cfg)
        for lb in r["reloop"]:
            R.violate("%s:%s%s->loop" % (f.path, _short(what), suffix), "descriptor from %s is still owned when the creating site runs again" % what,
                      f.path, where, config=cfg)
    elif r["doubles"]:
        for (db, sk) in r["doubles"]:
            R.violate("%s:%s%s:double-release:%s" % (f.path, _short(what), suffix, sk.split(" ")[0]),
                      "descriptor from %s released twice on one path (second: %s)" % (what, sk), f.path, f.loc(db), config=cfg)
    else:
        R.ok("%s: %s -> %s" % (f.path, what, ", ".join(sorted(r["sinks"])) or ("returned" if r["returned"] else "?")), where, cfg,
             states=r["states"])


def _short(what):
    return what.split(" ")[0]


def _exit_desc(f, path):
    """line-free description of the exit a path takes: the last distinguishing call before return"""
    calls = []
    for b in path:
        t = f.term(b)
        if t["t"] == "call":
            n = strip_generics(callee_name(t))
            if n.endswith("UnixError::last") or n.endswith("from_residual") or "Try::branch" in n or n.endswith("Try>::branch"):
                continue
            calls.append(n.split("::")[-1] if not n.startswith("<") else n)
    tail = calls[-1] if calls else "entry"
    kinds = []
    for b in path:
        for st in f.stmts(b):
            if st["s"] == "assign" and st["lhs"]["l"] == 0 and st["rv"]["r"] == "agg":
                kinds.append(st["rv"]["kind"].get("variant", ""))
        t = f.term(b)
        if t["t"] == "call" and t["dest"]["l"] == 0 and "from_residual" in callee_name(t):
            kinds.append("Err?")
    return "after-%s:return-%s" % (tail, kinds[-1] if kinds else "value")


def rule_fd_drop(ctx, cfg, F, model, rule_name="FD-DROP", rule_text=None):
    F = F.nodrop() if hasattr(F, "nodrop") else F
    R = ctx.rule(rule_name, rule_text or "every type with an owning descriptor field has a Drop impl that, on every normal path, "
                 "closes that field exactly once or leaves through a test of the field against the sentinel")
    own_direct, own_containers, summ, ret_owned, mv = model
    for (adt, name), info in sorted(own_direct.items()):
        d = F.drop_fn(adt)
        key = "%s.%s" % (adt, name)
        if d is None:
            R.violate("%s:no-drop" % key, "%s.%s owns a descriptor (%s) but the type has no Drop impl" % (adt, name, info["why"]),
                      adt, None, config=cfg)
            continue
        tr = Tracer(d)
        closes = []
        for b, t in d.calls_to(*FOREIGN_SINKS):
            if any(r.kind == "param" and r.id == 1 and r.field_names()[:1] == (name,) for r in tr.roots_of_operand(t["args"][0])):
                closes.append(b)
        # guard edges: comparisons of the field against a non-positive constant that imply "no descriptor"
        guard_targets = set()
        for b in d.live_blocks():
            if d.term(b)["t"] != "switch":
                continue
            for s in d.succ(b):
                for lab in edge_label(d, b, s):
                    if lab["kind"] == "pred" and lab["pred"] == "is_null" and lab["truth"]:
                        rs = tr.roots_of_operand(lab["arg"])
                        if any(r.kind == "param" and r.id == 1 and r.field_names()[:1] == (name,) for r in rs):
                            guard_targets.add(s)
                    if lab["kind"] == "cmp" and op_const(lab["b"]) is not None:
                        rs = tr.roots_of_operand(lab["a"])
                        if any(r.kind == "param" and r.id == 1 and r.field_names()[:1] == (name,) for r in rs):
                            if _implies_invalid(lab["op"], op_const(lab["b"]), lab["truth"]):
                                guard_targets.add(s)
        if not closes:
            R.violate("%s:drop-never-closes" % key, "Drop of %s never closes its descriptor field `%s` (%s): a value dropped "
                      "while still holding a descriptor leaks it" % (adt, name, info["why"]), d.path, d.loc(0), config=cfg)
            continue
        ok, wit = d.all_paths_pass(0, set(closes) | guard_targets)
        if not ok:
            R.violate("%s:drop-path-without-close" % key, "a path through Drop of %s neither closes `%s` nor tests it against the sentinel" % (adt, name),
                      d.path, d.loc(0), path="bb" + "->bb".join(map(str, wit)), config=cfg)
            continue
        # at most one close per path
        twice = False
        for c in closes:
            reach = d.reachable(d.term(c)["to"]) if d.term(c)["to"] >= 0 else set()
            if any(c2 in reach for c2 in closes):
                twice = True
        if twice:
            R.violate("%s:drop-closes-twice" % key, "Drop of %s can close `%s` twice on one path" % (adt, name), d.path, d.loc(closes[0]), config=cfg)
            continue
        R.ok("Drop of %s closes `%s` once%s" % (adt, name, " (guarded by a sentinel test)" if guard_targets else " (unconditionally)"),
             d.loc(closes[0]), cfg)
    for (adt, name), info in sorted(own_containers.items()):
        d = F.drop_fn(adt)
        if d is None:
            R.violate("%s.%s:no-drop" % (adt, name), "%s.%s holds descriptors but the type has no Drop impl" % (adt, name), adt, None, config=cfg)
            continue
        closes = {b for b, t in d.calls_to(*FOREIGN_SINKS)}
        nexts = [b for b, t in d.calls() if strip_generics(t.get("callee") or "") == "std::iter::Iterator::next"]
        if not closes or not nexts:
            R.violate("%s.%s:drop-never-closes" % (adt, name), "Drop of %s does not walk `%s` closing its entries" % (adt, name), d.path, d.loc(0), config=cfg)
            continue
        # every turn of the loop closes: no way from one `next()` to the following one around the close (sentinel tests of the element aside)
        tr = Tracer(d)
        guards = set()
        for b in d.live_blocks():
            if d.term(b)["t"] != "switch":
                continue
            for s_ in d.succ(b):
                for lab in edge_label(d, b, s_):
                    if lab["kind"] == "cmp" and op_const(lab["b"]) is not None and _implies_invalid(lab["op"], op_const(lab["b"]), lab["truth"]) and \
                            any(r.kind == "call" and r.block in nexts for r in tr.roots_of_operand(lab["a"])):
                        guards.add(s_)
        skipped = None
        for nb in nexts:
            for s0 in d.succ(nb):
                if d.is_cleanup(s0) or s0 in closes or s0 in guards:
                    continue
                if nb in d.reachable(s0, avoid=closes | guards) and s0 != nb:
                    skipped = nb
        if skipped is not None:
            R.violate("%s.%s:drop-entry-not-closed" % (adt, name), "Drop of %s can go on to the next entry of `%s` without closing the current one" % (adt, name), d.path, d.loc(skipped), config=cfg)
        else:
            R.ok("Drop of %s closes every entry of `%s` on every turn of its loop" % (adt, name), d.loc(min(closes)), cfg)
    R.count("owning_fields[%s]" % cfg, len(own_direct) + len(own_containers))


def rule_fd_move(ctx, cfg, F, model):
    F = F.nodrop() if hasattr(F, "nodrop") else F
    R = ctx.rule("FD-MOVE", "a read of an owning descriptor field is moving only if the sentinel is stored on the same path; "
                 "values that are not owned (borrowing reads, results of borrowing accessors) never reach a releasing site")
    own_direct, own_containers, summ, ret_owned, mv = model
    n_moving = 0
    for m in mv:
        if m["kind"] == "moving":
            n_moving += 1
        R.instance("%s read of %s.%s in %s (%s)" % (m["kind"], m["field"][0], m["field"][1], m["fn"].path, m["how"]),
                   m["fn"].loc(m["block"]), cfg)
    R.count("moving_reads[%s]" % cfg, n_moving)
    # every releasing site: provenance of the released value
    eng = FdEngine(F, own_direct, own_containers, summ)
    for f in sorted(unix_fns(F), key=lambda x: x.path):
        tr = Tracer(f)
        for b, t in f.calls():
            name = strip_generics(callee_name(t))
            idxs = []
            if name in FOREIGN_SINKS:
                idxs = [0]
            elif name in summ:
                idxs = [i - 1 for i, k in summ[name].items() if k in ("consume", "partial")]
            for i in idxs:
                if i >= len(t["args"]):
                    continue
                verdict = _classify_released(F, f, tr, t["args"][i], model, b)
                site = "%s:%s(arg%d)" % (f.path, name.split("::")[-1] if not name.startswith("<") else name, i)
                if verdict[0] == "borrowed":
                    R.violate("%s:borrowed-value-released:%s" % (site, verdict[1]),
                              "%s releases a descriptor it does not own: the value comes from %s (a second owner => double close)" % (name, verdict[1]),
                              f.path, f.loc(b), config=cfg)
                else:
                    R.ok("%s releases %s" % (site, verdict[1]), f.loc(b), cfg)
        # aggregates of owning types
        for b in sorted(f.live_blocks()):
            if f.is_cleanup(b):
                continue
            for si, st in enumerate(f.stmts(b)):
                if st["s"] != "assign" or st["rv"]["r"] != "agg":
                    continue
                adt = st["rv"]["kind"].get("adt")
                if adt not in eng.own_idx:
                    continue
                for i in eng.own_idx[adt]:
                    if i is None or i >= len(st["rv"]["a"]):
                        continue
                    verdict = _classify_released(F, f, tr, st["rv"]["a"][i], model, b)
                    site = "%s:new %s" % (f.path, adt)
                    if verdict[0] == "borrowed":
                        R.violate("%s:borrowed-value-wrapped:%s" % (site, verdict[1]),
                                  "%s wraps a descriptor it does not own in %s: the value comes from %s" % (f.path, adt, verdict[1]),
                                  f.path, f.loc(b, si), config=cfg)
                    else:
                        R.ok("%s wraps %s" % (site, verdict[1]), f.loc(b, si), cfg)


def _classify_released(F, f, tr, operand, model, site_block):
    own_direct, own_containers, summ, ret_owned, mv = model
    roots = tr.roots_of_operand(operand)
    owned_desc, borrowed_desc = [], []
    mv_here = {m["block"]: m for m in mv if m["fn"] is f}
    for r in roots:
        if r.kind == "param":
            if r.field_names():
                adt = f.local_adt(r.id)
                fld = r.field_names()[0]
                if f.impl_trait == "std::ops::Drop" and r.id == 1 and ((adt, fld) in own_direct or (adt, fld) in own_containers):
                    owned_desc.append("own field `%s` inside Drop of %s" % (fld, adt))
                else:
                    # a field of a parameter read without moving it out
                    # `let fd = self.fd; self.fd = -1;` is mem::replace written out: a moving read when every way on from here stores a negative constant into that field
                    stores = [b_ for b_ in f.live_blocks() if not f.is_cleanup(b_) and any(
                        st_["s"] == "assign" and st_["rv"]["r"] == "use" and (op_const(st_["rv"]["a"][0]) or 0) < 0 and
                        [e.get("n") for e in st_["lhs"].get("p", []) if isinstance(e, dict) and "f" in e][-1:] == [fld] and
                        any(x.kind == "param" and x.id == r.id for x in tr.roots(st_["lhs"]["l"])) for st_ in f.stmts(b_))]
                    if (adt, fld) in own_direct and stores and f.all_paths_pass(0, stores)[0]:
                        # every path through the function passes the sentinel store (before or after the release: `let fd = self.fd; self.fd = -1; from_fd(fd)`)
                        owned_desc.append("field read with the sentinel stored on every path through the function (mem::replace written out)")
                    else:
                        borrowed_desc.append("field %s of parameter %d" % (".".join(r.field_names()), r.id))
            else:
                s = summ.get(strip_generics(f.path), {})
                if s.get(r.id) in ("consume", "partial"):
                    owned_desc.append("its own parameter %d (callers are checked)" % r.id)
                else:
                    borrowed_desc.append("parameter %d, which this function does not own" % r.id)
        elif r.kind == "call":
            if r.id in FOREIGN_SOURCES or r.id in ret_owned:
                owned_desc.append("%s" % r.id)
            elif r.id == "libc::fcntl":
                owned_desc.append("fcntl(F_DUPFD)")
            elif r.id.startswith("sc::"):
                owned_desc.append(r.id)
            elif r.block in mv_here and mv_here[r.block]["kind"] == "moving":
                owned_desc.append("moving read (%s)" % mv_here[r.block]["how"])
            elif r.block in mv_here:
                borrowed_desc.append("a borrowing read of %s.%s (%s)" % (mv_here[r.block]["field"] + (mv_here[r.block]["how"],)))
            elif r.id.endswith("CMSG_DATA"):
                owned_desc.append("control-message data")
            elif strip_generics(r.id) in ("std::ptr::const_ptr::read", "std::ptr::mut_ptr::read", "std::ptr::read", "std::ptr::read_unaligned") and r.block is not None and \
                    any(x.kind == "call" and x.id.endswith("CMSG_DATA") for x in tr.roots_of_operand(f.term(r.block)["args"][0])):
                owned_desc.append("control-message data")
            elif strip_generics(r.id) in ("std::vec::Vec::pop", "std::iter::Iterator::next", "std::vec::Vec::remove", "std::vec::Vec::swap_remove", "std::ops::Index::index",
                                          "std::iter::Iterator::copied", "std::iter::Iterator::cloned") and r.block is not None \
                    and _from_cmsg_list(f, tr, r.block):
                owned_desc.append("element of the list of received descriptors")
            elif r.block is not None and (strip_generics(r.id) in LIST_MAKERS or strip_generics(r.id).endswith("::to_vec") or strip_generics(r.id) in ("std::vec::Vec::new", "std::vec::Vec::with_capacity")) \
                    and "Vec<i32>" in f.local_ty(f.term(r.block)["dest"]["l"]) and _list_is_cmsg(f, tr, r.block):
                owned_desc.append("element of the list of received descriptors")
            elif r.id in ("std::collections::HashMap::get", "std::collections::HashMap::remove", "std::collections::hash_map::HashMap::values",
                          "std::collections::HashMap::values", "std::iter::Iterator::next") or "hash_map" in r.id or "HashMap" in r.id:
                owned_desc.append("table entry (see FD-CLOSE-OWNED)")
            else:
                # result of a crate accessor that does not hand out ownership
                borrowed_desc.append("the result of %s, which does not transfer ownership" % r.id)
        elif r.kind in ("agg", "local"):
            owned_desc.append("local array/aggregate (out-slot)")
        elif r.kind == "const":
            owned_desc.append("constant %s" % (r.id,))
        else:
            owned_desc.append(r.kind)
    if borrowed_desc:
        return ("borrowed", "; ".join(sorted(set(borrowed_desc))))
    return ("owned", "; ".join(sorted(set(owned_desc))) or "?")


def rule_close_owned(ctx, cfg, F, model):
    F = F.nodrop() if hasattr(F, "nodrop") else F
    R = ctx.rule("FD-CLOSE-OWNED", "every libc::close closes (a) an owning field of self inside that type's Drop, (b) a value "
                 "the typestate analysis holds as owned, or (c) the descriptor of a set entry whose removal from the table dominates the close")
    own_direct, own_containers, summ, ret_owned, mv = model
    n = 0
    for f in sorted(unix_fns(F), key=lambda x: x.path):
        tr = Tracer(f)
        for b, t in f.calls_to(*FOREIGN_SINKS):
            n += 1
            roots = tr.roots_of_operand(t["args"][0])
            is_drop = f.impl_trait == "std::ops::Drop"
            kinds = []
            for r in roots:
                if r.kind == "param" and r.id == 1 and r.field_names():
                    adt = f.local_adt(1)
                    fld = r.field_names()[0]
                    if is_drop and ((adt, fld) in own_direct or (adt, fld) in own_containers):
                        kinds.append("own-field")
                    else:
                        kinds.append("BAD:field %s of %s outside its Drop" % (fld, adt))
                elif r.kind == "call" and ("HashMap" in r.id or "hash_map" in r.id):
                    # entry of the set's table: closing requires removal of that entry first
                    if is_drop:
                        kinds.append("table-entry-in-drop")
                    else:
                        removes = [b2 for b2, t2 in f.calls_to("std::collections::HashMap::remove")]
                        if any(f.dominates(rb, b) for rb in removes):
                            kinds.append("table-entry-after-remove")
                        else:
                            kinds.append("BAD:table entry closed without removing it from the table (Drop of the set would close it again)")
                elif r.kind == "call" and (r.id in FOREIGN_SOURCES or r.id in ret_owned or r.id.startswith("sc::")):
                    kinds.append("owned-local")
                elif r.kind == "call" and any(m["fn"] is f and m["block"] == r.block and m["kind"] == "moving" for m in mv):
                    kinds.append("owned-local")
                elif r.kind == "param" and not r.field_names() and summ.get(strip_generics(f.path), {}).get(r.id) in ("consume",):
                    kinds.append("owned-param")
                elif r.kind in ("agg", "local"):
                    kinds.append("owned-local")
                elif r.kind == "call" and r.block is not None and strip_generics(r.id) in ("std::iter::Iterator::next", "std::vec::Vec::pop", "std::vec::Vec::remove", "std::vec::Vec::swap_remove") \
                        and _from_cmsg_list(f, tr, r.block):
                    kinds.append("owned-local")      # an element taken out of the list of descriptors received with this message
                elif r.kind == "call" and r.block is not None and "Vec<i32>" in f.local_ty(f.term(r.block)["dest"]["l"]) and _list_is_cmsg(f, tr, r.block):
                    kinds.append("owned-local")
                else:
                    kinds.append("BAD:value of unknown ownership (%r)" % (r,))
            # the same value closed again further down the same path
            my_roots = {r.key() for r in roots}
            for b2, t2 in f.calls_to(*FOREIGN_SINKS):
                if b2 != b and t["to"] >= 0 and b2 in f.reachable(t["to"], avoid=_headers_around(f, b)) and {r.key() for r in tr.roots_of_operand(t2["args"][0])} == my_roots:
                    kinds.append("BAD:the same descriptor is closed again at %s on the same path (double close)" % f.loc(b2))
            bad = [k for k in kinds if k.startswith("BAD:")]
            if bad or not kinds:
                R.violate("%s:close:%s" % (f.path, (bad[0][4:40] if bad else "unresolved")),
                          "libc::close in %s closes %s" % (f.path, bad[0][4:] if bad else "a value with no resolvable origin"),
                          f.path, f.loc(b), config=cfg)
            else:
                R.ok("close in %s: %s" % (f.path, ",".join(sorted(set(kinds)))), f.loc(b), cfg)
    R.count("close_sites[%s]" % cfg, n)


def _headers_around(f, b):
    """headers of the loops that contain block b: passing one of them starts a new iteration"""
    return [h for h in f.loop_headers() if b in f.natural_loop(h)]


def _in_loop_with(f, a, b):
    """both blocks lie in one natural loop (the second close then belongs to a later iteration)"""
    return any(a in f.natural_loop(h) and b in f.natural_loop(h) for h in f.loop_headers())


CLOEXEC_BITS = {"SOCK_CLOEXEC": 0o2000000, "MSG_CMSG_CLOEXEC": 0x40000000, "MFD_CLOEXEC": 1, "O_CLOEXEC": 0o2000000,
                "FD_CLOEXEC": 1, "F_SETFD": 2, "EPOLL_CLOEXEC": 0o2000000}


def const_eval(e):
    """evaluate an Expr made of integer constants and bit/arith operators; None if not constant"""
    if e[0] == "const" and isinstance(e[1], int):
        return e[1]
    if e[0] == "bin":
        a, b = const_eval(e[2]), const_eval(e[3])
        if a is None or b is None:
            return None
        op = e[1]
        try:
            return {"BitOr": a | b, "BitAnd": a & b, "BitXor": a ^ b, "Add": a + b, "Sub": a - b, "Mul": a * b,
                    "Shl": a << b, "Shr": a >> b}.get(op)
        except Exception:
            return None
    if e[0] == "un" and e[1] == "Not":
        a = const_eval(e[2])
        return None if a is None else ~a
    if e[0] in ("field", "variant") and len(e) > 1 and isinstance(e[1], tuple):
        # `usize::try_from(CONST).unwrap()`: the conversion calls are value-transparent for the expression engine, what is left is the payload of the constant
        return const_eval(e[1])
    return None



def possible_consts(f, operand, limit=32):
    """every integer value a flags-like operand can hold (flow-insensitive over its definitions: constants, copies, bitwise/arith
    combinations of such); None if some definition is not understood"""
    c = op_const(operand)
    if c is None and operand.get("k") == "c" and "pv" in operand:
        c = operand["pv"]
    if c is not None:
        return {c}
    l0 = op_local(operand)
    if l0 is None or operand["pl"].get("p"):
        return None
    vals = {}
    locs = set()
    work = [l0]
    while work:
        l = work.pop()
        if l in locs:
            continue
        locs.add(l)
        for (b, si, node) in f.defs().get(l, []):
            if f.is_cleanup(b):
                continue
            if si is None or node["lhs"].get("p"):
                return None
            for o in node["rv"].get("a", []):
                if op_local(o) is not None:
                    if o["pl"].get("p"):
                        if not (node["rv"]["r"] == "use" and False):
                            pass
                    work.append(op_local(o))
    if any(1 <= l <= f.argc for l in locs):
        return None
    for l in locs:
        vals[l] = set()

    def ev(o):
        c = op_const(o)
        if c is None and o.get("k") == "c" and "pv" in o:
            c = o["pv"]
        if c is not None:
            return {c}
        l = op_local(o)
        if l is None:
            return None
        pr = [e for e in o["pl"].get("p", []) if e != "*"]
        if pr and not (len(pr) == 1 and isinstance(pr[0], dict) and pr[0].get("f") == 0):
            return None          # only `.0` of a checked-arithmetic pair is followed
        return vals.get(l, set())
    for _ in range(32):
        changed = False
        for l in locs:
            for (b, si, node) in f.defs().get(l, []):
                if f.is_cleanup(b):
                    continue
                rv = node["rv"]
                new = None
                if rv["r"] in ("use", "cast"):
                    new = ev(rv["a"][0])
                elif rv["r"] == "bin":
                    x, y = ev(rv["a"][0]), ev(rv["a"][1])
                    if x is None or y is None:
                        return None
                    op = rv["op"].replace("WithOverflow", "").replace("Unchecked", "")
                    fn_ = {"BitOr": lambda a, b: a | b, "BitAnd": lambda a, b: a & b, "BitXor": lambda a, b: a ^ b, "Add": lambda a, b: a + b, "Sub": lambda a, b: a - b}.get(op)
                    if fn_ is None:
                        return None
                    new = {fn_(a, b) for a in x for b in y}
                else:
                    return None
                if new is None:
                    return None
                if not new <= vals[l]:
                    vals[l] |= new
                    changed = True
                    if len(vals[l]) > limit:
                        return None
        if not changed:
            break
    return vals[l0] or None


def rule_cloexec(ctx, cfg, F, model):
    F = F.nodrop() if hasattr(F, "nodrop") else F
    R = ctx.rule("CLOEXEC", "every descriptor-creating call sets close-on-exec atomically: socket/socketpair type includes "
                 "SOCK_CLOEXEC, recvmsg flags include MSG_CMSG_CLOEXEC, memfd_create flags include MFD_CLOEXEC, accept4/dup3/"
                 "F_DUPFD_CLOEXEC variants; plain accept/dup need fcntl(F_SETFD, FD_CLOEXEC) on every path (shm_open: glibc sets it)")
    n = 0
    for f in sorted(F.fns.values(), key=lambda x: x.path):
        ex = Expr(f)
        for b, t in f.calls():
            name = strip_generics(callee_name(t))
            if not (name.startswith("libc::") or name.startswith("sc::") or name.endswith("::memfd_create")):
                continue
            short = name.split("::")[-1]
            need = None
            if short in ("socket", "socketpair"):
                need = (1, CLOEXEC_BITS["SOCK_CLOEXEC"], "SOCK_CLOEXEC")
            elif short == "recvmsg":
                need = (2, CLOEXEC_BITS["MSG_CMSG_CLOEXEC"], "MSG_CMSG_CLOEXEC")
            elif short == "accept4":
                need = (3, CLOEXEC_BITS["SOCK_CLOEXEC"], "SOCK_CLOEXEC")
            elif short == "memfd_create" and name.startswith("libc::"):
                need = (1, 1, "MFD_CLOEXEC")
            elif short == "memfd_create":
                need = (1, 1, "MFD_CLOEXEC")
            elif short in ("open", "openat", "open64"):
                need = (2 if short == "openat" else 1, CLOEXEC_BITS["O_CLOEXEC"], "O_CLOEXEC")
            elif short in ("pipe2", "dup3"):
                need = (1 if short == "pipe2" else 2, CLOEXEC_BITS["O_CLOEXEC"], "O_CLOEXEC")
            elif short in ("epoll_create1",):
                need = (0, CLOEXEC_BITS["EPOLL_CLOEXEC"], "EPOLL_CLOEXEC")
            elif short in ("accept", "dup", "dup2", "pipe", "epoll_create"):
                n += 1
                # requires a following fcntl(fd, F_SETFD, FD_CLOEXEC) on all paths
                setters = []
                tr = Tracer(f)
                for b2, t2 in f.calls_to("libc::fcntl"):
                    cmd = const_eval(ex.of_operand(t2["args"][1]))
                    flag = const_eval(ex.of_operand(t2["args"][2])) if len(t2["args"]) > 2 else None
                    if cmd == 2 and flag is not None and flag & 1:
                        if any(r.kind == "call" and r.block == b for r in tr.roots_of_operand(t2["args"][0])):
                            setters.append(b2)
                ok = False
                if setters and t["to"] >= 0:
                    ok, _ = f.all_paths_pass(t["to"], setters)
                if ok:
                    R.ok("%s in %s followed by fcntl(F_SETFD, FD_CLOEXEC)" % (short, f.path), f.loc(b), cfg)
                else:
                    R.violate("%s:%s:inheritable" % (f.path, short), "%s() creates a descriptor without close-on-exec and no "
                              "fcntl(F_SETFD, FD_CLOEXEC) follows on every path: a child spawned by the program inherits it "
                              "(use %s)" % (short, {"accept": "accept4(.., SOCK_CLOEXEC)", "dup": "fcntl(F_DUPFD_CLOEXEC)"}.get(short, "the *_CLOEXEC variant")),
                              f.path, f.loc(b), config=cfg)
                continue
            elif short == "fcntl":
                cmd = const_eval(ex.of_operand(t["args"][1])) if len(t["args"]) > 1 else None
                if cmd == 0:
                    n += 1
                    R.violate("%s:fcntl-F_DUPFD:inheritable" % f.path, "fcntl(F_DUPFD) duplicates without close-on-exec (use F_DUPFD_CLOEXEC)",
                              f.path, f.loc(b), config=cfg)
                elif cmd == 1030:
                    n += 1
                    R.ok("fcntl(F_DUPFD_CLOEXEC) in %s" % f.path, f.loc(b), cfg)
                continue
            if need is None:
                continue
            n += 1
            ai, bit, bname = need
            if ai >= len(t["args"]):
                continue
            v = const_eval(ex.of_operand(t["args"][ai]))
            if v is None:
                # a flags variable: every value it can take must carry the bit
                pv = possible_consts(f, t["args"][ai])
                if pv is None:
                    R.violate("%s:%s:flags-not-constant" % (f.path, short), "flags operand of %s is not a compile-time constant; cannot show %s is set" % (short, bname),
                              f.path, f.loc(b), config=cfg)
                elif all(x & bit for x in pv):
                    R.ok("%s in %s has %s in every value its flags variable can take (%s)" % (short, f.path, bname, ", ".join("%#x" % x for x in sorted(pv))), f.loc(b), cfg)
                else:
                    R.violate("%s:%s:missing-%s" % (f.path, short, bname), "%s in %s can be called without %s (its flags variable can be %s): a descriptor received that way is inherited across exec" % (
                        short, f.path, bname, ", ".join("%#x" % x for x in sorted(pv) if not x & bit)), f.path, f.loc(b), config=cfg)
            elif v & bit:
                R.ok("%s in %s has %s (operand = %#x)" % (short, f.path, bname, v), f.loc(b), cfg)
            else:
                R.violate("%s:%s:missing-%s" % (f.path, short, bname), "%s in %s is called without %s (operand = %#x): the descriptor is inherited across exec" % (short, f.path, bname, v),
                          f.path, f.loc(b), config=cfg)
    R.count("creating_calls[%s]" % cfg, n)


FORGET = ("std::mem::forget", "std::mem::ManuallyDrop::new", "std::boxed::Box::leak", "tempfile::TempDir::keep",
          "tempfile::TempDir::into_path", "std::sync::Arc::into_raw", "std::boxed::Box::into_raw", "std::os::fd::IntoRawFd::into_raw_fd",
          "std::mem::ManuallyDrop::take", "tempfile::TempDir::disable_cleanup")


def _is_defuse(F, f, b, t):
    """`let fd = guard.0; mem::forget(guard); fd` -- the guard owns exactly the field that was read out before it is forgotten"""
    if not t["args"] or op_local(t["args"][0]) is None:
        return False
    G = op_local(t["args"][0])
    adt = f.local_adt(G)
    if not adt:
        return False
    # only guard types that are NEW with respect to the reference inventory: forgetting a value of a type the library already had
    # (a server, a receiver, ...) is the leak NO-FORGET exists for
    from vlib.inline import inventory
    if any(n.startswith(adt + "::") or n.startswith("<" + adt + " as ") for n in inventory()):
        return False
    Fn_ = F.nodrop() if hasattr(F, "nodrop") else F
    owned = set()
    for dom in ("fd", "mem"):
        with domain(dom):
            od, _oc = owning_fields(Fn_)
        owned |= {fld for (a, fld) in od if a == adt}
    if not owned:
        return False
    # locals the guard value travelled through on its way to the forget
    chain = {G}
    work = [G]
    while work:
        l = work.pop()
        for (db, si, node) in f.defs().get(l, []):
            if si is not None and node["rv"]["r"] == "use" and not node["lhs"].get("p"):
                src = op_place(node["rv"]["a"][0])
                if src is not None and not src.get("p") and src["l"] not in chain:
                    chain.add(src["l"])
                    work.append(src["l"])
    for rb in f.live_blocks():
        if not f.dominates(rb, b):
            continue
        for st in f.stmts(rb):
            if st["s"] == "assign" and st["rv"]["r"] == "use":
                src = op_place(st["rv"]["a"][0])
                if src is not None and src["l"] in chain:
                    names = [e["n"] for e in src.get("p", []) if isinstance(e, dict) and "f" in e]
                    if names and names[-1] in owned:
                        return True
    return False


def rule_no_forget(ctx, cfg, F):
    R = ctx.rule("NO-FORGET", "no call in the library defeats RAII: mem::forget, ManuallyDrop::new, Box::leak/into_raw, Arc::into_raw, "
                 "TempDir::keep/into_path/disable_cleanup, IntoRawFd::into_raw_fd (expected count 0)")
    n = 0
    for f in F.fns.values():
        if "::{constant#" in f.path or "__rust_std_internal" in f.path or "lazy_static" in f.impl_trait:
            continue
        for b, t in f.calls():
            if t.get("x"):
                # inside a macro expansion of std (thread_local!, lazy_static!) -- not the crate's own code
                nm = strip_generics(callee_name(t))
                if nm in FORGET and not (f.file.startswith("src/") and t.get("x")):
                    pass
            nm = strip_generics(callee_name(t))
            if nm in FORGET or strip_generics(t.get("callee") or "") in FORGET:
                if t.get("x") and ("thread_local" in f.path or "LazyStatic" in f.path or "__static_ref" in f.path):
                    continue
                if nm in ("std::mem::forget", "std::mem::ManuallyDrop::new") and _is_defuse(F, f, b, t):
                    R.ok("%s in %s defuses a guard whose resource was read out first (ownership passes to the raw value; FD-PATH / ALLOC-PAIR follow it)" % (nm.split("::")[-1], f.path), f.loc(b), cfg)
                    continue
                n += 1
                R.violate("%s:%s" % (f.path, nm), "%s called in %s: the value's destructor (close/unmap/delete) will not run" % (nm, f.path),
                          f.path, f.loc(b), config=cfg)
    if n == 0:
        R.ok("no RAII-defeating call among %d functions" % len(F.fns), None, cfg)
    R.count("fns_scanned[%s]" % cfg, len(F.fns))


def build_model(F):
    F = F.nodrop() if hasattr(F, "nodrop") else F
    own_direct, own_containers = owning_fields(F)
    summ = compute_summaries(F, own_direct, own_containers)
    ret_owned, mv = returns_owned(F, own_direct, own_containers, summ)
    return own_direct, own_containers, summ, ret_owned, mv


def rule_sock_type(ctx, cfg, F):
    F = F.nodrop() if hasattr(F, "nodrop") else F
    R = ctx.rule("SOCK-TYPE", "every socket of the unix backend is created SOCK_SEQPACKET: one send is one packet and one receive returns it whole -- the fragment protocol counts on it "
                 "(`result > 0` means the fragment went out entire; a stream socket may accept a prefix and report success)")
    n = 0
    for f in sorted(F.fns.values(), key=lambda x: x.path):
        if not f.path.startswith("platform::unix"):
            continue
        ex = Expr(f)
        for b, t in f.calls_to("libc::socket", "libc::socketpair"):
            n += 1
            v = const_eval(ex.of_operand(t["args"][1]))
            vals = [v] if v is not None else possible_consts(f, t["args"][1])
            if not vals:
                R.violate("%s:socket-type-unresolved" % f.path, "the type operand of %s is not a resolvable constant" % strip_generics(callee_name(t)), f.path, f.loc(b), config=cfg)
            elif all((x & 0xf) == 5 for x in vals):
                R.ok("%s in %s creates SOCK_SEQPACKET sockets" % (strip_generics(callee_name(t)).split("::")[-1], f.path), f.loc(b), cfg)
            else:
                R.violate("%s:not-seqpacket" % f.path, "%s in %s can create a socket of type %s, not SOCK_SEQPACKET: packet boundaries are lost and a partial send counts as a sent fragment" % (
                    strip_generics(callee_name(t)).split("::")[-1], f.path, ", ".join(str(x & 0xf) for x in sorted(vals) if (x & 0xf) != 5)), f.path, f.loc(b), config=cfg)
    R.count("socket_sites[%s]" % cfg, n)


SO_SNDBUF, SO_RCVBUF = 7, 8      # linux (asm-generic); the rule reads the constant's name when the driver recorded it


def rule_sock_buf(ctx, cfg, F):
    F = F.nodrop() if hasattr(F, "nodrop") else F
    R = ctx.rule("SOCK-BUF", "packet sizes are computed once per process from the default send-buffer size of a probe socket (SYSTEM_SENDBUF_SIZE): no socket of the backend is given a "
                 "different SO_SNDBUF / SO_RCVBUF, or packets sized for the default are refused (EMSGSIZE) on that socket")
    n = 0
    for f in sorted(F.fns.values(), key=lambda x: x.path):
        if not f.path.startswith("platform::unix") or f.file.endswith("test.rs"):
            continue
        ex = None
        for b, t in f.calls():
            nm = strip_generics(callee_name(t))
            if nm.endswith("getsockopt"):
                n += 1
            if not nm.endswith("setsockopt") or len(t["args"]) < 3:
                continue
            n += 1
            ex = ex or Expr(f)
            a = t["args"][2]
            v = const_eval(ex.of_operand(a))
            vals = [v] if v is not None else possible_consts(f, a)
            name = str(a.get("s", "")) if a.get("k") == "c" else ""
            if "SO_SNDBUF" in name or "SO_RCVBUF" in name or any(x in (SO_SNDBUF, SO_RCVBUF, 32, 33) for x in vals):
                R.violate("%s:socket-buffer-resized" % strip_generics(f.path), "%s changes the kernel buffer size of a socket (%s): the fragment sizes in send() come from the process-wide default measured once, "
                          "so a single packet that fits the default no longer fits this socket and send fails with EMSGSIZE instead of being fragmented" % (f.path, name or vals), f.path, f.loc(b), config=cfg)
            elif not vals and not name:
                R.violate("%s:socket-option-unresolved" % strip_generics(f.path), "the option operand of setsockopt in %s is not a resolvable constant" % f.path, f.path, f.loc(b), config=cfg)
            else:
                R.ok("setsockopt(%s) in %s does not touch the buffer sizes" % (name or vals, f.path), f.loc(b), cfg)
    R.count("sockopt_sites[%s]" % cfg, n)
