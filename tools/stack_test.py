#!/usr/bin/env python3
"""Seeded changes on top of behaviour-preserving refactors: the checks must keep reporting a seeded change when the code around it
has been rewritten.  For each seed a sample of refactors from selftest/refactors is applied first (scratch copy of /repo), then the
seed's patch; combinations that do not apply or do not compile are skipped.  The seed's own property must report a violation.

  tools/stack_test.py [-j N] [-k SAMPLE_PER_SEED] [--seed-filter C11] [--all]"""
import glob, json, os, random, re, shutil, subprocess, sys, tempfile
from concurrent.futures import ThreadPoolExecutor
VERIF = os.path.dirname(os.path.dirname(os.path.abspath(__file__)))


def touched(patch):
    return set(re.findall(r"^\+\+\+ b/(\S+)", open(patch).read(), re.M))


def one(job):
    seed_dir, ref = job
    meta = json.load(open(os.path.join(seed_dir, "meta.json")))
    prop = meta["breaks_property"]
    d = tempfile.mkdtemp(prefix="ipcv-stack-")
    try:
        subprocess.run(["rsync", "-a", "--exclude", "target", "--exclude", ".git", "/repo/", d + "/"], check=True)
        for p in (ref, os.path.join(seed_dir, "patch.diff")):
            r = subprocess.run(["patch", "-p1", "-s", "-F0", "-i", p], cwd=d, capture_output=True, text=True)
            if r.returncode != 0:
                return (meta["id"], os.path.basename(ref), "noapply", "")
        env = dict(os.environ, IPCV_REPO=d, IPCV_EVIDENCE_DIR=os.path.join(d, ".ev"))
        rr = subprocess.run([os.path.join(VERIF, "check"), prop], capture_output=True, text=True, env=env)
        out = rr.stdout + rr.stderr
        if "does not compile" in out or "config-unavailable" in out or "CONFIG-UNAVAILABLE" in out:
            return (meta["id"], os.path.basename(ref), "nocompile", "")
        keys = re.findall(r"^VIOLATION property=\S+ replay=\S+ rule=(\S+) key=(.*)$", rr.stdout, re.M)
        if any(k[0] == "INTERNAL" for k in keys) or "checker crashed" in out:
            return (meta["id"], os.path.basename(ref), "CRASH", out[-300:])
        return (meta["id"], os.path.basename(ref), "detected" if keys else "MISSED", ",".join(sorted({k[0] for k in keys})))
    finally:
        shutil.rmtree(d, ignore_errors=True)


def main():
    args = sys.argv[1:]
    j, k, filt = 8, 6, None
    if "-j" in args:
        i = args.index("-j"); j = int(args[i + 1]); del args[i:i + 2]
    if "-k" in args:
        i = args.index("-k"); k = int(args[i + 1]); del args[i:i + 2]
    if "--seed-filter" in args:
        i = args.index("--seed-filter"); filt = args[i + 1]; del args[i:i + 2]
    everything = "--all" in args
    refs = sorted(glob.glob(os.path.join(VERIF, "selftest", "refactors", "*.patch")))
    rt = {r: touched(r) for r in refs}
    rng = random.Random(1)
    jobs = []
    for sd in sorted(glob.glob(os.path.join(VERIF, "seeded", "*"))):
        if not os.path.isdir(sd) or (filt and filt not in os.path.basename(sd)):
            continue
        st = touched(os.path.join(sd, "patch.diff"))
        cand = [r for r in refs if rt[r] & st]
        if not everything:
            rng.shuffle(cand)
            cand = cand[:k * 3]          # many will not apply; keep going until k did (decided after the run)
        jobs += [(sd, r) for r in cand]
    res = {}
    with ThreadPoolExecutor(max_workers=j) as ex:
        for sid, ref, status, info in ex.map(one, jobs):
            res.setdefault(sid, []).append((ref, status, info))
            if status in ("MISSED", "CRASH"):
                print("%s %s on %s %s" % (status, sid, ref, info), flush=True)
    tot = {"detected": 0, "MISSED": 0, "noapply": 0, "nocompile": 0, "CRASH": 0}
    for sid, lst in res.items():
        for _, status, _ in lst:
            tot[status] += 1
    print("stack test: %s" % tot)
    return 1 if tot["MISSED"] or tot["CRASH"] else 0


if __name__ == "__main__":
    sys.exit(main())
