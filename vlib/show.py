"""debug helper: python3 vlib/show.py K1 [substring]  -- dump MIR facts of matching functions"""
import sys, os
sys.path.insert(0, os.path.dirname(os.path.dirname(os.path.abspath(__file__))))
from vlib import extract, mir, inline
cfg = sys.argv[1]
facts, meta = extract.extract(cfg)
F = mir.Facts(cfg, facts, meta)
if os.environ.get("SHOW_INLINE"):      # SHOW_INLINE=1: the view the rules see
    F = inline.InlinedFacts(F)
if len(sys.argv) < 3:
    for p in sorted(F.fns): print(p, F.fns[p].kind, len(F.fns[p].blocks))
else:
    for p in sorted(F.fns):
        if sys.argv[2] in p and (len(sys.argv) < 4 or p.endswith(sys.argv[3])):
            print(F.fns[p].dump()); print()
