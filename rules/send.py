"""Sender-side rules of the unix backend: FD-BOUND (C15), SEND-CHECK/SEND-PROP (C09),
RETRY-* (C13), FRAG-ROUTE/ONE-PACKET/DEDICATED-LAST (C02/C04), FRAG-CONTIG/HDR-SYM (C01)."""
from vlib.flow import Explorer, Expr, Tracer, edge_label, expr_str, expr_strip_blocks, label_variants
from vlib.mir import callee_name, op_const, op_local, op_place, strip_generics

INF = 10 ** 9


def fns_calling(F, name):
    return [f for f in F.fns.values() if any(strip_generics(callee_name(t)) == name for _, t in f.calls())]


def first_fragment_fn(F):
    """the function that calls libc::sendmsg"""
    c = fns_calling(F, "libc::sendmsg")
    return c[0] if len(c) == 1 else None


def followup_fn(F):
    c = fns_calling(F, "libc::send")
    return c[0] if len(c) == 1 else None


def send_fn(F):
    """the platform send entry point: the caller of the first-fragment transmitter"""
    ff = first_fragment_fn(F)
    if not ff:
        return None
    c = fns_calling(F, strip_generics(ff.path))
    return c[0] if len(c) == 1 else None


def recv_capacity(F):
    """number of descriptors the receiver's control buffer is sized for: the constant K in
    CMSG_SPACE(K * size_of::<c_int>()) feeding malloc in the receiving path"""
    out = []
    for f in F.fns.values():
        names = {strip_generics(callee_name(t)) for _, t in f.calls()}
        if "libc::malloc" not in names or "libc::sendmsg" in names:
            continue
        ex = Expr(f)
        for b, t in f.calls_to("libc::malloc"):
            e = ex.of_operand(t["args"][0])
            k = _find_mul_const(e)
            if k is not None:
                out.append((f, b, k))
    return out


def _find_mul_const(e):
    if not isinstance(e, tuple):
        return None
    if e[0] == "bin" and e[1] == "Mul":
        for x, y in ((e[2], e[3]), (e[3], e[2])):
            if x[0] == "const" and isinstance(x[1], int) and y[0] == "call" and y[1] == "std::mem::size_of":
                return x[1]
    for x in (e[1:] if isinstance(e[0], str) else e):
        if isinstance(x, tuple):
            r = _find_mul_const(x)
            if r is not None:
                return r
    return None


def rule_fd_bound(ctx, cfg, F):
    R = ctx.rule("FD-BOUND", "at every call of the first-fragment transmitter (the only sendmsg) the number of descriptors handed over is bounded "
                 "by the count the receiver's control buffer is sized for (interval analysis of the descriptor vector's length with branch refinement)")
    caps = recv_capacity(F)
    if len(caps) != 1:
        R.violate("anchor-missing:receiver-capacity", "cannot determine the receiver's descriptor capacity (found %d candidates)" % len(caps), config=cfg)
        return
    capf, capb, C = caps[0]
    R.instance("receiver control buffer sized for %d descriptors in %s" % (C, capf.path), capf.loc(capb), cfg)
    ff = first_fragment_fn(F)
    sf = send_fn(F)
    if not ff or not sf:
        R.violate("anchor-missing:send", "cannot locate the sendmsg wrapper / its caller", config=cfg)
        return
    f = sf
    tr = Tracer(f)
    ffname = strip_generics(ff.path)
    sites = [(b, t) for b, t in f.calls() if strip_generics(callee_name(t)) == ffname]
    # the descriptor vector: the Vec<i32> local the &[c_int] argument derives from
    vec_locals = set()
    fd_arg = None
    for i in range(1, ff.argc + 1):
        if ff.local_ty(i) in ("&[i32]",):
            fd_arg = i - 1
    if fd_arg is None:
        R.violate("anchor-missing:fd-slice-param", "the sendmsg wrapper has no &[c_int] parameter", ff.path, config=cfg)
        return
    for b, t in sites:
        for r in tr.roots_of_operand(t["args"][fd_arg]):
            if r.kind in ("call", "local") and "Vec<i32>" in f.local_ty(_root_local(f, tr, t["args"][fd_arg])):
                vec_locals.add(_root_local(f, tr, t["args"][fd_arg]))
    if len(vec_locals) != 1:
        R.violate("anchor-missing:fd-vector", "descriptor list is not a single Vec<c_int> local (%s)" % sorted(vec_locals), f.path, config=cfg)
        return
    V = next(iter(vec_locals))
    ex = Explorer(f)
    worst = {}
    loop_blocks = set()
    for h in f.loop_headers():
        loop_blocks |= f.natural_loop(h)

    def is_V(operand):
        l = _root_local(f, tr, operand)
        return l == V

    def step(b, st, env):
        lo, hi, snaps = st
        snaps = set(snaps)
        for s in f.stmts(b):
            if s["s"] == "assign" and not s["lhs"].get("p") and s["rv"]["r"] in ("use", "cast"):
                src = op_local(s["rv"]["a"][0])
                if src in snaps:
                    snaps.add(s["lhs"]["l"])
                else:
                    snaps.discard(s["lhs"]["l"])
        t = f.term(b)
        if t["t"] == "call":
            name = strip_generics(callee_name(t))
            if name in ("std::vec::Vec::new", "std::vec::Vec::with_capacity") and t["dest"]["l"] == V:
                lo, hi = 0, 0
            elif name == "std::vec::Vec::push" and is_V(t["args"][0]):
                if b in loop_blocks:
                    hi = INF      # widening: a push inside a loop is unbounded
                else:
                    lo, hi = lo + 1, (hi + 1 if hi < INF else INF)
                snaps = set()
            elif name in ("std::vec::Vec::extend", "std::vec::Vec::extend_from_slice", "std::vec::Vec::append", "std::vec::Vec::insert", "std::vec::Vec::resize") and is_V(t["args"][0]):
                hi = INF
                snaps = set()
            elif name in ("std::vec::Vec::len", "core::slice::len") and is_V(t["args"][0]):
                snaps.add(t["dest"]["l"])
            elif name == ffname:
                cur = worst.get(b, (0, -1))
                if hi > cur[1]:
                    worst[b] = (lo, hi)
            if not t["dest"].get("p") and name not in ("std::vec::Vec::len", "core::slice::len"):
                snaps.discard(t["dest"]["l"])
        return (lo, hi, frozenset(snaps))

    def edge(b, s, labs, st, env):
        lo, hi, snaps = st
        for lab in labs:
            if lab["kind"] != "cmp":
                continue
            la, lb = op_local(lab["a"]), op_local(lab["b"])
            ca, cb = _const_operand(f, lab["a"]), _const_operand(f, lab["b"])
            op, truth = lab["op"], lab["truth"]
            if la in snaps and cb is not None:
                lo, hi = _refine(lo, hi, op, cb, truth)
            elif lb in snaps and ca is not None:
                lo, hi = _refine(lo, hi, _flip(op), ca, truth)
        if lo > hi:
            return None
        return (lo, hi, snaps)

    ex.walk(0, (0, INF, frozenset()), step, edge=edge)
    for b, t in sites:
        lo, hi = worst.get(b, (0, INF))
        key = "%s:site%d" % (f.path, sites.index((b, t)))
        if hi > C:
            R.violate("%s:unbounded-descriptor-count:%s" % (f.path, _site_role(f, b)),
                      "the %s transmission can carry %s descriptors but the receiver's control buffer holds %d: an over-full message is accepted, "
                      "truncated by the kernel (MSG_CTRUNC is never inspected) and mis-delivered" % (_site_role(f, b), "an unbounded number of" if hi >= INF else "up to %d" % hi, C),
                      f.path, f.loc(b), config=cfg)
        else:
            R.ok("%s transmission carries at most %d descriptors (capacity %d)" % (_site_role(f, b), hi, C), f.loc(b), cfg)
    R.count("first_fragment_sites[%s]" % cfg, len(sites))


def _site_role(f, b):
    """'single-packet' or 'fragmented' according to whether a channel() call dominates the site"""
    for b2, t2 in f.calls():
        if strip_generics(callee_name(t2)).endswith("::channel") and f.dominates(b2, b):
            return "fragmented"
    return "single-packet"


def _root_local(f, tr, operand):
    """the local a reference/slice operand ultimately designates (following derefs/index/transparent calls)"""
    l = op_local(operand)
    seen = set()
    while l is not None and l not in seen:
        seen.add(l)
        ds = [d for d in f.defs().get(l, []) if not f.is_cleanup(d[0])]
        if len(ds) != 1:
            return l
        b, si, node = ds[0]
        if si is None:
            name = strip_generics(callee_name(node))
            decl = strip_generics(node.get("callee") or "")
            if decl in ("std::ops::Index::index", "std::ops::Deref::deref", "std::ops::DerefMut::deref_mut", "std::ops::IndexMut::index_mut") or name in ("std::vec::Vec::as_slice",):
                l = op_local(node["args"][0])
                continue
            return l
        rv = node["rv"]
        if rv["r"] in ("ref", "raw"):
            pl = rv["pl"]
            if pl.get("p") in (None, [], ["*"]):
                l = pl["l"]
                continue
            return l
        if rv["r"] in ("use", "cast"):
            nl = op_local(rv["a"][0])
            if nl is None:
                return l
            l = nl
            continue
        return l
    return l


def _const_operand(f, operand):
    c = op_const(operand)
    if c is not None:
        return c
    l = op_local(operand)
    if l is None:
        return None
    ds = [d for d in f.defs().get(l, []) if not f.is_cleanup(d[0])]
    if len(ds) == 1 and ds[0][1] is not None and ds[0][2]["rv"]["r"] in ("use", "cast"):
        return _const_operand(f, ds[0][2]["rv"]["a"][0])
    return None


def _flip(op):
    return {"Lt": "Gt", "Le": "Ge", "Gt": "Lt", "Ge": "Le", "Eq": "Eq", "Ne": "Ne"}[op]


def _refine(lo, hi, op, c, truth):
    if not truth:
        op = {"Lt": "Ge", "Le": "Gt", "Gt": "Le", "Ge": "Lt", "Eq": "Ne", "Ne": "Eq"}[op]
    if op == "Lt":
        hi = min(hi, c - 1)
    elif op == "Le":
        hi = min(hi, c)
    elif op == "Gt":
        lo = max(lo, c + 1)
    elif op == "Ge":
        lo = max(lo, c)
    elif op == "Eq":
        lo, hi = max(lo, c), min(hi, c)
    return lo, hi
