"""Fact base access: functions, CFG views, dominators, provenance, edge labelling.

Everything in here is generic machinery over the JSON the driver emits; no rule lives here.
"""
import json
import re
from collections import defaultdict, deque


# ----------------------------------------------------------------------------- rendering

def place_str(pl):
    s = "_%d" % pl["l"]
    for e in pl.get("p", []):
        if e == "*":
            s = "(*%s)" % s
        elif "f" in e:
            s += "." + (e["n"] or str(e["f"]))
        elif "v" in e:
            s = "(%s as %s)" % (s, e["n"] or e["v"])
        elif "i" in e:
            s += "[_%d]" % e["i"]
        elif "ci" in e:
            s += "[%s%d]" % ("-" if e["e"] else "", e["ci"])
        else:
            s += "{%s}" % e.get("o", "?")
    return s


def op_str(op):
    k = op["k"]
    if k in ("cp", "mv"):
        return ("move " if k == "mv" else "") + place_str(op["pl"])
    if k == "c":
        if "fn" in op:
            return "fn:" + op["fn"]
        if "v" in op:
            return "const %s%s" % (op["v"], ("(" + op["path"] + ")") if "path" in op else "")
        if "pv" in op:
            return "const &%s" % op["pv"]
        if "static" in op:
            return "static:" + op["static"]
        return "const " + op.get("s", "?")[:60]
    return "?" + op.get("s", "")


def rv_str(rv):
    r = rv["r"]
    if r == "use":
        return op_str(rv["a"][0])
    if r in ("ref", "raw"):
        return "&%s %s" % (rv["m"], place_str(rv["pl"]))
    if r == "bin":
        return "%s(%s, %s)" % (rv["op"], op_str(rv["a"][0]), op_str(rv["a"][1]))
    if r == "un":
        return "%s(%s)" % (rv["op"], op_str(rv["a"][0]))
    if r == "cast":
        return "%s as %s [%s]" % (op_str(rv["a"][0]), rv["t"], rv["ck"])
    if r == "discr":
        return "discriminant(%s) [%s]" % (place_str(rv["pl"]), rv["adt"])
    if r == "agg":
        k = rv["kind"]
        if "adt" in k:
            name = "%s::%s" % (k["adt"], k["variant"])
        elif "closure" in k:
            name = "closure:" + k["closure"]
        elif "tuple" in k:
            name = "tuple"
        elif "array" in k:
            name = "array"
        else:
            name = str(k)
        return "%s{%s}" % (name, ", ".join(op_str(a) for a in rv["a"]))
    if r == "tls":
        return "tls:" + rv["path"]
    if r == "repeat":
        return "[%s; _]" % op_str(rv["a"][0])
    return "other:" + rv.get("s", "")


def term_str(t):
    k = t["t"]
    if k == "goto":
        return "goto -> bb%d" % t["to"]
    if k == "switch":
        return "switch(%s) [%s, otherwise: bb%d]" % (
            op_str(t["on"]), ", ".join("%s: bb%d" % (v, b) for v, b in t["arms"]), t["otherwise"])
    if k == "call":
        callee = t.get("resolved") or t.get("callee") or ("indirect " + op_str(t["indirect"]))
        return "%s = %s(%s) -> %s  [decl %s]" % (
            place_str(t["dest"]), callee, ", ".join(op_str(a) for a in t["args"]),
            ("bb%d" % t["to"]) if t["to"] >= 0 else "!", t.get("callee", "-"))
    if k == "drop":
        return "drop(%s: %s) -> bb%d" % (place_str(t["pl"]), t["ty"], t["to"])
    if k == "assert":
        return "assert(%s == %s, %s) -> bb%d" % (op_str(t["cond"]), t["expected"], t["msg"], t["to"])
    if k == "return":
        return "return"
    return k + " " + t.get("txt", "")


# ----------------------------------------------------------------------------- operands

def op_place(op):
    return op["pl"] if op["k"] in ("cp", "mv") else None


def op_local(op):
    """bare local (no projection) or None"""
    if op["k"] in ("cp", "mv") and not op["pl"].get("p"):
        return op["pl"]["l"]
    return None


def op_const(op):
    if op["k"] == "c" and "v" in op:
        return op["v"]
    return None


def place_key(pl):
    """hashable identity of a place"""
    out = [pl["l"]]
    for e in pl.get("p", []):
        if e == "*":
            out.append("*")
        elif "f" in e:
            out.append(("f", e["f"]))
        elif "v" in e:
            out.append(("v", e["v"]))
        elif "i" in e:
            out.append(("i", e["i"]))
        elif "ci" in e:
            out.append(("ci", e["ci"], e["e"]))
        else:
            out.append(("o", e.get("o")))
    return tuple(out)


def place_fields(pl):
    return [e["n"] for e in pl.get("p", []) if isinstance(e, dict) and "f" in e]


# ----------------------------------------------------------------------------- function

class Fn:
    def __init__(self, raw, facts):
        self.raw = raw
        self.facts = facts
        self.path = raw["path"]
        self.kind = raw["kind"]
        self.file = raw["file"]
        self.line = raw["line"]
        self.argc = raw["argc"]
        self.blocks = raw["blocks"]
        self.locals = raw["locals"]
        self.names = {int(k): v for k, v in raw["names"].items()}
        self.parent = raw.get("parent")
        self.impl_trait = raw.get("impl_trait", "")
        self.impl_self = raw.get("impl_self", "")
        self.vis = raw.get("vis", "")
        self._normal_succ = None
        self._preds = None
        self._dom = None
        self._pdom = None
        self._defs = None

    # --- basic
    def __repr__(self):
        return "<Fn %s>" % self.path

    def local_ty(self, l):
        return self.locals[l]["t"]

    def local_adt(self, l):
        return self.locals[l]["adt"]

    def lname(self, l):
        return self.names.get(l, "_%d" % l)

    def term(self, b):
        return self.blocks[b]["term"]

    def stmts(self, b):
        return self.blocks[b]["st"]

    def is_cleanup(self, b):
        return self.blocks[b]["cleanup"]

    def loc(self, b, i=None):
        """file:line of statement i (or the terminator) of block b"""
        if i is None or i >= len(self.blocks[b]["st"]):
            ln = self.blocks[b]["term"].get("ln", self.line)
        else:
            ln = self.blocks[b]["st"][i].get("ln", self.line)
        src = self.blocks[b].get("src")
        return "%s:%s" % (src["file"] if src else self.file, ln)

    # --- CFG
    def succ(self, b):
        """normal-edge successors (unwind edges and assert-failure edges are not part of it)"""
        if self._normal_succ is None:
            self._normal_succ = [self._succ(i) for i in range(len(self.blocks))]
        return self._normal_succ[b]

    def _succ(self, b):
        t = self.blocks[b]["term"]
        k = t["t"]
        if k == "goto":
            return [t["to"]]
        if k == "switch":
            out = []
            for _, tb in t["arms"]:
                if tb not in out:
                    out.append(tb)
            if t["otherwise"] not in out:
                out.append(t["otherwise"])
            return out
        if k == "call":
            return [t["to"]] if t["to"] >= 0 else []
        if k in ("drop", "assert"):
            return [t["to"]]
        if k == "other":
            # FalseEdge / FalseUnwind / Yield etc. do not survive to optimized MIR of this crate
            m = re.findall(r"bb(\d+)", t.get("txt", ""))
            return [int(x) for x in m[:1]]
        return []

    def preds(self, b):
        if self._preds is None:
            p = defaultdict(list)
            for i in range(len(self.blocks)):
                for s in self.succ(i):
                    p[s].append(i)
            self._preds = p
        return self._preds[b]

    def reachable(self, start=0, avoid=()):
        """blocks reachable from start on normal edges, not passing *through* blocks in avoid
        (start itself is entered even if in avoid)"""
        avoid = set(avoid)
        seen = {start}
        dq = deque([start])
        while dq:
            b = dq.popleft()
            if b in avoid and b != start:
                continue
            for s in self.succ(b):
                if s not in seen:
                    seen.add(s)
                    dq.append(s)
        return seen

    def reach_from_edge(self, frm, to, avoid=()):
        """blocks reachable when taking the edge frm->to"""
        return self.reachable_multi([to], avoid)

    def reachable_multi(self, starts, avoid=()):
        avoid = set(avoid)
        seen = set(starts)
        dq = deque(starts)
        while dq:
            b = dq.popleft()
            if b in avoid:
                continue
            for s in self.succ(b):
                if s not in seen:
                    seen.add(s)
                    dq.append(s)
        return seen

    def return_blocks(self):
        return [i for i, b in enumerate(self.blocks) if b["term"]["t"] == "return"]

    def live_blocks(self):
        return self.reachable(0)

    def dominators(self):
        """dom[b] = set of blocks dominating b (normal-edge CFG from entry)"""
        if self._dom is None:
            live = sorted(self.live_blocks())
            allb = set(live)
            dom = {b: set(allb) for b in live}
            dom[0] = {0}
            changed = True
            while changed:
                changed = False
                for b in live:
                    if b == 0:
                        continue
                    ps = [p for p in self.preds(b) if p in allb]
                    new = set(allb)
                    for p in ps:
                        new &= dom[p]
                    new.add(b)
                    if new != dom[b]:
                        dom[b] = new
                        changed = True
            self._dom = dom
        return self._dom

    def dominates(self, a, b):
        d = self.dominators()
        if b in d and a in d[b]:
            return True
        # a body with helpers spliced in has extra edges that no execution takes (the helper's `return Err(..)` followed by the caller's `?` "continuing");
        # there, "a dominates b" is decided on feasible paths.  Bodies without inlined code are not affected.
        if b in d and self.raw.get("inlined") and a != b:
            cache = self.__dict__.setdefault("_feasible_dom", {})
            if (a, b) not in cache:
                from .flow import feasible_reach_without
                cache[(a, b)] = not feasible_reach_without(self, [b], [a])
            return cache[(a, b)]
        return False

    def dominates_cfg(self, a, b):
        d = self.dominators()
        return b in d and a in d[b]

    def back_edges(self):
        d = self.dominators()
        out = []
        for b in d:
            for s in self.succ(b):
                if s in d[b]:
                    out.append((b, s))
        return out

    def natural_loop(self, header):
        """blocks of all natural loops with this header"""
        body = {header}
        for (t, h) in self.back_edges():
            if h != header:
                continue
            stack = [t]
            while stack:
                x = stack.pop()
                if x in body:
                    continue
                body.add(x)
                stack.extend(self.preds(x))
        return body

    def loop_blocks(self):
        """blocks inside any natural loop"""
        out = set()
        for h in self.loop_headers():
            out |= self.natural_loop(h)
        return out

    def loop_headers(self):
        return sorted({h for _, h in self.back_edges()})

    def all_paths_pass(self, start, targets, stop_at_return=True):
        """True iff every normal path from block `start` to a Return passes through a block in
        `targets`.  Returns (ok, witness_path) where witness is a block path avoiding targets."""
        targets = set(targets)
        if start in targets:
            return True, None
        prev = {start: None}
        dq = deque([start])
        while dq:
            b = dq.popleft()
            if self.term(b)["t"] == "return":
                path = []
                x = b
                while x is not None:
                    path.append(x)
                    x = prev[x]
                if True:
                    # the witness may be a path no execution takes (see dominates): decide on feasible paths
                    from .flow import feasible_reach_without
                    rets = [r for r in self.live_blocks() if self.term(r)["t"] == "return"]
                    key = ("app", start, frozenset(targets))
                    cache = self.__dict__.setdefault("_feasible_dom", {})
                    if key not in cache:
                        cache[key] = not feasible_reach_without(self, rets, targets, start=start)
                    if cache[key]:
                        return True, None
                return False, path[::-1]
            for s in self.succ(b):
                if s in targets or s in prev:
                    continue
                prev[s] = b
                dq.append(s)
        return True, None

    def find_path(self, start, goal_pred, avoid=()):
        """shortest normal path from start to a block satisfying goal_pred, avoiding blocks"""
        avoid = set(avoid)
        prev = {start: None}
        dq = deque([start])
        while dq:
            b = dq.popleft()
            if goal_pred(b) and b != start:
                path = []
                x = b
                while x is not None:
                    path.append(x)
                    x = prev[x]
                return path[::-1]
            for s in self.succ(b):
                if s in avoid or s in prev:
                    continue
                prev[s] = b
                dq.append(s)
        return None

    # --- calls
    def calls(self, live_only=True, include_cleanup=False):
        live = self.live_blocks() if live_only else range(len(self.blocks))
        for b in sorted(live):
            if self.is_cleanup(b) and not include_cleanup:
                continue
            t = self.term(b)
            if t["t"] == "call":
                yield b, t

    def calls_to(self, *names, **kw):
        for b, t in self.calls(**kw):
            if callee_is(t, *names):
                yield b, t

    # --- defs
    def defs(self):
        """local -> list of (block, stmt_index or None for call dest, rvalue-or-term)"""
        if self._defs is None:
            d = defaultdict(list)
            live = self.live_blocks()
            for bi, blk in enumerate(self.blocks):
                if bi not in live and not blk.get("cleanup"):
                    continue          # cut off by a decision made while splicing a helper in (a switch on a literal argument): not a definition that can reach anything
                for si, st in enumerate(blk["st"]):
                    if st["s"] == "assign":
                        d[st["lhs"]["l"]].append((bi, si, st))
                t = blk["term"]
                if t["t"] == "call":
                    d[t["dest"]["l"]].append((bi, None, t))
            self._defs = d
        return self._defs

    def dump(self):
        out = ["fn %s  [%s:%s] kind=%s trait=%s" % (self.path, self.file, self.line, self.kind, self.impl_trait)]
        for l in self.locals:
            out.append("    let _%d: %s%s" % (l["i"], l["t"], ("   // " + self.names[l["i"]]) if l["i"] in self.names else ""))
        for bi, blk in enumerate(self.blocks):
            out.append("  bb%d%s:" % (bi, " (cleanup)" if blk["cleanup"] else ""))
            for st in blk["st"]:
                if st["s"] == "assign":
                    out.append("    %s = %s    // L%s" % (place_str(st["lhs"]), rv_str(st["rv"]), st.get("ln")))
                elif st["s"] == "setdiscr":
                    out.append("    discriminant(%s) = %s" % (place_str(st["lhs"]), st["vi"]))
                else:
                    out.append("    " + st.get("txt", "?"))
            out.append("    " + term_str(blk["term"]) + "    // L%s" % blk["term"].get("ln"))
        return "\n".join(out)


def callee_name(t):
    """preferred name of a call terminator's target: resolved instance path, else declared"""
    return t.get("resolved") or t.get("callee") or ""


def callee_names(t):
    return {n for n in (t.get("resolved"), t.get("callee")) if n}


def strip_generics(path):
    """`std::vec::Vec::<T>::push` -> `std::vec::Vec::push` ; `<A as B>::f` left alone"""
    out = []
    depth = 0
    i = 0
    while i < len(path):
        c = path[i]
        if c == "<" and (i >= 2 and path[i - 2:i] == "::"):
            # turbofish generic list
            depth += 1
            if out[-2:] == [":", ":"]:
                out = out[:-2]
            i += 1
            continue
        if depth > 0:
            if c == "<":
                depth += 1
            elif c == ">" and (i == 0 or path[i - 1] != "-"):
                depth -= 1
            i += 1
            continue
        out.append(c)
        i += 1
    return "".join(out)


def callee_is(t, *names):
    """match a call against names; names are compared after stripping turbofish generics"""
    cands = {strip_generics(n) for n in callee_names(t)}
    for n in names:
        if n in cands:
            return True
    return False


# ----------------------------------------------------------------------------- facts

class Facts:
    def __init__(self, config, data, meta=None):
        self.config = config
        self.meta = meta or {}
        self.fns = {}
        for raw in data["fns"]:
            self.fns[raw["path"]] = Fn(raw, self)
        self.adts = {a["path"]: a for a in data["adts"]}
        self.impls = data.get("impls", [])
        self.traits = data.get("traits", [])
        self.consts = {c["path"]: c for c in data.get("consts", [])}

    def fn(self, path):
        return self.fns.get(path)

    def fns_where(self, pred):
        return [f for f in self.fns.values() if pred(f)]

    def children(self, f):
        """closures (and nested fns) directly inside f"""
        return [g for g in self.fns.values() if g.parent == f.path]

    def closure_tree(self, f):
        out = [f]
        for c in self.children(f):
            out.extend(self.closure_tree(c))
        return out

    def fns_calling(self, *names):
        out = []
        for f in self.fns.values():
            for b, t in f.calls():
                if callee_is(t, *names):
                    out.append((f, b, t))
        return out

    def impls_of(self, adt_path):
        return [i for i in self.impls if i["self_adt"] == adt_path]

    def has_impl(self, adt_path, trait):
        return any(i["trait"] == trait for i in self.impls_of(adt_path))

    def drop_fn(self, adt_path):
        a = self.adts.get(adt_path)
        if a and a.get("drop"):
            return self.fns.get(a["drop"])
        return None


def load(path, config="?"):
    with open(path) as f:
        return Facts(config, json.load(f))
