"""C18: NULL-GUARD, SETLEN-CAP (ALLOC-PAIR is the typestate engine of rules/fd.py in its memory domain)."""
from vlib.flow import Expr, Tracer, edge_label, expr_str, expr_strip_blocks, ref_place, value_reaches_place
from vlib.mir import callee_name, op_const, op_local, op_place, strip_generics
from rules.send import _root_local

NONNULL_APIS = ("std::slice::from_raw_parts", "std::slice::from_raw_parts_mut")
# storing one element through a raw pointer (`p.add(i).write(v)`, the fill written as a loop) needs a non-null pointer just the same
NONNULL_WRITES = ("std::ptr::mut_ptr::write", "std::ptr::write", "std::ptr::mut_ptr::write_volatile", "std::ptr::write_volatile")
# ... and so does a memset of the region (`ptr::write_bytes(p, byte, n)`, the fill written without a slice)
NONNULL_FILLS = ("std::ptr::write_bytes", "std::ptr::mut_ptr::write_bytes")
NULL_MAKERS = ("std::ptr::null_mut", "std::ptr::null")


def nullable_returns(F):
    """crate functions whose return value (component) can be a null pointer: {fn path: set(component index or None)}"""
    out = {}
    for f in F.fns.values():
        if "*mut" not in f.local_ty(0) and "*const" not in f.local_ty(0):
            continue
        tr = Tracer(f)
        comps = set()
        for comp in (None, 0, 1, 2):
            path = () if comp is None else (("f", comp, ""),)
            for r in tr.roots(0, path):
                if r.kind == "call" and r.id in NULL_MAKERS:
                    comps.add(comp)
        if comps:
            out[strip_generics(f.path)] = comps
    return out


def null_tested_fields(F):
    """(adt, field) for which some function of the crate tests `self.field.is_null()`: a stated belief that null occurs"""
    out = {}
    for f in F.fns.values():
        tr = None
        for b, t in f.calls():
            if strip_generics(callee_name(t)) in ("std::ptr::mut_ptr::is_null", "std::ptr::const_ptr::is_null"):
                tr = tr or Tracer(f)
                for r in tr.roots_of_operand(t["args"][0]):
                    if r.kind == "param" and r.field_names():
                        out.setdefault((f.local_adt(r.id), r.field_names()[0]), []).append(f.path)
    return out


def rule_null_guard(ctx, cfg, F):
    R = ctx.rule("NULL-GUARD", "a pointer that can be null (result of a function with a null-returning path, or a field some method tests for null) "
                 "reaches slice::from_raw_parts / from_raw_parts_mut only where a non-null (or non-zero-length) edge dominates the call")
    nret = nullable_returns(F)
    nfld = null_tested_fields(F)
    n = 0
    for f in sorted(F.fns.values(), key=lambda x: x.path):
        if f.file.endswith("test.rs"):
            continue
        tr = None
        for b, t in f.calls():
            name = strip_generics(callee_name(t))
            if name not in NONNULL_APIS and name not in NONNULL_WRITES and name not in NONNULL_FILLS:
                continue
            n += 1
            tr = tr or Tracer(f)
            roots = tr.roots_of_operand(t["args"][0])
            why = []
            for r in roots:
                if r.kind == "call" and r.id in nret:
                    comp = r.field_idx()[:1]
                    if (comp and comp[0] in nret[r.id]) or None in nret[r.id]:
                        why.append("result of %s, which returns null on one of its paths" % r.id)
                elif r.kind == "call" and r.id in NULL_MAKERS:
                    why.append("ptr::null")
                elif r.kind == "param" and r.field_names():
                    k = (f.local_adt(r.id), r.field_names()[0])
                    if k in nfld:
                        why.append("field %s.%s, which %s tests for null" % (k[0], k[1], nfld[k][0]))
            if not why:
                R.ok("%s in %s: pointer cannot be null (%s)" % (name.split("::")[-1], f.path, ", ".join(sorted(map(repr, roots)))[:80]), f.loc(b), cfg)
                continue
            len_op = t["args"][1] if len(t["args"]) > 1 and name in NONNULL_APIS else (t["args"][2] if len(t["args"]) > 2 and name in NONNULL_FILLS else None)
            if _guarded(f, tr, b, t["args"][0], len_op):
                R.ok("%s in %s: nullable pointer (%s) guarded by a dominating non-null / non-zero-length edge" % (name.split("::")[-1], f.path, why[0]), f.loc(b), cfg)
            else:
                R.violate("%s:%s:nullable-pointer-unguarded" % (strip_generics(f.path), name.split("::")[-1]),
                          "%s is called with a pointer that can be null (%s) and no dominating non-null test: for a zero-length region this is "
                          "undefined behaviour (aborts in debug builds)" % (name, why[0]), f.path, f.loc(b), config=cfg)
    R.count("nonnull_api_sites[%s]" % cfg, n)


def _guarded(f, tr, b, ptr_op, len_op):
    proots = {r.key() for r in tr.roots_of_operand(ptr_op)}
    lroots = {r.key() for r in tr.roots_of_operand(len_op)} if len_op is not None else set()
    for s in f.live_blocks():
        if f.term(s)["t"] != "switch" or not f.dominates(s, b) or s == b:
            continue
        for tgt in f.succ(s):
            if not (tgt == b or f.dominates(tgt, b)):
                continue
            # the edge s->tgt must be the only way from s to b
            others = [x for x in f.succ(s) if x != tgt]
            if any(b in f.reachable(x, avoid=[tgt]) for x in others):
                continue
            for lab in edge_label(f, s, tgt):
                if lab["kind"] == "pred" and lab["pred"] == "is_null" and not lab["truth"]:
                    if {r.key() for r in tr.roots_of_operand(lab["arg"])} & proots:
                        return True
                if lab["kind"] == "cmp":
                    ca, cb = op_const(lab["a"]), op_const(lab["b"])
                    other = lab["b"] if ca is not None else lab["a"]
                    c = ca if ca is not None else cb
                    if c == 0 and {r.key() for r in tr.roots_of_operand(other)} & lroots:
                        op, truth = lab["op"], lab["truth"]
                        nonzero = (op == "Eq" and not truth) or (op == "Ne" and truth) or (op == "Gt" and truth and cb == 0) or (op == "Lt" and truth and ca == 0)
                        if nonzero:
                            return True
    return False


def _calls_recvmsg(F, name, depth=0, seen=None):
    seen = seen or set()
    if name in seen or depth > 4:
        return False
    seen.add(name)
    g = F.fns.get(name) or next((x for x in F.fns.values() if strip_generics(x.path) == name), None)
    if not g:
        return False
    for _, t in g.calls():
        n = strip_generics(callee_name(t))
        if n in ("libc::recvmsg", "libc::recv", "libc::read"):
            return True
        if _calls_recvmsg(F, n, depth + 1, seen):
            return True
    return False


def _contains_call(e, pred):
    if not isinstance(e, tuple):
        return False
    if e and e[0] == "call" and pred(e[1]):
        return True
    return any(_contains_call(x, pred) for x in e if isinstance(x, tuple))


def rule_setlen_cap(ctx, cfg, F):
    R = ctx.rule("SETLEN-CAP", "every Vec::set_len(n) is justified: n equals the vector's with_capacity argument; or an `n <= capacity()` edge dominates it; "
                 "or n = (bytes returned by the receive) - header after a justified set_len; or n = W + max(r,0) where r = recv(.., E - W) and E is the "
                 "length just established under a capacity check")
    n_sites = 0
    for f in sorted(F.fns.values(), key=lambda x: x.path):
        if f.file.endswith("test.rs"):
            continue
        sites = [(b, t) for b, t in f.calls() if strip_generics(callee_name(t)) == "std::vec::Vec::set_len"]
        if not sites:
            continue
        ex = Expr(f)
        tr = Tracer(f)
        justified = {}
        order = sorted(sites, key=lambda bt: len(f.dominators().get(bt[0], ())))
        for b, t in order:
            n_sites += 1
            V = ref_place(f, t["args"][0]) or _root_local(f, tr, t["args"][0])
            n_expr = ex.of_operand(t["args"][1])
            n_key = expr_strip_blocks(n_expr)
            why = None
            # (a) same origin as with_capacity of the same vector
            for b2, t2 in f.calls_to("std::vec::Vec::with_capacity"):
                dest_roots = _flows_to(f, t2["dest"]["l"], V)
                if dest_roots and f.dominates(b2, b):
                    cap_key = expr_strip_blocks(ex.of_operand(t2["args"][0]))
                    if cap_key == n_key and _pure(n_key):
                        why = "n is the with_capacity argument (%s)" % expr_str(n_expr)
            # (a2) n is the vector's own capacity
            if not why and n_key[0] == "call" and n_key[1] == "std::vec::Vec::capacity":
                cb = _def_call_block(f, t["args"][1])
                if cb is not None and (ref_place(f, f.term(cb)["args"][0]) or _root_local(f, tr, f.term(cb)["args"][0])) == V:
                    why = "n is the vector's own capacity()"
            # (b) dominated by the true edge of n <= capacity(V)
            if not why:
                for s in f.live_blocks():
                    if f.term(s)["t"] != "switch" or not f.dominates(s, b):
                        continue
                    for tgt in f.succ(s):
                        if not (tgt == b or f.dominates(tgt, b)):
                            continue
                        for lab in edge_label(f, s, tgt):
                            if lab["kind"] != "cmp":
                                continue
                            ea, eb = expr_strip_blocks(ex.of_operand(lab["a"])), expr_strip_blocks(ex.of_operand(lab["b"]))
                            cap_side = lambda e: e[0] == "call" and e[1] == "std::vec::Vec::capacity"
                            le = (lab["op"] == "Le" and lab["truth"] and ea == n_key and cap_side(eb)) or \
                                 (lab["op"] == "Ge" and lab["truth"] and eb == n_key and cap_side(ea)) or \
                                 (lab["op"] == "Gt" and not lab["truth"] and ea == n_key and cap_side(eb)) or \
                                 (lab["op"] == "Lt" and not lab["truth"] and eb == n_key and cap_side(ea))
                            if le:
                                cap_op = lab["b"] if cap_side(eb) else lab["a"]
                                cb = _def_call_block(f, cap_op)
                                if cb is not None and (ref_place(f, f.term(cb)["args"][0]) or _root_local(f, tr, f.term(cb)["args"][0])) == V:
                                    why = "dominated by the edge n <= capacity()"
            # (c1) n = R - H, R returned by the receive, after a justified set_len on V
            if not why and n_expr[0] == "bin" and n_expr[1] == "Sub":
                R_, H_ = n_expr[2], n_expr[3]
                prev = [pb for pb in justified if _same_vec(f, justified[pb][0], V) and f.dominates(pb, b)]
                if prev and _contains_call(R_, lambda nm: _calls_recvmsg(F, nm)) and _nonneg(H_):
                    why = "n = bytes received - header, the receive was offered len() bytes established by the set_len at %s" % f.loc(prev[-1])
            # (c2) n = W + max(r, 0), r = recv(.., E - W), E established by a dominating justified set_len
            if not why and n_expr[0] == "bin" and n_expr[1] == "Add":
                for W, M in ((n_expr[2], n_expr[3]), (n_expr[3], n_expr[2])):
                    if M[0] == "call" and M[1].endswith("::unwrap_or") and len(M[2]) == 2 and M[2][1] == ("const", 0) and M[2][0][0] == "call" and M[2][0][1].endswith("try_from") and M[2][0][2]:
                        # `usize::try_from(r).unwrap_or(0)` is max(r, 0) for a signed count
                        M = ("call", "std::cmp::max", (M[2][0][2][0], ("const", 0)))
                    if M[0] == "call" and (M[1] in ("std::cmp::max", "std::cmp::Ord::max") or (M[1].endswith("::max") and "cmp" in M[1])):
                        rcalls = [a for a in M[2] if a[0] == "call" and a[1] in ("libc::recv", "libc::read")]
                        zero = any(a == ("const", 0) for a in M[2])
                        if rcalls and zero:
                            rlen = rcalls[0][2][2]
                            if rlen[0] == "bin" and rlen[1] == "Sub" and expr_strip_blocks(rlen[3]) == expr_strip_blocks(W):
                                E = expr_strip_blocks(rlen[2])
                                prev = [pb for pb in justified if _same_vec(f, justified[pb][0], V) and f.dominates(pb, b) and justified[pb][1] == E]
                                if prev:
                                    why = "n = W + max(r,0) with r = recv(.., E - W) and E <= capacity established at %s" % f.loc(prev[-1])
            # (c2') n = W + usize::try_from(r).unwrap_or(0): the conversion calls are value-transparent for the expression engine, so they are looked up on the operand's chain
            if not why and n_expr[0] == "bin" and n_expr[1] == "Add":
                for W, M in ((n_expr[2], n_expr[3]), (n_expr[3], n_expr[2])):
                    if M[0] == "call" and M[1] in ("libc::recv", "libc::read") and len(M[2]) >= 3:
                        rlen = M[2][2]
                        conv = [(b2, t2) for b2, t2 in f.calls() if strip_generics(callee_name(t2)).endswith("::unwrap_or") and len(t2["args"]) == 2 and op_const(t2["args"][1]) == 0 and
                                any(r.kind == "call" and r.id in ("libc::recv", "libc::read") for r in tr.roots_of_operand(t2["args"][0])) and
                                any(strip_generics(callee_name(f.term(d[0]))).endswith("try_from") for d in f.defs().get(op_local(t2["args"][0]) or -1, []) if d[1] is None)]
                        # (M is the read itself in the expression, and no `as` cast of its result exists: the unsigned count can only have come through the conversion)
                        uses_conv = conv and \
                            not any(st_["s"] == "assign" and st_["rv"]["r"] == "cast" and any(r.kind == "call" and r.id in ("libc::recv", "libc::read") for r in tr.roots_of_operand(st_["rv"]["a"][0]))
                                    for b_ in f.live_blocks() for st_ in f.stmts(b_))
                        if uses_conv and rlen[0] == "bin" and rlen[1] == "Sub" and expr_strip_blocks(rlen[3]) == expr_strip_blocks(W):
                            E = expr_strip_blocks(rlen[2])
                            prev = [pb for pb in justified if _same_vec(f, justified[pb][0], V) and f.dominates(pb, b) and justified[pb][1] == E]
                            if prev:
                                why = "n = W + try_from(r).unwrap_or(0) with r = recv(.., E - W) and E <= capacity established at %s" % f.loc(prev[-1])
            # (c3) n = W + X where X is 0 or the return value of recv(.., E - W) taken only where it is known to be positive (`match r.cmp(&0)`, `if r > 0`)
            if not why and n_expr[0] == "bin" and n_expr[1] == "Add":
                for W, X in ((n_expr[2], n_expr[3]), (n_expr[3], n_expr[2])):
                    if X[0] != "var":
                        continue
                    roots = tr.roots_of_operand({"k": "cp", "pl": {"l": X[1]}})
                    rblocks = {r.block for r in roots if r.kind == "call" and r.id in ("libc::recv", "libc::read")}
                    rest = [r for r in roots if not (r.kind == "call" and r.id in ("libc::recv", "libc::read")) and not (r.kind == "const" and r.id == 0)]
                    if len(rblocks) != 1 or rest:
                        continue
                    rb = next(iter(rblocks))
                    rlen = ex.of_operand(f.term(rb)["args"][2])
                    if not (rlen[0] == "bin" and rlen[1] == "Sub" and expr_strip_blocks(rlen[3]) == expr_strip_blocks(W)):
                        continue
                    E = expr_strip_blocks(rlen[2])
                    prev = [pb for pb in justified if _same_vec(f, justified[pb][0], V) and f.dominates(pb, b) and justified[pb][1] == E]
                    if prev and _only_positive_use(f, tr, rb):
                        why = "n = W + (0 or r where r > 0) with r = recv(.., E - W) and E <= capacity established at %s" % f.loc(prev[-1])
            if why:
                justified[b] = (V, n_key)
                R.ok("%s: set_len(%s) -- %s" % (f.path, expr_str(n_expr)[:60], why), f.loc(b), cfg)
            else:
                R.violate("%s:set_len:unjustified:%s" % (strip_generics(f.path), _shape(n_expr)),
                          "Vec::set_len(%s) in %s is not justified by any of the capacity arguments: the vector may expose uninitialised or out-of-bounds memory" % (expr_str(n_expr)[:80], f.path),
                          f.path, f.loc(b), config=cfg)
    R.count("set_len_sites[%s]" % cfg, n_sites)


def _only_positive_use(f, tr, rb):
    """every conversion of the signed count returned by the read at rb to an unsigned length sits behind an edge that says the count is positive"""
    casts = []
    for b in f.live_blocks():
        for st in f.stmts(b):
            if st["s"] == "assign" and st["rv"]["r"] == "cast" and st["rv"]["a"] and op_place(st["rv"]["a"][0]) is not None:
                rs = tr.roots_of_operand(st["rv"]["a"][0])
                if any(r.kind == "call" and r.block == rb for r in rs) and f.local_ty(st["lhs"]["l"]) in ("usize", "u64", "u32"):
                    casts.append(b)
    if not casts:
        return False
    for cb in casts:
        ok = False
        for s_ in f.live_blocks():
            if f.term(s_)["t"] != "switch" or not f.dominates(s_, cb):
                continue
            for tgt in f.succ(s_):
                if not (tgt == cb or f.dominates(tgt, cb)):
                    continue
                for lab in edge_label(f, s_, tgt):
                    if lab["kind"] == "variant" and lab.get("adt") == "std::cmp::Ordering" and lab.get("variant") == "Greater":
                        rs = tr.roots_of_place(lab["place"])
                        cmpb = [r.block for r in rs if r.kind == "call" and r.id.endswith("::cmp")]
                        for x in cmpb:
                            a = f.term(x)["args"]
                            if len(a) == 2 and any(r.kind == "call" and r.block == rb for r in tr.roots_of_operand(a[0])) and any(r.kind == "const" and r.id == 0 for r in tr.roots_of_operand(a[1])):
                                ok = True
                    if lab["kind"] == "cmp" and ((lab["op"] == "Gt" and lab["truth"]) or (lab["op"] == "Le" and not lab["truth"])):
                        if any(r.kind == "call" and r.block == rb for r in tr.roots_of_operand(lab["a"])) and op_const(lab["b"]) == 0:
                            ok = True
        if not ok:
            return False
    return True


def _pure(e):
    """expression built only from constants, parameters and argument-free crate calls"""
    if not isinstance(e, tuple):
        return True
    if e[0] in ("param", "const"):
        return True
    if e[0] == "call":
        return not e[2]
    if e[0] == "bin":
        return _pure(e[2]) and _pure(e[3])
    return False


def _shape(e):
    if e[0] == "bin":
        return "%s(%s,%s)" % (e[1], _shape(e[2]), _shape(e[3]))
    if e[0] == "call":
        return e[1].split("::")[-1]
    return e[0]


def _nonneg(e):
    return e[0] == "call" and e[1] in ("std::mem::size_of_val", "std::mem::size_of") or (e[0] == "const" and isinstance(e[1], int) and e[1] >= 0)


def _def_call_block(f, operand):
    l = op_local(operand)
    seen = set()
    while l is not None and l not in seen:
        seen.add(l)
        ds = [d for d in f.defs().get(l, []) if not f.is_cleanup(d[0])]
        if len(ds) != 1:
            return None
        b, si, node = ds[0]
        if si is None:
            return b
        if node["rv"]["r"] in ("use", "cast"):
            l = op_local(node["rv"]["a"][0])
            continue
        return None
    return None


def _same_vec(f, a, b):
    """two vector designations (local, or (local, field path)) name the same vector: equal, or the earlier one is moved into the later place"""
    if a == b:
        return True
    if isinstance(a, tuple) and isinstance(b, tuple) and not a[1]:
        return value_reaches_place(f, a[0], b)
    return False


def _flows_to(f, src_local, dst_local):
    """src is moved (possibly through temporaries) into dst"""
    if isinstance(dst_local, tuple):
        return value_reaches_place(f, src_local, dst_local)
    if src_local == dst_local:
        return True
    for (b, si, node) in f.defs().get(dst_local, []):
        if si is not None and node["rv"]["r"] == "use" and op_local(node["rv"]["a"][0]) == src_local:
            return True
    return False


def rule_uaf_guard(ctx, cfg, F):
    """UAF-GUARD: a pointer taken out of an owning guard value is not dereferenced after the guard has been dropped."""
    from rules import fd as _fd
    R = ctx.rule("UAF-GUARD", "a raw pointer read out of a value whose Drop frees it (the control-message buffer of UnixCmsg, a mapping, ...) is not dereferenced on any path "
                 "after that value has been dropped: no load, store, slice construction or copy through such a pointer is reachable from the drop of its owner without passing a fresh creation of the owner")
    Fn_ = F.nodrop() if hasattr(F, "nodrop") else F
    with _fd.domain("mem"):
        own_direct, _own_cont = _fd.owning_fields(Fn_)
    owned = {}
    for (adt, fld) in own_direct:
        owned.setdefault(adt, set()).add(fld)
    n = 0
    for f in sorted(Fn_.fns.values(), key=lambda x: x.path):
        if not f.path.startswith("platform::unix") or f.impl_trait == "std::ops::Drop":
            continue
        guards = {}
        for b in f.live_blocks():
            t = f.term(b)
            if t["t"] == "drop" and not f.is_cleanup(b) and not t["pl"].get("p") and t.get("adt") in owned:
                guards.setdefault(t["pl"]["l"], []).append(b)
        if not guards:
            continue
        tr = Tracer(f)
        # pointer uses: derefs in statements, and pointer arguments of the usual raw-memory functions
        uses = []
        for b in sorted(f.live_blocks()):
            if f.is_cleanup(b):
                continue
            for si, st in enumerate(f.stmts(b)):
                if st["s"] != "assign":
                    continue
                pls = []
                if "*" in (st["lhs"].get("p") or []):
                    pls.append(st["lhs"])
                for o in st["rv"].get("a", []):
                    pl = op_place(o)
                    if pl is not None and "*" in (pl.get("p") or []):
                        pls.append(pl)
                if st["rv"].get("pl") and "*" in (st["rv"]["pl"].get("p") or []) and st["rv"]["r"] not in ("ref", "raw"):
                    pls.append(st["rv"]["pl"])
                for pl in pls:
                    if f.local_ty(pl["l"]).startswith("*"):
                        uses.append((b, si, pl["l"]))
            t = f.term(b)
            if t["t"] == "call" and strip_generics(callee_name(t)) in RAW_USERS:
                for a in t["args"]:
                    l = op_local(a)
                    if l is not None and f.local_ty(l).startswith("*"):
                        uses.append((b, None, l))
        for G, drops in sorted(guards.items()):
            adt = f.term(drops[0])["adt"]
            groots = {(r.kind, r.id, r.block) for r in tr.roots(G)}
            creations = {r[2] for r in groots if r[0] == "call" and r[2] is not None}
            n += 1
            bad = None
            for (ub, usi, pl) in uses:
                proots = _ptr_roots(f, tr, pl)
                derived = [r for r in proots if (r.kind, r.id, r.block) in groots and set(r.field_names()) & owned[adt]] or \
                          [r for r in proots if r.kind == "local" and r.id == G and set(r.field_names()) & owned[adt]]
                if not derived:
                    continue
                for d in drops:
                    to = f.term(d)["to"]
                    if to >= 0 and ub in f.reachable(to, avoid=creations):
                        bad = (d, ub, usi)
                        break
                if bad:
                    break
            if bad:
                d, ub, usi = bad
                R.violate("%s:use-after-drop:%s" % (f.path, adt.split("::")[-1]), "a pointer taken from a %s is dereferenced (%s) on a path after that value was dropped (%s), i.e. after its Drop freed the memory" % (
                    adt, f.loc(ub, usi), f.loc(d)), f.path, f.loc(ub, usi), config=cfg)
            else:
                R.ok("%s: no pointer derived from %s `%s` is used after its drop (%d drop sites)" % (f.path, adt.split("::")[-1], f.lname(G), len(drops)), f.loc(drops[0]), cfg)
    R.count("guards[%s]" % cfg, n)


def _ptr_roots(f, tr, local, depth=0):
    """provenance of a raw pointer, looking through calls that map a pointer to a pointer into the same allocation (CMSG_DATA and the like)"""
    out = set()
    for r in tr.roots(local):
        if r.kind == "call" and r.block is not None and depth < 4:
            t = f.term(r.block)
            if t["t"] == "call" and t["args"] and f.local_ty(t["dest"]["l"]).startswith("*") and op_local(t["args"][0]) is not None and f.local_ty(op_local(t["args"][0])).startswith("*") \
                    and not strip_generics(callee_name(t)).startswith("libc::m"):
                out |= _ptr_roots(f, tr, op_local(t["args"][0]), depth + 1)
                continue
        out.add(r)
    return out


RAW_USERS = ("std::slice::from_raw_parts", "std::slice::from_raw_parts_mut", "std::ptr::copy_nonoverlapping", "std::ptr::copy", "std::ptr::read", "std::ptr::write", "std::ptr::write_bytes",
             "std::ptr::const_ptr::read", "std::ptr::mut_ptr::read", "std::ptr::mut_ptr::write", "std::ptr::read_unaligned", "std::ptr::write_unaligned")


# --------------------------------------------------------------------------- MAP-GUARD

def rule_map_guard(ctx, cfg, F):
    from vlib.flow import relation_of_label
    R = ctx.rule("MAP-GUARD", "around every mmap: the call is reached only where the very length it maps has been tested to be non-zero (a zero-length mmap fails: the received empty region "
                 "must be handled, not mapped), and its result reaches a normal return only through the comparison with MAP_FAILED (mmap reports failure with (void*)-1, not with null)")
    n = 0
    for f in sorted(F.fns.values(), key=lambda x: x.path):
        if not f.path.startswith("platform::unix"):
            continue
        for mb, mt in f.calls_to("libc::mmap"):
            n += 1
            ex = Expr(f)
            tr = Tracer(f)
            L = expr_strip_blocks(ex.of_operand(mt["args"][1]))
            guarded = False
            for s in sorted(f.live_blocks()):
                if f.term(s)["t"] != "switch" or not f.dominates(s, mb):
                    continue
                ok_here, relevant = True, False
                for tgt in f.succ(s):
                    if f.is_cleanup(tgt) or not (tgt == mb or mb in f.reachable(tgt)):
                        continue
                    rels = [relation_of_label(f, lab) for lab in edge_label(f, s, tgt)]
                    # (an unsigned length: `length < 1` is `length == 0`, `length >= 1` is `length > 0`)
                    rels = [(r[0], {"k": "c", "v": 0, "t": "usize"}, ({"eq"} if set(r[2]) == {"lt"} else ({"gt"} if set(r[2]) == {"eq", "gt"} else r[2])))
                            if r is not None and op_const(r[1]) == 1 and set(r[2]) in ({"lt"}, {"eq", "gt"}) else r for r in rels]
                    rels = [r for r in rels if r is not None and op_const(r[1]) == 0 and expr_strip_blocks(ex.of_operand(r[0])) == L]
                    if rels:
                        relevant = True
                    if not any("eq" not in r[2] for r in rels):
                        ok_here = False
                if relevant and ok_here:
                    guarded = True
            if guarded:
                R.ok("%s: mmap is reached only with its length tested non-zero" % f.path, f.loc(mb), cfg)
            else:
                R.violate("%s:zero-length-map" % f.path, "mmap can be reached with a length (%s) that was not tested against zero on that path: a zero-length region (e.g. one received from a peer) makes mmap fail and the receiver panic" % expr_str(L)[:80],
                          f.path, f.loc(mb), config=cfg)
            good = set()
            for s in sorted(f.live_blocks()):
                if f.term(s)["t"] != "switch":
                    continue
                for tgt in f.succ(s):
                    for lab in edge_label(f, s, tgt):
                        if lab["kind"] != "cmp" or lab["op"] not in ("Eq", "Ne"):
                            continue
                        for x, c in ((lab["a"], lab["b"]), (lab["b"], lab["a"])):
                            is_failed = c.get("k") == "c" and ("MAP_FAILED" in (c.get("path") or c.get("s") or "") or op_const(c) in (-1, 2 ** 64 - 1))
                            if is_failed and any(r.kind == "call" and r.block == mb for r in tr.roots_of_operand(x)):
                                differs = lab["truth"] if lab["op"] == "Ne" else not lab["truth"]
                                if differs:
                                    good.add(tgt)
            nxt = mt.get("to", -1)
            if nxt >= 0 and f.all_paths_pass(nxt, good)[0] and good:
                R.ok("%s: the mapping is used only after `!= MAP_FAILED`" % f.path, f.loc(mb), cfg)
            else:
                R.violate("%s:map-failure-unchecked" % f.path, "the result of mmap reaches a normal return without being compared with MAP_FAILED: a failed mapping becomes a region at address -1", f.path, f.loc(mb), config=cfg)
    R.count("mmap_sites[%s]" % cfg, n)


COPIES = {"libc::strncpy": (0, 2), "libc::memcpy": (0, 2), "libc::strcpy": (0, None), "std::ptr::copy_nonoverlapping": (1, 2), "std::intrinsics::copy_nonoverlapping": (1, 2), "std::ptr::copy": (1, 2),
          "std::ptr::write_bytes": (0, 2)}


def _array_dest(f, operand):
    """N when the pointer operand was taken from a fixed-size array `[T; N]` (through as_mut_ptr / casts / reborrows), else None"""
    import re as _re
    l = op_local(operand)
    for _ in range(12):
        if l is None:
            return None
        m = _re.search(r"\[[^\[\];]+; (\d+)\]", f.local_ty(l))
        if m:
            return int(m.group(1))
        ds = [d for d in f.defs().get(l, []) if not f.is_cleanup(d[0])]
        if len(ds) != 1:
            return None
        b, si, node = ds[0]
        if si is None:
            if strip_generics(callee_name(node)).endswith("as_mut_ptr") or strip_generics(callee_name(node)).endswith("as_ptr"):
                l = op_local(node["args"][0])
                continue
            return None
        rv = node["rv"]
        if rv["r"] in ("use", "cast") and op_place(rv["a"][0]) is not None:
            l = rv["a"][0]["pl"]["l"]
            continue
        if rv["r"] in ("ref", "raw"):
            pl = rv["pl"]
            projs = [e for e in pl.get("p", []) if isinstance(e, dict) and "f" in e]
            if projs:
                m = _re.search(r"\[[^\[\];]+; (\d+)\]", projs[-1].get("t", ""))
                return int(m.group(1)) if m else None
            l = pl["l"]
            continue
        return None
    return None


def rule_copy_bound(ctx, cfg, F):
    R = ctx.rule("COPY-BOUND", "a raw copy into a fixed-size array that lives inside a struct (sockaddr_un.sun_path) is limited by that array's own length: the count is len(array) - k, "
                 "min(.., len(array) - k) or a constant that fits -- never just the length of the source")
    n = 0
    for f in sorted(F.fns.values(), key=lambda x: x.path):
        if f.file.endswith("test.rs") or not f.path.startswith("platform::"):
            continue
        ex = None
        for b, t in f.calls():
            nm = strip_generics(callee_name(t))
            if nm not in COPIES:
                continue
            di, ni = COPIES[nm]
            ex = ex or Expr(f)
            dst = expr_strip_blocks(ex.of_operand(t["args"][di]))
            if dst[0] != "field" or _array_dest(f, t["args"][di]) is None:
                continue          # not an array embedded in a local struct (heap blocks and mappings are ALLOC-/SHM- business)
            n += 1
            if ni is None:
                R.violate("%s:unbounded-copy:%s" % (strip_generics(f.path), dst[-1]), "%s copies into the fixed-size field `%s` with no length limit at all" % (nm, dst[-1]), f.path, f.loc(b), config=cfg)
                continue
            cnt = expr_strip_blocks(ex.of_operand(t["args"][ni]))

            def arr_len(e):
                if e[0] == "call" and e[1] in ("core::slice::len", "core::array::len") and e[2] and e[2][0] == dst:
                    return True
                if e[0] == "un" and e[1] in ("PtrMetadata", "len") and e[2] == dst:
                    return True
                return False

            def bounded(e):
                if arr_len(e):
                    return True
                if e[0] == "bin" and e[1] in ("Sub", "SubUnchecked") and arr_len(e[2]) and e[3][0] == "const" and isinstance(e[3][1], int) and e[3][1] >= 0:
                    return True
                if e[0] == "field" and e[1][0] == "bin" and e[1][1] == "SubWithOverflow":
                    return bounded(("bin", "Sub", e[1][2], e[1][3]))
                if e[0] == "call" and (e[1] in ("std::cmp::min", "std::cmp::Ord::min") or e[1].endswith("::min")):
                    return any(bounded(a) for a in e[2])
                return False
            if bounded(cnt):
                R.ok("%s: %s into `%s` is limited by the field's own length (%s)" % (f.path, nm.split("::")[-1], dst[-1], expr_str(cnt)[:60]), f.loc(b), cfg)
            else:
                R.violate("%s:copy-length-not-bounded-by-destination:%s" % (strip_generics(f.path), dst[-1]),
                          "%s copies %s elements into the fixed-size field `%s` in %s: the count does not come from the field's own length, so a longer source writes past the end of the struct" % (
                              nm, expr_str(cnt)[:80], dst[-1], f.path), f.path, f.loc(b), config=cfg)
    R.count("struct_array_copies[%s]" % cfg, n)
