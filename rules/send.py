"""Sender-side rules of the unix backend: FD-BOUND (C15), SEND-CHECK/SEND-PROP (C09),
RETRY-* (C13), FRAG-ROUTE/ONE-PACKET/DEDICATED-LAST (C02/C04), FRAG-CONTIG/HDR-SYM (C01)."""
from vlib.flow import ref_place, Explorer, Expr, Tracer, edge_label, expr_str, expr_strip_blocks, label_variants
from vlib.mir import callee_name, op_const, op_local, op_place, strip_generics

INF = 10 ** 9


def fns_calling(F, name):
    return [f for f in F.fns.values() if any(strip_generics(callee_name(t)) == name for _, t in f.calls())]


def first_fragment_fn(F):
    """the function that calls libc::sendmsg"""
    c = fns_calling(F, "libc::sendmsg")
    return c[0] if len(c) == 1 else None


def followup_fn(F):
    c = fns_calling(F, "libc::send")
    return c[0] if len(c) == 1 else None


def send_fn(F):
    """the platform send entry point: the caller of the first-fragment transmitter"""
    ff = first_fragment_fn(F)
    if not ff:
        return None
    c = fns_calling(F, strip_generics(ff.path))
    return c[0] if len(c) == 1 else None


def recv_capacity(F):
    """number of descriptors the receiver's control buffer is sized for: the constant K in
    CMSG_SPACE(K * size_of::<c_int>()) feeding malloc in the receiving path"""
    out = []
    for f in F.fns.values():
        names = {strip_generics(callee_name(t)) for _, t in f.calls()}
        if "libc::malloc" not in names or "libc::sendmsg" in names:
            continue
        ex = Expr(f)
        for b, t in f.calls_to("libc::malloc"):
            e = ex.of_operand(t["args"][0])
            k = _find_mul_const(e)
            if k is not None:
                out.append((f, b, k))
    return out


def _find_mul_const(e):
    if not isinstance(e, tuple):
        return None
    if e[0] == "bin" and e[1] == "Mul":
        for x, y in ((e[2], e[3]), (e[3], e[2])):
            if x[0] == "const" and isinstance(x[1], int) and y[0] == "call" and y[1] == "std::mem::size_of":
                return x[1]
    for x in (e[1:] if isinstance(e[0], str) else e):
        if isinstance(x, tuple):
            r = _find_mul_const(x)
            if r is not None:
                return r
    return None


_VEC_NON_GROWING = ("std::vec::Vec::len", "std::vec::Vec::pop", "std::vec::Vec::clear", "std::vec::Vec::truncate", "std::vec::Vec::as_mut_slice", "std::vec::Vec::as_mut_ptr",
                    "std::ops::DerefMut::deref_mut", "std::ops::IndexMut::index_mut", "std::vec::Vec::push", "std::vec::Vec::reserve", "std::vec::Vec::reserve_exact",
                    "std::vec::Vec::shrink_to_fit", "std::vec::Vec::swap_remove", "std::vec::Vec::remove", "std::vec::Vec::retain", "std::vec::Vec::dedup", "std::vec::Vec::drain",
                    "std::vec::Vec::set_len", "core::slice::iter_mut", "core::slice::sort", "core::slice::sort_unstable", "core::slice::reverse")


def rule_fd_bound(ctx, cfg, F):
    R = ctx.rule("FD-BOUND", "at every call of the first-fragment transmitter (the only sendmsg) the number of descriptors handed over is bounded "
                 "by the count the receiver's control buffer is sized for (interval analysis of the descriptor vector's length with branch refinement)")
    caps = recv_capacity(F)
    if len(caps) != 1:
        R.violate("anchor-missing:receiver-capacity", "cannot determine the receiver's descriptor capacity (found %d candidates)" % len(caps), config=cfg)
        return
    capf, capb, C = caps[0]
    R.instance("receiver control buffer sized for %d descriptors in %s" % (C, capf.path), capf.loc(capb), cfg)
    ff = first_fragment_fn(F)
    sf = send_fn(F)
    if not ff or not sf:
        R.violate("anchor-missing:send", "cannot locate the sendmsg wrapper / its caller", config=cfg)
        return
    f = sf
    tr = Tracer(f)
    ffname = strip_generics(ff.path)
    sites = [(b, t) for b, t in f.calls() if strip_generics(callee_name(t)) == ffname]
    fd_arg = None
    for i in range(1, ff.argc + 1):
        if ff.local_ty(i) in ("&[i32]",):
            fd_arg = i - 1
    if fd_arg is None:
        R.violate("anchor-missing:fd-slice-param", "the sendmsg wrapper has no &[c_int] parameter", ff.path, config=cfg)
        return
    # the descriptor vector: the storage (a local, or a field of a struct local) the &[c_int] argument derives from, closed under moves
    seeds = set()
    for b, t in sites:
        rp = _root_place(f, t["args"][fd_arg])
        if rp is not None:
            seeds.add(rp)
    vplaces = _place_class(f, seeds)
    vclass = {l for (l, p) in vplaces if not p}
    if not vplaces:
        R.violate("anchor-missing:fd-vector", "descriptor list not found (%s)" % sorted(seeds), f.path, config=cfg)
        return
    ex = Explorer(f)
    worst = {}
    V = min(vclass) if vclass else None
    loop_blocks = set()
    for h in f.loop_headers():
        loop_blocks |= f.natural_loop(h)

    def is_V(operand):
        rp = _root_place(f, operand)
        return rp is not None and rp in vplaces

    def step(b, st, env):
        lo, hi, snaps = st
        snaps = set(snaps)
        for s in f.stmts(b):
            if s["s"] == "assign" and not s["lhs"].get("p") and s["rv"]["r"] in ("use", "cast"):
                src = op_local(s["rv"]["a"][0])
                if src in snaps:
                    snaps.add(s["lhs"]["l"])
                else:
                    snaps.discard(s["lhs"]["l"])
        t = f.term(b)
        if t["t"] == "call":
            name = strip_generics(callee_name(t))
            if name in ("std::vec::Vec::new", "std::vec::Vec::with_capacity") and (t["dest"]["l"], tuple(e["f"] for e in t["dest"].get("p", []) if isinstance(e, dict) and "f" in e)) in vplaces:
                lo, hi = 0, 0
            elif name == "std::vec::Vec::push" and is_V(t["args"][0]):
                if b in loop_blocks:
                    hi = INF      # widening: a push inside a loop is unbounded
                else:
                    lo, hi = lo + 1, (hi + 1 if hi < INF else INF)
                snaps = set()
            elif name in ("std::vec::Vec::extend", "std::vec::Vec::extend_from_slice", "std::vec::Vec::append", "std::vec::Vec::insert", "std::vec::Vec::resize") and is_V(t["args"][0]):
                hi = INF
                snaps = set()
            elif name not in _VEC_NON_GROWING and name != ffname and any(
                    op_local(a) is not None and f.local_ty(op_local(a)).startswith("&mut") and "Vec<i32>" in f.local_ty(op_local(a)) and is_V(a) for a in t["args"]):
                # any other callee that receives `&mut` access to the descriptor vector may grow it (Extend::extend, a helper, ...)
                hi = INF
                snaps = set()
            elif name in ("std::vec::Vec::len", "core::slice::len") and is_V(t["args"][0]):
                snaps.add(t["dest"]["l"])
            elif name == ffname:
                cur = worst.get(b, (0, -1))
                if hi > cur[1]:
                    worst[b] = (lo, hi)
            if not t["dest"].get("p") and name not in ("std::vec::Vec::len", "core::slice::len"):
                snaps.discard(t["dest"]["l"])
        return (lo, hi, frozenset(snaps))

    def edge(b, s, labs, st, env):
        lo, hi, snaps = st
        for lab in labs:
            if lab["kind"] != "cmp":
                continue
            la, lb = op_local(lab["a"]), op_local(lab["b"])
            ca, cb = _const_operand(f, lab["a"]), _const_operand(f, lab["b"])
            op, truth = lab["op"], lab["truth"]
            if la in snaps and cb is not None:
                lo, hi = _refine(lo, hi, op, cb, truth)
            elif lb in snaps and ca is not None:
                lo, hi = _refine(lo, hi, _flip(op), ca, truth)
        if lo > hi:
            return None
        return (lo, hi, snaps)

    ex.walk(0, (0, INF, frozenset()), step, edge=edge)
    for b, t in sites:
        lo, hi = worst.get(b, (0, INF))
        key = "%s:site%d" % (f.path, sites.index((b, t)))
        if hi > C:
            R.violate("%s:unbounded-descriptor-count:%s" % (f.path, _site_role(f, b)),
                      "the %s transmission can carry %s descriptors but the receiver's control buffer holds %d: an over-full message is accepted, "
                      "truncated by the kernel (MSG_CTRUNC is never inspected) and mis-delivered" % (_site_role(f, b), "an unbounded number of" if hi >= INF else "up to %d" % hi, C),
                      f.path, f.loc(b), config=cfg)
        else:
            R.ok("%s transmission carries at most %d descriptors (capacity %d)" % (_site_role(f, b), hi, C), f.loc(b), cfg)
    R.count("first_fragment_sites[%s]" % cfg, len(sites))


def _root_place(f, operand, limit=32):
    """the storage a reference / slice operand ultimately designates, as (base local, field indices): like _root_local, but a vector that lives in a
    field of a struct (`plan.fds`) is told apart from the struct; follows `&v[..]`, `v.as_slice()`, deref, re-borrows and copies of the reference"""
    op = operand
    rp = None
    for _ in range(limit):
        rp = ref_place(f, op)
        if rp is None or rp[1]:
            return rp
        l = rp[0]
        ds = [d for d in f.defs().get(l, []) if not f.is_cleanup(d[0]) and not (d[1] is not None and d[2].get("lhs", {}).get("p"))]
        if len(ds) != 1 or ds[0][1] is not None:
            return rp
        node = ds[0][2]
        name = strip_generics(callee_name(node))
        decl = strip_generics(node.get("callee") or "")
        if decl in ("std::ops::Index::index", "std::ops::Deref::deref", "std::ops::DerefMut::deref_mut", "std::ops::IndexMut::index_mut") or name in ("std::vec::Vec::as_slice", "std::vec::Vec::as_mut_slice"):
            op = node["args"][0]
            continue
        return rp
    return rp


def _place_class(f, seeds):
    """close a set of places (local, field path) under moves: plain assignments, struct / tuple / Ok(..) literals, `?` and From/Into -- in both directions"""
    cls = set(seeds)
    fields = lambda pl: tuple(e["f"] for e in pl.get("p", []) if isinstance(e, dict) and "f" in e)

    def link(a_l, a_path, b_l, b_path):
        ch = False
        for (l, p) in list(cls):
            if l == a_l and p[:len(a_path)] == a_path and (b_l, b_path + p[len(a_path):]) not in cls:
                cls.add((b_l, b_path + p[len(a_path):]))
                ch = True
            if l == b_l and p[:len(b_path)] == b_path and (a_l, a_path + p[len(b_path):]) not in cls:
                cls.add((a_l, a_path + p[len(b_path):]))
                ch = True
        return ch
    changed = True
    rounds = 0
    while changed and rounds < 12:
        changed = False
        rounds += 1
        for b in f.live_blocks():
            for st in f.stmts(b):
                if st["s"] != "assign":
                    continue
                dl, dp = st["lhs"]["l"], fields(st["lhs"])
                rv = st["rv"]
                if rv["r"] in ("use", "cast") and op_place(rv["a"][0]) is not None:
                    sp = rv["a"][0]["pl"]
                    changed |= link(sp["l"], fields(sp), dl, dp)
                elif rv["r"] == "agg":
                    for i, a in enumerate(rv["a"]):
                        if op_place(a) is not None:
                            changed |= link(a["pl"]["l"], fields(a["pl"]), dl, dp + (i,))
            t = f.term(b)
            if t["t"] == "call" and t["args"] and op_place(t["args"][0]) is not None and \
                    strip_generics(t.get("callee") or "") in ("std::ops::Try::branch", "std::ops::FromResidual::from_residual", "std::convert::From::from", "std::convert::Into::into"):
                sp = t["args"][0]["pl"]
                changed |= link(sp["l"], fields(sp), t["dest"]["l"], fields(t["dest"]))
    return cls


def _site_role(f, b):
    """'single-packet' or 'fragmented' according to whether a channel() call dominates the site"""
    for b2, t2 in f.calls():
        if strip_generics(callee_name(t2)).endswith("::channel") and f.dominates(b2, b):
            return "fragmented"
    return "single-packet"


def _root_local(f, tr, operand):
    """the local a reference/slice operand ultimately designates (following derefs/index/transparent calls)"""
    l = op_local(operand)
    seen = set()
    while l is not None and l not in seen:
        seen.add(l)
        ds = [d for d in f.defs().get(l, []) if not f.is_cleanup(d[0]) and not (d[1] is not None and d[2].get("lhs", {}).get("p"))]
        if len(ds) != 1:
            return l
        b, si, node = ds[0]
        if si is None:
            name = strip_generics(callee_name(node))
            decl = strip_generics(node.get("callee") or "")
            if decl in ("std::ops::Index::index", "std::ops::Deref::deref", "std::ops::DerefMut::deref_mut", "std::ops::IndexMut::index_mut") or name in ("std::vec::Vec::as_slice",):
                l = op_local(node["args"][0])
                continue
            return l
        rv = node["rv"]
        if rv["r"] in ("ref", "raw"):
            pl = rv["pl"]
            if pl.get("p") in (None, [], ["*"]):
                l = pl["l"]
                continue
            return l
        if rv["r"] in ("use", "cast"):
            nl = op_local(rv["a"][0])
            if nl is None:
                return l
            l = nl
            continue
        return l
    return l


def _const_operand(f, operand, _depth=0):
    c = op_const(operand)
    if c is not None:
        return c
    l = op_local(operand)
    if l is None:
        return None
    ds = [d for d in f.defs().get(l, []) if not f.is_cleanup(d[0])]
    if len(ds) == 1 and ds[0][1] is not None and ds[0][2]["rv"]["r"] in ("use", "cast"):
        src = ds[0][2]["rv"]["a"][0]
        pl = op_place(src)
        if pl is not None and pl.get("p") and not (len(pl["p"]) == 1 and isinstance(pl["p"][0], dict) and pl["p"][0].get("f") == 0):
            return None
        if pl is not None and pl.get("p") and _depth < 6:
            # `.0` of a checked arithmetic result
            return _const_operand(f, {"k": "cp", "pl": {"l": pl["l"]}}, _depth + 1)
        return _const_operand(f, src, _depth + 1) if _depth < 12 else None
    if len(ds) == 1 and ds[0][1] is not None and ds[0][2]["rv"]["r"] == "bin" and _depth < 12:
        # `LIMIT as usize - 1`: arithmetic on constants
        rv = ds[0][2]["rv"]
        a, b = _const_operand(f, rv["a"][0], _depth + 1), _const_operand(f, rv["a"][1], _depth + 1)
        if isinstance(a, int) and isinstance(b, int):
            op = rv["op"].replace("WithOverflow", "").replace("Unchecked", "")
            if op == "Sub":
                return a - b
            if op == "Add":
                return a + b
            if op == "Mul":
                return a * b
    return None


def _flip(op):
    return {"Lt": "Gt", "Le": "Ge", "Gt": "Lt", "Ge": "Le", "Eq": "Eq", "Ne": "Ne"}[op]


def _refine(lo, hi, op, c, truth):
    if not truth:
        op = {"Lt": "Ge", "Le": "Gt", "Gt": "Le", "Ge": "Lt", "Eq": "Ne", "Ne": "Eq"}[op]
    if op == "Lt":
        hi = min(hi, c - 1)
    elif op == "Le":
        hi = min(hi, c)
    elif op == "Gt":
        lo = max(lo, c + 1)
    elif op == "Ge":
        lo = max(lo, c)
    elif op == "Eq":
        lo, hi = max(lo, c), min(hi, c)
    return lo, hi


# =========================================================================== C09 / C13
from vlib.flow import path_summaries, relation_of_label   # noqa: E402

ENOBUFS = 105


def _result_paths(f, call_block):
    """per return path after a libc transmission call: relations of its result to 0, constructors, calls"""
    t = f.term(call_block)
    tr = Tracer(f)

    def is_res(op):
        return any(r.kind == "call" and r.block == call_block for r in tr.roots_of_operand(op))

    def edge_fact(b, s, labs):
        for lab in labs:
            rel = relation_of_label(f, lab)
            if rel:
                a, c, rs = rel
                if is_res(c) and op_const(a) is not None:
                    a, c, rs = c, a, {{"lt": "gt", "gt": "lt", "eq": "eq"}[x] for x in rs}
                if is_res(a) and op_const(c) == 0:
                    yield ("rel", tuple(sorted(rs)))
                elif is_res(a) and op_const(c) == 1 and set(rs) in ({"lt"}, {"eq", "gt"}):
                    # integers: `r < 1` is `r <= 0`, `r >= 1` is `r > 0`
                    yield ("rel", ("eq", "lt") if set(rs) == {"lt"} else ("gt",))
                elif is_res(a) and op_const(c) == -1 and set(rs) in ({"gt"}, {"eq", "lt"}):
                    yield ("rel", ("eq", "gt") if set(rs) == {"gt"} else ("lt",))

    # the return place, and the locals moved into it whole (the Result of an inlined `check(result)` helper returned as the tail expression)
    ret_locals = {l for (l, p_) in _place_class(f, {(0, ())}) if not p_ and f.local_ty(l) == f.local_ty(0)}

    def block_fact(b):
        for st in f.stmts(b):
            if st["s"] == "assign" and st["rv"]["r"] == "agg" and st["lhs"]["l"] in ret_locals and not st["lhs"].get("p") and (st["rv"]["kind"].get("adt") or "") == "std::result::Result":
                yield ("ret", st["rv"]["kind"].get("variant"))
        tt = f.term(b)
        if tt["t"] == "call":
            yield ("call", strip_generics(callee_name(tt)))
    return path_summaries(f, edge_fact, block_fact, start=t["to"])


def _passes_raw_result(f, call_block):
    """the wrapper hands the system call's own return value to its caller (`Ok(result)` with no test of it): the classification is the caller's business"""
    tr = Tracer(f)
    paths = _result_paths(f, call_block)
    if not paths:
        return False
    for facts, rb, path in paths:
        if any(x[0] == "rel" for x in facts) or {x[1] for x in facts if x[0] == "ret"} != {"Ok"}:
            return False
    roots = [r for r in tr.roots(0, (("v", 0, "Ok"), ("f", 0, ""))) if not (r.kind == "call" and r.id.endswith("UnixError::last"))]
    return bool(roots) and all(r.kind == "call" and r.block == call_block for r in roots)


def _caller_result_paths(f, site):
    """like _result_paths, for the caller of a raw-result wrapper: from the call site to the first Result the caller builds from it (or a return)"""
    tr = Tracer(f)
    ex = Explorer(f)
    out = set()

    def is_res(op):
        return any(r.kind == "call" and r.block == site for r in tr.roots_of_operand(op))

    def step(b, st, env):
        facts = set(st)
        for s_ in f.stmts(b):
            if s_["s"] == "assign" and s_["rv"]["r"] == "agg" and (s_["rv"]["kind"].get("adt") or "") == "std::result::Result":
                facts.add(("ret", s_["rv"]["kind"].get("variant")))
                out.add(frozenset(facts))
                return None
        tt = f.term(b)
        if tt["t"] == "call":
            nm = strip_generics(callee_name(tt))
            facts.add(("call", nm))
            if strip_generics(tt.get("callee") or "").endswith("from_residual") and any(is_res(a) for a in tt["args"]):
                facts.add(("ret", "Err"))
                facts.add(("residual",))
                out.add(frozenset(facts))
                return None
        elif tt["t"] == "return":
            out.add(frozenset(facts))
            return None
        return frozenset(facts)

    def edge(b, s, labs, st, env):
        facts = set(st)
        for lab in labs:
            rel = relation_of_label(f, lab)
            if rel:
                a, c, rs = rel
                if is_res(a) and op_const(c) == 0:
                    facts.add(("rel", tuple(sorted(rs))))
                elif is_res(c) and op_const(a) == 0:
                    facts.add(("rel", tuple(sorted({"lt": "gt", "gt": "lt", "eq": "eq"}[x] for x in rs))))
        return frozenset(facts)
    ex.walk(f.term(site)["to"], frozenset(), step, edge=edge)
    return [(fs, None, None) for fs in sorted(out, key=repr)]


def rule_send_check(ctx, cfg, F):
    R = ctx.rule("SEND-CHECK", "in each function that calls sendmsg / send the Ok return is reachable only on the edge result > 0, and every other edge returns Err(UnixError::last())")
    n = 0
    for f in [first_fragment_fn(F), followup_fn(F)]:
        if f is None:
            R.violate("anchor-missing:transmitter", "sendmsg / send wrapper not found", config=cfg)
            continue
        for b, t in f.calls():
            if strip_generics(callee_name(t)) not in ("libc::sendmsg", "libc::send"):
                continue
            n += 1
            bad = []
            saw_gt = False
            all_paths = None
            if _passes_raw_result(f, b):
                # a wrapper split in two by a refactor: it returns the raw result, its caller classifies it -- apply the rule at every call of the wrapper
                all_paths = []
                fname = strip_generics(f.path)
                for g in F.fns.values():
                    for cb, ct in g.calls():
                        if strip_generics(callee_name(ct)) == fname:
                            all_paths += [(fs, None, None) for fs, _x, _y in _caller_result_paths(g, cb) if ("residual",) not in fs]
                if not all_paths:
                    bad.append("the raw result of the system call is returned and no caller was found classifying it")
            for facts, rb, path in (all_paths if all_paths is not None else _result_paths(f, b)):
                rels = [x[1] for x in facts if x[0] == "rel"]
                rets = {x[1] for x in facts if x[0] == "ret"}
                calls = {x[1] for x in facts if x[0] == "call"}
                positive = any(r == ("gt",) for r in rels)
                if positive:
                    saw_gt = True
                if "Ok" in rets and not positive:
                    bad.append("Ok is returned on an edge that does not establish result > 0 (relations seen: %s)" % rels)
                if not positive and "Err" not in rets:
                    bad.append("a non-positive result does not return Err")
                if not positive and "Err" in rets and not any(c.endswith("UnixError::last") for c in calls):
                    bad.append("the failure edge does not carry errno (UnixError::last)")
            if not saw_gt:
                bad.append("the result is never tested for > 0")
            if bad:
                R.violate("%s:result-check" % f.path, "%s: %s" % (f.path, bad[0]), f.path, f.loc(b), config=cfg)
            else:
                R.ok("%s: Ok only when the transmission result > 0, otherwise Err(last)" % f.path, f.loc(b), cfg)
    R.count("transmission_calls[%s]" % cfg, n)


def _fallible_calls(F, f):
    """blocks of the calls in send whose Err must be propagated or retried"""
    names = {strip_generics(first_fragment_fn(F).path): "first", strip_generics(followup_fn(F).path): "followup"}
    out = {}
    for b, t in f.calls():
        nm = strip_generics(callee_name(t))
        if nm in names:
            out[b] = names[nm]
        elif nm.endswith("::channel") and nm.startswith("platform::"):
            out[b] = "channel"
    return out


def _ref_target(f, l):
    """the (non-reference) local a reference local points to: follows copies of the reference and reborrows only"""
    seen = set()
    while l is not None and l not in seen:
        seen.add(l)
        if not (f.local_ty(l).startswith("&") or f.local_ty(l).startswith("*")):
            return l
        ds = [d for d in f.defs().get(l, []) if not f.is_cleanup(d[0]) and not (d[1] is not None and d[2].get("lhs", {}).get("p"))]
        if len(ds) != 1 or ds[0][1] is None:
            return None
        rv = ds[0][2]["rv"]
        if rv["r"] in ("ref", "raw"):
            l = rv["pl"]["l"]
        elif rv["r"] in ("use", "cast") and op_place(rv["a"][0]) is not None:
            l = rv["a"][0]["pl"]["l"]
        else:
            return None
    return None


def _is_estimate_ref(f, ty):
    """`&mut usize`, or `&mut` of a small crate newtype around it (SendBufSize(usize))"""
    return ty.startswith("&mut usize") or (ty.startswith("&mut platform::") and "Vec<" not in ty and "Os" not in ty.split("::")[-1][:2])


def explore_send(F, f):
    """one exploration of the platform send: error propagation, retry guard, position discipline"""
    tr = Tracer(f)
    ex = Explorer(f)
    fall = _fallible_calls(F, f)
    # the downsize function: callee whose first argument is &mut usize and whose Result gates the retry
    downsize_blocks = {b for b, t in f.calls() if t["args"] and op_local(t["args"][0]) is not None and _is_estimate_ref(f, f.local_ty(op_local(t["args"][0])))
                       and strip_generics(callee_name(t)).startswith("platform::")}
    # loop position: the local compared with len(data) in a loop condition
    pos = _position_local(f, tr)
    problems = {}
    stats = {"err_edges": 0, "retry_edges": 0, "ok_returns": 0}

    def res_call_of(op):
        for r in tr.roots_of_operand(op):
            if r.kind == "call" and r.block in fall:
                return r.block
        return None

    def res_calls_of(op):
        return {r.block for r in tr.roots_of_operand(op) if r.kind == "call" and r.block in fall}

    headers = set(f.loop_headers())
    loop_blocks = set()
    for h in headers:
        loop_blocks |= f.natural_loop(h)

    # state: (pending call block or None, enobufs, downsized, attempted_since_err)
    def step(b, st, env):
        pend, enob, down = st
        t = f.term(b)
        shrunk_here = False
        if b in headers and pend is not None:
            # taking the back edge with an error pending is the retry
            if not (enob is True and down is True):
                problems.setdefault(("SEND-PROP", "continues-after-error", "%s->loop enobufs=%s downsized=%s" % (fall[pend], enob, down)), b)
            else:
                stats["retry_edges"] += 1
            pend, enob, down = None, None, None
        if pend is not None:
            # the estimate was reduced on this path (downsize() inlined into the body): `*p = x / c`
            for s_ in f.stmts(b):
                if s_["s"] == "assign" and (s_["lhs"].get("p") or [None])[0] == "*" and s_["rv"]["r"] == "bin" and s_["rv"]["op"] == "Div" and (op_const(s_["rv"]["a"][1]) or 0) >= 2 \
                        and f.local_ty(s_["lhs"]["l"]).startswith("&mut"):
                    shrunk_here = True
                    down = True if down is None else down
        if pend is not None and pos is not None and b in loop_blocks:
            for s in f.stmts(b):
                if s["s"] == "assign" and not s["lhs"].get("p") and s["lhs"]["l"] == pos:
                    problems.setdefault(("RETRY-POS", "position-advances-after-error"), b)
        if t["t"] == "call":
            if b in fall and pend is not None:
                # the path goes on transmitting after an error: only legal as the guarded retry
                if not (enob is True and down is True):
                    problems.setdefault(("SEND-PROP", "continues-after-error", "%s->%s enobufs=%s downsized=%s" % (fall[pend], fall[b], enob, down)), b)
                else:
                    stats["retry_edges"] += 1
                pend, enob, down = None, None, None
        elif t["t"] == "return":
            okc = None
            # what does _0 hold?
            if pend is not None:
                roots = tr.roots(0)
                ok_ctor = any(r.kind == "agg" and r.id.endswith("Result::Ok") for r in roots)
                return ("RET", pend, "err-pending")
        return (pend, enob, down)

    def edge(b, s, labs, st, env):
        if st and st[0] == "RET":
            return st
        pend, enob, down = st
        for lab in labs:
            if lab["kind"] in ("variant", "variant_not") and lab.get("adt") in ("std::result::Result", "std::ops::ControlFlow") and lab.get("variant"):
                src = None
                pl = lab["place"]
                src = res_call_of({"k": "cp", "pl": {"l": pl["l"]}})
                if src is not None and lab["variant"] in ("Err", "Break") and src != pend:
                    # (a later re-test of the same result, e.g. by drop elaboration, is not a new error)
                    stats["err_edges"] += 1
                    pend, enob, down = src, None, None
                # result of downsize
                dsrc = [r for r in tr.roots(pl["l"]) if r.kind == "call" and r.block in downsize_blocks]
                if dsrc and pend is not None:
                    down = lab["variant"] == "Ok"
            elif lab["kind"] == "pred" and lab["pred"] in ("is_ok", "is_err") and pend is not None:
                dsrc = [r for r in tr.roots_of_operand(lab["arg"]) if r.kind == "call" and r.block in downsize_blocks]
                if dsrc:
                    down = lab["truth"] if lab["pred"] == "is_ok" else not lab["truth"]
            elif lab["kind"] == "callbool" and lab.get("def_block") in downsize_blocks and pend is not None:
                # downsize() returning a plain bool ("a retry makes sense")
                down = lab["truth"]
            elif lab["kind"] == "val" and pend is not None:
                # switch on the errno payload
                names = [e.get("n") for e in lab["place"].get("p", []) if isinstance(e, dict) and "v" in e]
                if "Errno" in names:
                    enob = lab["value"] == ENOBUFS
            elif lab["kind"] == "val_not" and pend is not None:
                names = [e.get("n") for e in lab["place"].get("p", []) if isinstance(e, dict) and "v" in e]
                if "Errno" in names and ENOBUFS in lab["not"]:
                    enob = False
            elif lab["kind"] in ("variant", "variant_not") and lab.get("adt", "").endswith("UnixError") and pend is not None:
                if lab.get("variant") and "Errno" not in lab["variant"].split("|"):
                    enob = False
            elif lab["kind"] == "cmp" and lab["op"] in ("Eq", "Ne") and pend is not None:
                c = op_const(lab["b"]) if op_const(lab["b"]) is not None else op_const(lab["a"])
                if c == ENOBUFS:
                    enob = lab["truth"] if lab["op"] == "Eq" else not lab["truth"]
        return (pend, enob, down)

    returns = []

    def at_return(b, st, path):
        if st and st[0] == "RET":
            returns.append((st, path))
        else:
            stats["ok_returns"] += 1
    states = ex.walk(0, (None, None, None), step, at_return=at_return, edge=edge)
    # returns with a pending error must return that error
    for st, path in returns:
        pend = st[1]
        rb = path[-1]
        # what does _0 hold at the end of this path?  (variants of Result values, followed through moves: an inlined
        # helper returns through its own return slot first)
        var = {}
        for b in path:
            for s_ in f.stmts(b):
                if s_["s"] != "assign" or s_["lhs"].get("p"):
                    continue
                l = s_["lhs"]["l"]
                if s_["rv"]["r"] == "agg" and s_["rv"]["kind"].get("adt") == "std::result::Result":
                    var[l] = s_["rv"]["kind"].get("variant")
                elif s_["rv"]["r"] == "use" and op_local(s_["rv"]["a"][0]) in var:
                    var[l] = var[op_local(s_["rv"]["a"][0])]
                else:
                    var.pop(l, None)
            t = f.term(b)
            if t["t"] == "call" and not t["dest"].get("p"):
                if "from_residual" in callee_name(t):
                    var[t["dest"]["l"]] = "Err"
                else:
                    var.pop(t["dest"]["l"], None)
        # the caller must see an error: the pending one, or another one raised on the way out
        ok = var.get(0) == "Err"
        if not ok:
            problems.setdefault(("SEND-PROP", "error-not-returned", fall[pend]), rb)
    return problems, stats, states, fall, pos, downsize_blocks


def _position_local(f, tr):
    """loop position variable: multi-def usize local compared (Lt) with len(<param slice>) in a loop header region"""
    for h in f.loop_headers():
        body = f.natural_loop(h)
        for b in sorted(body):
            t = f.term(b)
            if t["t"] != "switch":
                continue
            for s in f.succ(b):
                for lab in edge_label(f, b, s):
                    if lab["kind"] == "cmp" and lab["op"] in ("Lt", "Le", "Gt", "Ge"):
                        # `position < len`, `len > position`, or the exit test `position >= len` of a `loop { if .. break }`
                        # (the position itself may also be *assigned* the length, when the end of the last fragment is clamped to it: the length side is the one that is nothing else)
                        def is_len(o):
                            rs_ = tr.roots_of_operand(o)
                            return bool(rs_) and all(r.kind == "call" and r.id == "core::slice::len" for r in rs_)
                        pos_side = lab["a"] if is_len(lab["b"]) and not is_len(lab["a"]) else (lab["b"] if is_len(lab["a"]) and not is_len(lab["b"]) else None)
                        if pos_side is not None:
                            l = op_local(pos_side)
                            if l is None:
                                continue
                            # resolve copies to the user variable
                            ds = [d for d in f.defs().get(l, []) if d[1] is not None]
                            if len(ds) == 1 and ds[0][2]["rv"]["r"] == "use":
                                src = op_local(ds[0][2]["rv"]["a"][0])
                                if src is not None and len(f.defs().get(src, [])) >= 2:
                                    return src
    return _remaining_local(f)


def _remaining_local(f):
    """the other way to keep the position: a `&[u8]` local R that starts as the data parameter and is re-sliced in the loop (`R = &R[n..]`) until it is empty"""
    data_param = next((i for i in range(1, f.argc + 1) if f.local_ty(i) == "&[u8]"), None)
    if data_param is None:
        return None
    loops = set()
    for h in f.loop_headers():
        loops |= f.natural_loop(h)
    for l, ds in sorted(f.defs().items()):
        if f.local_ty(l) != "&[u8]" or l <= f.argc:
            continue
        ds = [d for d in ds if d[1] is not None and not f.is_cleanup(d[0])]
        outside = [d for d in ds if d[0] not in loops]
        inside = [d for d in ds if d[0] in loops]
        if len(outside) == 1 and inside and outside[0][2]["rv"]["r"] == "use" and op_local(outside[0][2]["rv"]["a"][0]) == data_param:
            return l
    return None


def position_kind(f, P):
    return "slice" if P is not None and f.local_ty(P) == "&[u8]" else "index"


def at_start_assignment(f, P, st):
    """does this assignment to the position variable put it at the start of the data (P = 0, or R = data)?"""
    if st["rv"]["r"] != "use":
        return False
    if position_kind(f, P) == "slice":
        l = op_local(st["rv"]["a"][0])
        return l is not None and 1 <= l <= f.argc and f.local_ty(l) == "&[u8]"
    return op_const(st["rv"]["a"][0]) == 0


def at_start_test(f, P, lab, ex=None):
    """a branch label that tests "nothing sent yet": `P == 0`, or `R.len() == data.len()` for the slice form.  True / False = the edge asserts it holds / does not hold; None = unrelated"""
    if P is None:
        return None
    from rules.ipcl import _is_var
    if lab["kind"] in ("val", "val_not") and position_kind(f, P) == "index" and "place" in lab and not lab["place"].get("p") and _is_var(f, {"k": "cp", "pl": lab["place"]}, P):
        # `match position { 0 => .., _ => .. }`
        if lab["kind"] == "val":
            return lab.get("value") == 0
        return False if 0 in lab.get("not", []) else None
    if lab["kind"] != "cmp" or lab["op"] not in ("Eq", "Ne"):
        return None
    if position_kind(f, P) == "index":
        if op_const(lab["b"]) == 0 and _is_var(f, lab["a"], P):
            return lab["truth"] if lab["op"] == "Eq" else not lab["truth"]
        return None
    ex = ex or Expr(f)
    data_param = next((i for i in range(1, f.argc + 1) if f.local_ty(i) == "&[u8]"), None)
    sides = {expr_strip_blocks(ex.of_operand(lab["a"])), expr_strip_blocks(ex.of_operand(lab["b"]))}
    if sides == {("call", "core::slice::len", (("var", P),)), ("call", "core::slice::len", (("param", data_param),))}:
        return lab["truth"] if lab["op"] == "Eq" else not lab["truth"]
    return None


def rules_send_flow(ctx, cfg, F, want):
    """want in {'C09','C13'}"""
    f = send_fn(F)
    if f is None:
        ctx.rule("SEND-PROP").violate("anchor-missing:send", "platform send not found", config=cfg)
        return
    problems, stats, states, fall, pos, dblocks = explore_send(F, f)
    if want == "C09":
        R = ctx.rule("SEND-PROP", "in the platform send every Err of a transmission (or of creating the per-message channel) is returned to the caller as that "
                     "error, unless it is the guarded ENOBUFS retry; no Err edge reaches Ok")
        bad = [k for k in problems if k[0] == "SEND-PROP"]
        for k in sorted(bad, key=repr):
            R.violate("%s:%s:%s" % (f.path, k[1], k[2].split(" ")[0]), "%s: %s (%s)" % (f.path, k[1].replace("-", " "), k[2]), f.path, f.loc(problems[k]), config=cfg)
        if not bad:
            R.ok("%s: %d fallible calls, %d Err edges all returned or retried under the guard (%d states)" % (f.path, len(fall), stats["err_edges"], states), f.loc(0), cfg)
        R.count("fallible_calls[%s]" % cfg, len(fall))
    else:
        Rg = ctx.rule("RETRY-GUARD", "a transmission is re-attempted after an error only when the error is Errno(ENOBUFS) and downsize() returned Ok; every other error edge returns")
        Rp = ctx.rule("RETRY-POS", "the byte position is assigned only on the Ok edge of the iteration's transmission; no path assigns it between an Err edge and the retry")
        bad = [k for k in problems if k[0] == "SEND-PROP" and k[1] == "continues-after-error"]
        for k in sorted(bad, key=repr):
            Rg.violate("%s:retry-without-guard:%s" % (f.path, k[2].split(" ")[0]), "a transmission is re-attempted after an error without the ENOBUFS + downsize guard (%s)" % k[2], f.path, f.loc(problems[k]), config=cfg)
        if not bad:
            Rg.ok("%s: %d retry edges, all under ENOBUFS && downsize().is_ok()" % (f.path, stats["retry_edges"]), f.loc(0), cfg)
        Rg.count("retry_edges[%s]" % cfg, stats["retry_edges"])
        badp = [k for k in problems if k[0] == "RETRY-POS"]
        if pos is None:
            Rp.violate("anchor-missing:position-variable", "no loop position variable compared with len(data) found", f.path, config=cfg)
        for k in badp:
            Rp.violate("%s:%s" % (f.path, k[1]), "the byte position is advanced on a path that follows a failed transmission: bytes would be skipped", f.path, f.loc(problems[k]), config=cfg)
        if pos is not None and not badp:
            Rp.ok("%s: position `%s` is never assigned while an error is pending" % (f.path, f.lname(pos)), f.loc(0), cfg)


def rule_retry_shrink(ctx, cfg, F):
    R = ctx.rule("RETRY-SHRINK", "the send-buffer estimate is written only by its initialisation and by shrinking stores `x / c` (constant c >= 2, x the old estimate or the size just tried), "
                 "whether they sit in a downsize() helper that receives `&mut estimate` or in the body of send itself; a helper reports success only on the `sent > threshold` edge")
    f = send_fn(F)
    if f is None:
        return
    tr = Tracer(f)
    # the estimate: a usize variable of send -- a local, or a field of a (context) struct local -- that is mutably borrowed and handed to a crate helper or written through the borrow
    fpath = lambda pl: tuple(e["f"] for e in pl.get("p", []) if isinstance(e, dict) and "f" in e)

    def place_ty(pl):
        fs = [e for e in pl.get("p", []) if isinstance(e, dict) and "f" in e]
        return fs[-1].get("t", "") if fs else f.local_ty(pl["l"])
    cands = set()
    for b in f.live_blocks():
        for st in f.stmts(b):
            if st["s"] == "assign" and st["rv"]["r"] == "ref" and "Mut" in st["rv"].get("m", "") and "*" not in st["rv"]["pl"].get("p", []) and \
                    (place_ty(st["rv"]["pl"]) == "usize" or (not st["rv"]["pl"].get("p") and _is_estimate_ref(f, "&mut " + f.local_ty(st["rv"]["pl"]["l"])))):
                cands.add((st["rv"]["pl"]["l"], fpath(st["rv"]["pl"])))
    dcalls = [(b, t) for b, t in f.calls() if t["args"] and op_local(t["args"][0]) is not None and _is_estimate_ref(f, f.local_ty(op_local(t["args"][0])))
              and strip_generics(callee_name(t)).startswith("platform::")]
    est = {_root_place(f, t["args"][0]) for b, t in dcalls} or cands
    est = {e for e in est if e is not None}
    R.count("downsize_calls[%s]" % cfg, max(len(dcalls), 1 if est else 0) * (2 if not dcalls and est else 1))
    if not est:
        R.violate("%s:estimate-not-found" % f.path, "cannot identify the send-buffer estimate variable", f.path, config=cfg)
        return
    for E in sorted(est):
        if E[1]:
            defs = [(b, si, st) for b in f.live_blocks() for si, st in enumerate(f.stmts(b)) if st["s"] == "assign" and st["lhs"]["l"] == E[0] and "*" not in st["lhs"].get("p", []) and fpath(st["lhs"]) == E[1]]
            if defs:
                R.violate("%s:estimate-written-directly" % f.path, "the estimate (field %s of `%s`) is assigned directly at %d sites in send (expected: initialisation only)" % (E[1], f.lname(E[0]), len(defs)), f.path, f.loc(defs[-1][0]), config=cfg)
            else:
                R.ok("estimate (field %s of `%s`) is only initialised with the struct it lives in" % (E[1], f.lname(E[0])), f.loc(0), cfg)
            continue
        defs = [d for d in f.defs().get(E[0], []) if not f.is_cleanup(d[0])]
        if len(defs) != 1:
            R.violate("%s:estimate-written-directly" % f.path, "the estimate `%s` is assigned at %d sites in send (expected: initialisation only)" % (f.lname(E[0]), len(defs)), f.path, f.loc(defs[-1][0]) if defs else None, config=cfg)
        else:
            R.ok("estimate `%s` has a single direct definition (its initialisation)" % f.lname(E[0]), f.loc(defs[0][0]), cfg)
    # what the give-up decision looks at inside the fragment loop is the size of the packet just refused, not the length of the whole message:
    # with the message length the floor never applies and a few more refusals shrink the estimate below the header size (underflow in the fragment-size functions)
    exs = Expr(f)
    data_param = next((i for i in range(1, f.argc + 1) if f.local_ty(i) == "&[u8]"), None)
    whole = ("call", "core::slice::len", (("param", data_param),))
    loopb = set()
    for h in f.loop_headers():
        loopb |= f.natural_loop(h)
    wrong = None
    for b, t in dcalls:
        if b in loopb and len(t["args"]) > 1 and expr_strip_blocks(exs.of_operand(t["args"][1])) == whole:
            wrong = b
    for b in sorted(loopb):
        if f.term(b)["t"] != "switch":
            continue
        for s_ in f.succ(b):
            for lab in edge_label(f, b, s_):
                if lab["kind"] == "cmp" and lab["op"] in ("Gt", "Ge", "Lt", "Le"):
                    for x, c in ((lab["a"], lab["b"]), (lab["b"], lab["a"])):
                        if (op_const(c) or 0) >= 256 and expr_strip_blocks(exs.of_operand(x)) == whole:
                            wrong = b
    if wrong is not None:
        R.violate("%s:retry-size-is-whole-message" % f.path, "inside the fragment loop the retry decision is given len(data), not the size of the fragment that was refused: the lower bound on shrinking never applies there",
                  f.path, f.loc(wrong), config=cfg)
    else:
        R.ok("the fragment loop's retry decision is taken on the size of the refused fragment", f.loc(0), cfg)
    # the sizes the loop transmits with are computed from the estimate as it is NOW: a size taken from the estimate before the loop (hoisted "for clarity") is the one
    # the kernel just refused, however often the estimate is halved afterwards
    ff_, fu_ = first_fragment_fn(F), followup_fn(F)
    names_ = {strip_generics(x.path) for x in (ff_, fu_) if x is not None}
    stale = None
    for b, t in f.calls():
        if strip_generics(callee_name(t)) not in names_ or b not in loopb:
            continue
        # backward slice of the data argument (the fragment handed over): where is the estimate read?
        seen_, work_ = set(), [a["pl"]["l"] for a in t["args"] if a.get("k") in ("cp", "mv") and "[u8]" in f.local_ty(a["pl"]["l"])]
        while work_ and len(seen_) < 300:
            l = work_.pop()
            if l in seen_:
                continue
            seen_.add(l)
            for (db, si, node) in f.defs().get(l, []):
                if f.is_cleanup(db):
                    continue
                ops = node["args"] if si is None else (node["rv"].get("a", []) + ([{"k": "cp", "pl": node["rv"]["pl"]}] if "pl" in node["rv"] else []))
                if si is None and not (strip_generics(callee_name(node)).startswith(("platform::", "std::cmp", "std::ops::Index", "core::slice", "std::slice", "<[T]", "std::ops::Deref")) or "index" in callee_name(node) or "min" in callee_name(node)):
                    continue
                for a in ops:
                    if a.get("k") in ("cp", "mv"):
                        if any(a["pl"]["l"] == E[0] and fpath(a["pl"])[:len(E[1])] == E[1] for E in est):
                            if db not in loopb:
                                stale = stale or (b, db)
                        else:
                            work_.append(a["pl"]["l"])
    if stale:
        R.violate("%s:retry-size-stale" % f.path, "a fragment sent inside the retry loop is sized from the estimate as it was before the loop (read at %s): after a refusal the estimate shrinks "
                  "but the retry uses the refused size again -- or slices past the end of a message that only entered the loop through the fallback" % f.loc(stale[1]), f.path, f.loc(stale[0]), config=cfg)
    else:
        R.ok("fragment sizes inside the loop are computed from the current estimate", f.loc(0), cfg)
    bodies = []     # (function, predicate "this deref-store writes the estimate")
    for b, t in dcalls:
        g = F.fns.get(t.get("resolved") or t.get("callee")) or getattr(F, "all_fns", {}).get(t.get("resolved") or t.get("callee"))
        if g is not None and all(g is not x[0] for x in bodies):
            bodies.append((g, lambda st, g=g: st["lhs"]["l"] == 1 and (st["lhs"].get("p") or [None])[0] == "*", lambda op, g=g: any(r.kind == "param" and r.id == 2 for r in Tracer(g).roots_of_operand(op))))
    # stores through a borrow of E in send itself (helper inlined)
    bodies.append((f, lambda st: (st["lhs"].get("p") or [None])[0] == "*" and f.local_ty(st["lhs"]["l"]).startswith("&mut") and
                   ((_ref_target(f, st["lhs"]["l"]), ()) in est or _root_place(f, {"k": "cp", "pl": {"l": st["lhs"]["l"]}}) in est), lambda op: True))
    n_stores = 0
    ok = True
    for g, is_store, is_sent in bodies:
        for b in sorted(g.live_blocks()):
            for si, st in enumerate(g.stmts(b)):
                if st["s"] != "assign" or not is_store(st):
                    continue
                n_stores += 1
                rv = st["rv"]
                def shrinking(rv_, depth=0):
                    if rv_["r"] == "bin" and rv_["op"] == "Div" and (op_const(rv_["a"][1]) or 0) >= 2:
                        return True
                    # `*est = if halved < sent { halved } else { sent / 2 }`: a local every definition of which is such a quotient (or a copy of one)
                    if rv_["r"] == "use" and depth < 4 and op_local(rv_["a"][0]) is not None and not rv_["a"][0]["pl"].get("p"):
                        dd = [d for d in g.defs().get(op_local(rv_["a"][0]), []) if not g.is_cleanup(d[0])]
                        return bool(dd) and all(d[1] is not None and shrinking(d[2]["rv"], depth + 1) for d in dd)
                    return False
                good = shrinking(rv)
                if not good:
                    ok = False
                    R.violate("%s:store-not-shrinking" % g.path, "a store to the send-buffer estimate in %s is not of the form x / c with c >= 2: a retry could use the same or a larger size" % g.path, g.path, g.loc(b, si), config=cfg)
        if g is not f:
            # a helper: success only above the threshold
            def edge_fact(b, s, labs, g=g):
                for lab in labs:
                    if lab["kind"] == "cmp" and any(r.kind == "param" and r.id == 2 for r in Tracer(g).roots_of_operand(lab["a"])) and op_const(lab["b"]) is not None:
                        rel = relation_of_label(g, lab)
                        yield ("sent", tuple(sorted(rel[2])), op_const(lab["b"]))

            def block_fact(b, g=g):
                for st in g.stmts(b):
                    if st["s"] == "assign" and st["lhs"]["l"] == 0 and st["rv"]["r"] == "agg":
                        yield ("ret", st["rv"]["kind"].get("variant"))
                    if st["s"] == "assign" and st["lhs"]["l"] == 0 and st["rv"]["r"] == "use" and op_const(st["rv"]["a"][0]) in (0, 1) and g.local_ty(0) == "bool":
                        yield ("ret", "Ok" if op_const(st["rv"]["a"][0]) == 1 else "Err")
            for facts, rb, path in path_summaries(g, edge_fact, block_fact):
                rets = {x[1] for x in facts if x[0] == "ret"}
                gt = any(x[0] == "sent" and x[1] == ("gt",) and x[2] > 0 for x in facts)
                if "Ok" in rets and not gt:
                    ok = False
                    R.violate("%s:ok-without-threshold" % g.path, "%s reports success on a path that does not establish sent > threshold: tiny packets would be retried forever" % g.path, g.path, g.loc(rb), config=cfg)
    if n_stores == 0:
        R.violate("%s:estimate-never-shrinks" % f.path, "no store ever reduces the send-buffer estimate: an ENOBUFS retry would use the same size forever", f.path, config=cfg)
    elif ok:
        R.ok("%d stores to the estimate, all of the form x / c (c >= 2)" % n_stores, f.loc(0), cfg)


def rule_retry_fds(ctx, cfg, F):
    R = ctx.rule("RETRY-FDS", "every call of the first-fragment transmitter passes the whole descriptor list (RangeFull), so a retried first fragment carries all attachments")
    f, ff = send_fn(F), first_fragment_fn(F)
    if not f or not ff:
        return
    ffname = strip_generics(ff.path)
    n = 0
    for b, t in f.calls():
        if strip_generics(callee_name(t)) != ffname:
            continue
        n += 1
        arg = next((a for i, a in enumerate(t["args"]) if ff.local_ty(i + 1) == "&[i32]"), None)
        blk = _def_call(f, arg)
        whole = False
        if blk is not None:
            tt = f.term(blk)
            dn, rn = strip_generics(tt.get("callee") or ""), strip_generics(callee_name(tt))
            whole = any("RangeFull" in g for g in tt.get("generics", [])) or dn in ("std::ops::Deref::deref", "std::convert::AsRef::as_ref", "std::borrow::Borrow::borrow") \
                or rn in ("std::vec::Vec::as_slice", "std::vec::Vec::as_mut_slice")
        if whole and "Vec<i32>" in f.local_ty(_root_local(f, Tracer(f), arg)):
            R.ok("first-fragment call passes fds[..]", f.loc(b), cfg)
        else:
            R.violate("%s:partial-descriptor-list:%s" % (f.path, _site_role(f, b)), "a first-fragment transmission does not pass the whole descriptor list", f.path, f.loc(b), config=cfg)
    R.count("first_fragment_sites[%s]" % cfg, n)


def _def_call(f, operand):
    l = op_local(operand) if operand else None
    seen = set()
    while l is not None and l not in seen:
        seen.add(l)
        ds = [d for d in f.defs().get(l, []) if not f.is_cleanup(d[0])]
        if len(ds) != 1:
            return None
        b, si, node = ds[0]
        if si is None:
            return b
        rv = node["rv"]
        if rv["r"] in ("use", "cast"):
            l = op_local(rv["a"][0])
        elif rv["r"] in ("ref", "raw"):
            l = rv["pl"]["l"]
        else:
            return None
    return None


# =========================================================================== C02 / C04 / C01 (sender side)

def pair_anchors(F, f):
    """creation sites of a per-message socket pair inside f: calls to the crate's channel(), and direct libc::socketpair calls"""
    chan = {b for b, t in f.calls() if strip_generics(callee_name(t)).endswith("::channel") and strip_generics(callee_name(t)).startswith("platform::")}
    sp = {}
    from rules.fd import _out_array_local, _out_array_via_call
    for b, t in f.calls_to("libc::socketpair"):
        arr = _out_array_local(f, t["args"][3]) or _out_array_via_call(f, t["args"][3])
        if arr is not None:
            sp[arr] = b
    return chan, sp


def endpoint_origin(F, f, tr, operand, anchors, extra=()):
    """where a descriptor / endpoint value comes from: set of (anchor, half) with anchor ('chan', block) | ('sp', array local) |
    ('param', i) | ('other', repr)"""
    chan, sp = anchors
    out = set()
    for r in tr.roots_of_operand(operand, extra):
        out |= _origin_of_root(F, f, tr, r, anchors, 0)
    return out


def _origin_of_root(F, f, tr, r, anchors, depth):
    chan, sp = anchors
    if depth > 4:
        return {(("other", repr(r)), None)}
    if r.kind == "call" and r.block in chan:
        idx = r.field_idx()
        return {(("chan", r.block), idx[1] if len(idx) > 1 else None)}
    if r.kind == "call" and (r.id.endswith("::from_fd") or r.id in ("std::sync::Arc::new", "std::cell::Cell::new")):
        t = f.term(r.block)
        out = set()
        for x in tr.roots_of_operand(t["args"][0]):
            out |= _origin_of_root(F, f, tr, x, anchors, depth + 1)
        return out
    if r.kind == "call" and r.id.startswith("platform::") and f.term(r.block)["args"] and r.block not in chan:
        # an accessor of a crate endpoint type (consume_fd, fd(), ...): the descriptor of its receiver argument
        t = f.term(r.block)
        if f.local_ty(t["dest"]["l"]) in ("i32",):
            out = set()
            for x in tr.roots_of_operand(t["args"][0]):
                out |= _origin_of_root(F, f, tr, x, anchors, depth + 1)
            return out
    if r.kind == "agg" and r.id == "array":
        # element of a local array: which one?
        for p_ in r.path:
            if p_[0] == "idx":
                from rules.fd import _const_of_local
                c = _const_of_local(f, p_[1])
                for arr, b in sp.items():
                    if any(d[0] == r.block for d in f.defs().get(arr, [])):
                        return {(("sp", arr), c)}
            if p_[0] == "cidx":
                for arr, b in sp.items():
                    if any(d[0] == r.block for d in f.defs().get(arr, [])):
                        return {(("sp", arr), p_[1])}
        return {(("other", "array"), None)}
    if r.kind == "param":
        return {(("param", r.id), None)}
    return {(("other", repr(r)), None)}


def rule_frag_route(ctx, cfg, F):
    R = ctx.rule("FRAG-ROUTE", "follow-up fragments are transmitted only on the sender half of a socketpair created by channel() in the same invocation of send, never on "
                 "the shared channel descriptor; the receiver half of that same pair is the descriptor appended to the list before the fragmented first-fragment call; "
                 "the receiving side reads follow-ups only from the descriptor popped from this message's attachments")
    f, fu, ff = send_fn(F), followup_fn(F), first_fragment_fn(F)
    if not f or not fu or not ff:
        R.violate("anchor-missing:send-functions", "send / follow-up / first-fragment functions not found", config=cfg)
        return
    tr = Tracer(f)
    funame = strip_generics(fu.path)
    n = 0
    # the follow-up transmitter's descriptor parameter (the first one, unless a refactor reordered the signature)
    fu_fd = next((i for i in range(1, fu.argc + 1) if fu.local_ty(i) in ("i32", "std::os::fd::RawFd", "libc::c_int")), 1)
    anchors = pair_anchors(F, f)
    R.count("channel_calls[%s]" % cfg, len(anchors[0]) + len(anchors[1]))
    pair = None
    for b, t in f.calls():
        if strip_generics(callee_name(t)) != funame:
            continue
        n += 1
        org = endpoint_origin(F, f, tr, t["args"][fu_fd - 1], anchors)
        good = len(org) == 1 and next(iter(org))[0][0] in ("chan", "sp") and next(iter(org))[1] == 0
        if good:
            pair = next(iter(org))[0]
            R.ok("follow-up transmitter uses the sending half of the socket pair created in this call (%s)" % (pair,), f.loc(b), cfg)
        else:
            R.violate("%s:followup-on-shared-socket" % f.path, "a follow-up fragment is transmitted on a descriptor that is not the sending half of a socket pair created by this call (%s): "
                      "fragments of concurrent messages can interleave on the shared socket" % sorted(map(repr, org))[:2], f.path, f.loc(b), config=cfg)
    R.count("followup_sites[%s]" % cfg, n)
    # direct libc::send inside the follow-up transmitter uses its parameter
    trf = Tracer(fu)
    for b, t in fu.calls_to("libc::send"):
        if any(r.kind == "param" and r.id == fu_fd for r in trf.roots_of_operand(t["args"][0])):
            R.ok("libc::send in %s writes to its descriptor parameter" % fu.path, fu.loc(b), cfg)
        else:
            R.violate("%s:send-fd-not-parameter" % fu.path, "libc::send does not use the function's descriptor parameter", fu.path, fu.loc(b), config=cfg)
    # the receiver half is pushed onto the descriptor list and that push dominates the fragmented first-fragment call
    if pair is not None:
        pushes = []
        for b, t in f.calls_to("std::vec::Vec::push"):
            org = endpoint_origin(F, f, tr, t["args"][1], anchors)
            if any(o[0] == pair and o[1] == 1 for o in org):
                pushes.append(b)
        ffname = strip_generics(ff.path)
        pair_block = pair[1] if pair[0] == "chan" else anchors[1][pair[1]]
        from vlib.flow import feasible_reach_without
        frag_sites = [b for b, t in f.calls() if strip_generics(callee_name(t)) == ffname and (f.dominates(pair_block, b) or not feasible_reach_without(f, [b], [pair_block]))]
        if pushes and frag_sites and (all(any(f.dominates(p, s_) for p in pushes) for s_ in frag_sites) or not feasible_reach_without(f, frag_sites, pushes)):
            R.ok("the receiving half of the same pair is appended to the descriptor list before the fragmented first-fragment call", f.loc(pushes[0]), cfg)
        else:
            R.violate("%s:dedicated-receiver-not-attached" % f.path, "the receiving half of the per-message pair is not appended to the descriptor list before the fragmented first fragment is sent", f.path, f.loc(pair_block), config=cfg)
    # receiving side
    g = next((x for x in F.fns.values() if any(strip_generics(callee_name(t)) == "libc::recv" for _, t in x.calls())), None)
    if g is None:
        R.violate("anchor-missing:reassembly", "no function calls libc::recv", config=cfg)
        return
    trg = Tracer(g)
    for b, t in g.calls_to("libc::recv"):
        roots = trg.roots_of_operand(t["args"][0])
        via_pop = any(r.kind == "call" and r.id.endswith("::to_receiver") for r in roots)
        from_param = any(r.kind == "param" for r in roots)
        popped = False
        for r in roots:
            if r.kind == "call" and r.id.endswith("::to_receiver"):
                tt = g.term(r.block)
                popped = any(x.kind == "call" and x.id == "std::vec::Vec::pop" for x in trg.roots_of_operand(tt["args"][0]))
        if not (via_pop and popped):
            # the raw form: OsIpcReceiver::from_fd(list.pop()) with `list` the descriptors copied out of this message's control data
            from rules import fd as _fd
            for r in roots:
                if r.kind == "call" and r.id.endswith("::from_fd") and r.block is not None:
                    tt = g.term(r.block)
                    for x in trg.roots_of_operand(tt["args"][0]):
                        if x.kind == "call" and x.id == "std::vec::Vec::pop" and x.block is not None and _fd._from_cmsg_list(g, trg, x.block):
                            via_pop = popped = True
        if via_pop and popped and not from_param:
            R.ok("follow-up reads use the descriptor popped from this message's attachment list", g.loc(b), cfg)
        else:
            R.violate("%s:followup-read-from-shared-socket" % g.path, "follow-up fragments are read from %s, not from the descriptor popped from this message's attachments" % sorted(map(repr, roots))[:2], g.path, g.loc(b), config=cfg)
    R.count("followup_reads[%s]" % cfg, len(list(g.calls_to("libc::recv"))))


def rule_dedicated_last(ctx, cfg, F):
    R = ctx.rule("DEDICATED-LAST", "sender: nothing is appended to the descriptor list after the per-message receiver; receiver: the per-message receiver is taken with Vec::pop "
                 "(last element) after the in-order split loop; the split loop only appends (no insert/remove/reverse)")
    f = send_fn(F)
    if f:
        tr = Tracer(f)
        anchors = pair_anchors(F, f)
        ded = [b for b, t in f.calls_to("std::vec::Vec::push") if any(o[0][0] in ("chan", "sp") and o[1] == 1 for o in endpoint_origin(F, f, tr, t["args"][1], anchors))]
        if not ded:
            R.violate("%s:no-dedicated-push" % f.path, "the per-message receiver is never appended to the descriptor list", f.path, config=cfg)
        for d in ded:
            V = _root_local(f, tr, f.term(d)["args"][0])
            later = [b for b, t in f.calls() if strip_generics(callee_name(t)) in ("std::vec::Vec::push", "std::vec::Vec::insert", "std::vec::Vec::extend", "std::vec::Vec::swap", "std::vec::Vec::reverse", "core::slice::reverse", "core::slice::swap")
                     and _root_local(f, tr, t["args"][0]) == V and b != d and b in f.reachable(f.term(d)["to"])]
            inserts = [b for b, t in f.calls() if strip_generics(callee_name(t)) in ("std::vec::Vec::insert", "core::slice::reverse", "core::slice::swap", "core::slice::sort", "std::vec::Vec::swap_remove", "std::vec::Vec::remove") and _root_local(f, tr, t["args"][0]) == V]
            if later or inserts:
                R.violate("%s:descriptor-order-disturbed" % f.path, "the descriptor list is modified after the per-message receiver was appended, or reordered: the receiver would pop the wrong descriptor", f.path, f.loc((later or inserts)[0]), config=cfg)
            else:
                R.ok("sender: the per-message receiver is the last element of the descriptor list", f.loc(d), cfg)
        R.count("dedicated_pushes[%s]" % cfg, len(ded))
    g = next((x for x in F.fns.values() if any(strip_generics(callee_name(t)) == "libc::recv" for _, t in x.calls())), None)
    if g:
        trg = Tracer(g)
        pops = [(b, t) for b, t in g.calls_to("std::vec::Vec::pop")]
        R.count("pops[%s]" % cfg, len(pops))
        def vec_id(op):
            rp = ref_place(g, op)
            if rp is not None and not g.local_ty(rp[0]).startswith("&"):
                return rp
            return (_root_local(g, trg, op), ())
        for b, t in pops:
            Vk = vec_id(t["args"][0])
            # the list may travel in a context struct from the phase that fills it to the phase that pops (moves, struct literals, Ok(..)?)
            Vcls = _place_class(g, {Vk})
            V = next((l for (l, p_) in sorted(Vcls) if not p_), None)
            pushes = [pb for pb, pt in g.calls() if strip_generics(callee_name(pt)) in ("std::vec::Vec::push", "std::vec::Vec::extend_from_slice", "std::vec::Vec::extend", "std::iter::Extend::extend")
                      and vec_id(pt["args"][0]) in Vcls]
            if not pushes and V is not None:
                # the list was created whole from the control-message data (`slice.to_vec()`): its creation is the one append
                pushes = [r.block for r in trg.roots(V) if r.kind == "call" and r.block is not None and (
                    strip_generics(r.id).endswith("::to_vec") or strip_generics(r.id).endswith("::collect") or strip_generics(r.id) in ("std::borrow::ToOwned::to_owned", "std::convert::From::from"))]
            disturb = [pb for pb, pt in g.calls() if strip_generics(callee_name(pt)) in ("std::vec::Vec::insert", "std::vec::Vec::remove", "std::vec::Vec::swap_remove", "core::slice::reverse", "core::slice::swap", "std::vec::Vec::drain", "std::vec::Vec::truncate")
                       and vec_id(pt["args"][0]) in Vcls]
            in_loop = any(b in g.natural_loop(h) and any(p in g.natural_loop(h) for p in pushes) for h in g.loop_headers())
            after = all(b in g.reachable(g.term(p)["to"]) for p in pushes)
            if pushes and not disturb and not in_loop and after:
                R.ok("receiver: per-message receiver popped after the split loop, list only appended to", g.loc(b), cfg)
            else:
                R.violate("%s:pop-order" % g.path, "the per-message receiver is not taken as the last element after an append-only split loop", g.path, g.loc(b), config=cfg)


def rule_one_packet(ctx, cfg, F):
    R = ctx.rule("ONE-PACKET", "the first-fragment transmitter performs exactly one sendmsg and no other transmission; its iovec carries the header (the total-length parameter) and the "
                 "data parameter together, and the control buffer is filled from the whole descriptor slice: header, data and rights leave in one system call")
    ff = first_fragment_fn(F)
    if not ff:
        R.violate("anchor-missing:sendmsg", "no unique function calls sendmsg", config=cfg)
        return
    tr = Tracer(ff)
    tx = [(b, t) for b, t in ff.calls() if strip_generics(callee_name(t)) in ("libc::sendmsg", "libc::send", "libc::write", "libc::sendto", "libc::writev")]
    R.count("transmissions[%s]" % cfg, len(tx))
    if len(tx) != 1:
        R.violate("%s:transmission-count" % ff.path, "%d transmission calls in the first-fragment transmitter (expected exactly one sendmsg)" % len(tx), ff.path, ff.loc(0), config=cfg)
        return
    # iovec aggregates
    iov = []
    for b in sorted(ff.live_blocks()):
        for si, st in enumerate(ff.stmts(b)):
            if st["s"] == "assign" and st["rv"]["r"] == "agg" and st["rv"]["kind"].get("adt") == "libc::iovec":
                iov.append((b, si, st))
    bases = []
    for b, si, st in iov:
        rs = tr.roots_of_operand(st["rv"]["a"][0])
        bases.append({r.id for r in rs if r.kind == "param"} | {("call", r.id) for r in rs if r.kind == "call"})
    params = set()
    for s_ in bases:
        params |= {x for x in s_ if isinstance(x, int)}
    usize_params = [i for i in range(1, ff.argc + 1) if ff.local_ty(i) == "usize"]
    data_params = [i for i in range(1, ff.argc + 1) if ff.local_ty(i) == "&[u8]"]
    if len(iov) == 2 and usize_params and data_params and usize_params[0] in params and data_params[0] in params:
        R.ok("one sendmsg; iovec = [header (parameter %d), data (parameter %d)]" % (usize_params[0], data_params[0]), ff.loc(tx[0][0]), cfg)
    else:
        R.violate("%s:iovec-shape" % ff.path, "the iovec of the first fragment does not carry the total-length parameter and the data parameter together (bases: %s)" % bases, ff.path, ff.loc(tx[0][0]), config=cfg)
    # the msghdr passed to sendmsg is built from that iovec array
    mh = tr.roots_of_operand(tx[0][1]["args"][1])
    if any(r.kind == "call" and r.id.endswith("new_msghdr") for r in mh):
        R.ok("sendmsg's msghdr comes from new_msghdr(iovec, control buffer)", ff.loc(tx[0][0]), cfg)
    else:
        R.violate("%s:msghdr-origin" % ff.path, "sendmsg's msghdr is not the one built from the iovec array", ff.path, ff.loc(tx[0][0]), config=cfg)
    # descriptors: copy_nonoverlapping(fds.as_ptr(), CMSG_DATA(..), fds.len())
    cps = list(ff.calls_to("std::ptr::copy_nonoverlapping"))
    fd_params = [i for i in range(1, ff.argc + 1) if ff.local_ty(i) == "&[i32]"]
    okc = False
    for b, t in cps:
        src = any(r.kind == "param" and r.id in fd_params for r in tr.roots_of_operand(t["args"][0]))
        dst = any(r.kind == "call" and r.id.endswith("CMSG_DATA") for r in tr.roots_of_operand(t["args"][1]))
        cnt = any(r.kind == "call" and r.id == "core::slice::len" for r in tr.roots_of_operand(t["args"][2]))
        if src and dst and cnt:
            lb = [r.block for r in tr.roots_of_operand(t["args"][2]) if r.kind == "call" and r.id == "core::slice::len"][0]
            okc = any(r.kind == "param" and r.id in fd_params for r in tr.roots_of_operand(ff.term(lb)["args"][0]))
    if okc:
        R.ok("control buffer receives all fds.len() descriptors of the slice parameter", ff.loc(cps[0][0]), cfg)
    else:
        R.violate("%s:control-data-shape" % ff.path, "the control message is not filled with all descriptors of the slice parameter", ff.path, ff.loc(0), config=cfg)


def rule_inproc_one_push(ctx, cfg, F):
    R = ctx.rule("ONE-QUEUE-PUSH", "in-process send performs exactly one crossbeam send of one message aggregate built from all three parameters on every normal path")
    f = F.fns.get("platform::inprocess::OsIpcSender::send")
    if not f:
        R.violate("anchor-missing:inprocess-send", "in-process OsIpcSender::send not found", config=cfg)
        return
    tr = Tracer(f)
    sends = [(b, t) for b, t in f.calls_to("crossbeam_channel::Sender::send")]
    R.count("queue_pushes[%s]" % cfg, len(sends))
    if len(sends) != 1 or not f.all_paths_pass(0, [sends[0][0]])[0]:
        R.violate("%s:push-count" % f.path, "not exactly one queue push on every path (%d sites)" % len(sends), f.path, f.loc(0), config=cfg)
        return
    b, t = sends[0]
    ok = True
    params = set()
    for i in range(3):
        rs = tr.roots_of_operand(t["args"][1], (("f", i, ""),))
        params |= {r.id for r in rs if r.kind == "param"}
        if i == 0:
            # payload = to_vec(whole data parameter)
            calls = [r for r in rs if r.kind == "call"]
            if not (calls and all(r.id in ("std::slice::to_vec", "core::slice::to_vec", "std::convert::From::from", "std::borrow::ToOwned::to_owned", "std::vec::Vec::from") or r.id.endswith("::to_vec")
                                  or r.id.endswith("::from") for r in calls)):
                ok = False
            for r in calls:
                a = f.term(r.block)["args"][0]
                if not any(x.kind == "param" and x.id == 2 and not x.path for x in tr.roots_of_operand(a)):
                    ok = False
                params.add(2)
    if ok and {2, 3, 4} <= params:
        R.ok("one push of ChannelMessage(data.to_vec(), ports, regions)", f.loc(b), cfg)
    else:
        R.violate("%s:message-shape" % f.path, "the queued message is not built from the whole data slice and both attachment lists (parameters seen: %s)" % sorted(params), f.path, f.loc(b), config=cfg)


def rule_peer_closed(ctx, cfg, F):
    R = ctx.rule("SEND-PEER-CLOSED", "at every follow-up transmission the sender no longer holds the receiving end of the per-message socketpair (it is dropped once the first "
                 "fragment has carried it over): otherwise the follow-up socket always has a live peer -- the sender itself -- and a send to a vanished receiver blocks forever instead of failing")
    f, fu = send_fn(F), followup_fn(F)
    if not f or not fu:
        R.violate("anchor-missing:send", "send / follow-up transmitter not found", config=cfg)
        return
    tr = Tracer(f)
    funame = strip_generics(fu.path)
    anchors = pair_anchors(F, f)
    chan_blocks = set(anchors[0]) | set(anchors[1].values())
    fu_blocks = {b for b, t in f.calls() if strip_generics(callee_name(t)) == funame}
    R.count("followup_sites[%s]" % cfg, len(fu_blocks))
    if not chan_blocks or not fu_blocks:
        R.violate("%s:no-dedicated-channel" % f.path, "no per-message socket pair / follow-up transmission in send", f.path, config=cfg)
        return
    # holders of the receiving half: owning locals whose value derives from half 1 of the pair
    holders = set()
    for i, l in enumerate(f.locals):
        if "OsIpcReceiver" in l["t"] and not l["t"].startswith("&"):
            for extra in ((), (("f", 0, ""),)):
                org = set()
                for r in tr.roots(i, extra):
                    org |= _origin_of_root(F, f, tr, r, anchors, 0)
                if any(o[0][0] in ("chan", "sp") and o[1] == 1 for o in org):
                    holders.add(i)
    P = _position_local(f, tr)
    ex = Explorer(f)
    bad = {}

    def releases(b):
        t = f.term(b)
        if t["t"] == "drop" and t["pl"]["l"] in holders and "OsIpcReceiver" in t["ty"]:
            return True
        if t["t"] == "call":
            nm = strip_generics(callee_name(t))
            if nm in ("std::option::Option::take", "std::mem::drop", "std::mem::take", "std::mem::replace") and t["args"]:
                if _root_local(f, tr, t["args"][0]) in holders or op_local(t["args"][0]) in holders:
                    return True
        return False

    def step(b, st, env):
        held, pz = st
        for s in f.stmts(b):
            if s["s"] == "assign" and not s["lhs"].get("p") and s["lhs"]["l"] == P:
                pz = at_start_assignment(f, P, s)
        if b in chan_blocks or any(d[0] == b for h in holders for d in f.defs().get(h, [])):
            held = True
        if b in fu_blocks and held:
            bad.setdefault(b, True)
        if releases(b):
            held = False
        return (held, pz)

    def edge(b, s, labs, st, env):
        held, pz = st
        for lab in labs:
            if pz and at_start_test(f, P, lab) is False:
                return None
        return st
    ex.walk(0, (False, False), step, edge=edge)
    for b in sorted(fu_blocks):
        if b in bad:
            R.violate("%s:followup-while-holding-receive-end" % f.path, "a follow-up fragment can be transmitted while the sender still holds the receive end of the per-message socketpair: "
                      "if the receiver vanishes mid-message the send blocks forever instead of returning an error", f.path, f.loc(b), config=cfg)
        else:
            R.ok("the sender's copy of the per-message receive end is released before any follow-up transmission", f.loc(b), cfg)
