"""One entry per property: which rules run over which configurations."""
from rules import fd, tls, router, decode, send, mem, recv, rset, ipcl, oss, asyn, parity, scratch

LEVEL = {}

LEVEL["C11"] = ("Decides the structural clause of C11 only: on every normal path of every function of the unix backend each raw "
                "descriptor is released exactly once (FD-PATH), every owning type's Drop closes (FD-DROP), ownership-moving reads "
                "store the sentinel and non-owned values never reach a releasing site (FD-MOVE, FD-CLOSE-OWNED), every creating call "
                "sets close-on-exec (CLOEXEC), nothing defeats RAII (NO-FORGET). Not decided: descriptor counts over long histories, "
                "temp files (delegated to TempDir), mappings beyond mmap/munmap pairing.")


def check_C11(ctx):
    floors = {"K1": 9, "K2": 9}
    for cfg, F in ctx.configs(["K1", "K2"]):
        model = fd.build_model(F)
        n = fd.rule_fd_path(ctx, cfg, F, model)
        ctx.rule("FD-PATH").floor("sources[%s]" % cfg, floors[cfg], cfg)
        fd.rule_fd_drop(ctx, cfg, F, model)
        ctx.rule("FD-DROP").floor("owning_fields[%s]" % cfg, 6, cfg)
        fd.rule_fd_move(ctx, cfg, F, model)
        ctx.rule("FD-MOVE").floor("moving_reads[%s]" % cfg, 1, cfg)
        fd.rule_close_owned(ctx, cfg, F, model)
        ctx.rule("FD-CLOSE-OWNED").floor("close_sites[%s]" % cfg, 6, cfg)
        fd.rule_cloexec(ctx, cfg, F, model)
        ctx.rule("CLOEXEC").floor("creating_calls[%s]" % cfg, 6, cfg)
        fd.rule_no_forget(ctx, cfg, F)
        ipcl.rule_shm_unlink(ctx, cfg, F)
        if cfg == "K1":
            ctx.rule("SHM-UNLINK-FIRST").floor("named_objects[%s]" % cfg, 1, cfg)
        with fd.domain("mem"):
            mmodel = fd.build_model(F)
            fd.rule_fd_path(ctx, cfg, F, mmodel, "ALLOC-PAIR", "every malloc/mmap result is, on every normal path, released exactly once (freed/unmapped, moved into an "
                            "owning type, handed to a function that takes ownership, or returned); null edges carry no obligation")
            fd.rule_fd_drop(ctx, cfg, F, mmodel, "ALLOC-DROP", "every type owning a heap block or mapping frees/unmaps it in Drop exactly once, or leaves through a null test")
            ctx.rule("ALLOC-PAIR").floor("sources[%s]" % cfg, 7, cfg)
    for cfg, F in ctx.configs(["K1"]):
        # the receiver set owns its members' descriptors through a table of raw integers: the closed arm must close what it removes
        rset.rule_set_unix(ctx, cfg, F)
    for cfg, F in ctx.configs(["K1", "K3"]):
        # attachments parked in the per-thread tables are open descriptors: they must not survive a failed send or decode
        tls.rule_tls_restore(ctx, cfg, F)
        # a router whose proxy is gone stops: otherwise its thread, its epoll descriptor and every routed receiver stay for the life of the process
        router.rules_run(ctx, cfg, F, "C17")
    ctx.assume("kernel: accept(2)/dup(2) do not set FD_CLOEXEC; glibc shm_open does; mio's epoll descriptor is CLOEXEC")
    ctx.assume("panicking (unwind) paths are outside the all-paths rules")


LEVEL["C14"] = ("Decides the structural clause of C14 only: every function that exchanges the per-thread attachment tables restores "
                "each table to its entry contents on every normal return (including the serialisation-error and OS-error exits), "
                "the tables are message-private while bincode runs user code (nested sends/receives), and the platform send takes the "
                "attachment vectors by value so they are dropped on every exit. Not decided: attachment identity as observed; panics "
                "inside user Serialize impls (unwind paths excluded).")


def check_C14(ctx):
    for cfg, F in ctx.configs(["K1", "K3"]):
        tls.rule_tls_restore(ctx, cfg, F)
        ctx.rule("TLS-RESTORE").floor("exchange_sites[%s]" % cfg, 8, cfg)
        ctx.rule("TLS-RESTORE").floor("user_code_calls[%s]" % cfg, 2, cfg)
        tls.rule_args_owned(ctx, cfg, F)
        ctx.rule("SEND-ARGS-OWNED").floor("send_fns[%s]" % cfg, 1, cfg)
        ipcl.rule_buf_fresh(ctx, cfg, F)
    for cfg, F in ctx.configs(["K1", "K2"]):
        # a refused send releases what it took: no endpoint of the message survives an error exit of the platform send
        fd.rule_fd_path(ctx, cfg, F, fd.build_model(F))
        # the descriptor list of a message starts empty in the call that sends it (the interval analysis starts at Vec::new): a list kept across calls would carry
        # the numbers of a refused message into the next one
        send.rule_fd_bound(ctx, cfg, F)
    ctx.assume("bincode::serialize_into / bincode::deserialize are the only entry points through which user Serialize/Deserialize code runs inside the bracket")
    ctx.assume("unwind paths excluded: a panicking Serialize impl is outside the rule")


LEVEL["C17"] = ("Decides the structural clause of C17 only: in the router's event loop the Shutdown message and the closure of the wake-up channel "
                "each lead, on every feasible path, to return with no further select and no handler invocation (STOP-EXIT); the handler table is "
                "emptied before the acknowledgement (STOP-DROP-FIRST); no table lookup is unwrapped where the wake-up id is possible (STOP-NOPANIC); "
                "the proxy's flag test dominates every send and the flag-set edge sends nothing, under one guard (STOP-FLAG). Not decided: "
                "deadlock freedom with user callbacks that re-enter the proxy; timing of downstream disconnection.")


def check_C17(ctx):
    for cfg, F in ctx.configs(["K1", "K3"]):
        router.rules_run(ctx, cfg, F, "C17")
        ctx.rule("STOP-EXIT").floor("run_fns[%s]" % cfg, 1, cfg)
        router.rule_stop_flag(ctx, cfg, F)
        router.rule_stop_nodrop(ctx, cfg, F)
        ctx.rule("STOP-FLAG").floor("proxy_senders[%s]" % cfg, 2, cfg)
        router.rule_lock_order(ctx, cfg, F)
        ctx.rule("LOCK-ORDER").floor("lock_sites[%s]" % cfg, 2, cfg)
        # a stop request the router is never woken for is a shutdown() that waits for ever
        router.rule_rt_pair(ctx, cfg, F)
    ctx.assume("the router value is dropped when run() returns (it is a temporary in the thread closure), which drops the receiver set")


LEVEL["C07"] = ("Decides the structural clause of C07 only: control messages and wake-ups are paired 1:1 (RT-PAIR); the router reads exactly one control "
                "message per wake-up (RT-ONE-MSG); a route is inserted under the id returned for the receiver of the same control message and each "
                "event's message is dispatched exactly once to the handler keyed by the event's id (RT-KEY); a closed event removes exactly that "
                "handler (RT-REMOVE); forwarding closures send once (RT-FORWARD). Not decided: order and exactly-once as observed at run time "
                "(inherits the receiver set, C06). Also the unix receiver-set rules the router depends on (SET-DRAIN, SET-CLOSE, SET-EINTR, SET-NONBLOCK): a member not drained starves its handler and never reports closure.")


def check_C07(ctx):
    for cfg, F in ctx.configs(["K1", "K3"]):
        router.rule_rt_pair(ctx, cfg, F)
        ctx.rule("RT-PAIR").floor("control_sends[%s]" % cfg, 2, cfg)
        ctx.rule("RT-PAIR").floor("wakeup_sends[%s]" % cfg, 2, cfg)
        router.rules_run(ctx, cfg, F, "C07")
        ctx.rule("RT-ONE-MSG").floor("wakeup_paths[%s]" % cfg, 1, cfg)
        ctx.rule("RT-KEY").floor("dispatch_paths[%s]" % cfg, 1, cfg)
        ctx.rule("RT-KEY").floor("insert_sites[%s]" % cfg, 1, cfg)
        ctx.rule("RT-REMOVE").floor("remove_paths[%s]" % cfg, 1, cfg)
        router.rule_forward_closure(ctx, cfg, F)
        ctx.rule("RT-FORWARD").floor("forward_closures[%s]" % cfg, 1, cfg)
        router.rule_batch_order(ctx, cfg, F)
        ctx.rule("RT-ORDER").floor("select_consumers[%s]" % cfg, 2, cfg)
        rset.rule_set_id(ctx, cfg, F, "unix" if cfg == "K1" else "inprocess")
    for cfg, F in ctx.configs(["K1"]):
        # the router thread reads routed messages inside select(): a message that lost its per-message socket (one descriptor too many) parks that thread for every route
        send.rule_fd_bound(ctx, cfg, F)
    for cfg, F in ctx.configs(["K1", "K3"]):
        # a message that fails to decode on the router thread gives its attachments back to the message (and so releases them): parked in the router thread's table they keep other routes' channels open
        tls.rule_tls_restore(ctx, cfg, F)
    for cfg, F in ctx.configs(["K3"]):
        # a routed receiver that came from a one-shot server disconnects (and its callback is dropped) only if the rendezvous keeps no sender of its channel behind
        oss.rule_oss_own(ctx, cfg, F, "inprocess")
    for cfg, F in ctx.configs(["K1"]):
        # the router only sees what the set hands out: a member that is not drained starves its handler and never reports closure
        rset.rule_set_unix(ctx, cfg, F)
        ctx.rule("SET-DRAIN").floor("member_reads[%s]" % cfg, 1, cfg)
        # how the end of an interrupted message is classified decides whether one route is retired (wrongly: known finding) or the whole router stops
        recv.rule_closed_origin(ctx, cfg, F)
        # a sender that arrives in a routed message must not be inheritable: a spawned child would keep the route's channel open and its callback alive
        fd.rule_cloexec(ctx, cfg, F, None)
    ctx.assume("Result::map runs its closure iff the receiver is Ok; crossbeam and the receiver set deliver in order (C06)")


LEVEL["C16"] = ("Decides the structural clause of C16 only: no panic source is reachable inside the decode closure (DECODE-NOPANIC, with the RefCell "
                "borrows justified by BORROW-SCOPE); every attachment is moved out of its slot when handed out, so a reused or out-of-range index "
                "takes the error path (DECODE-TAKE-ONCE); library code never unwraps a decode result (DECODE-RESULT-UNWRAP); attachments that were "
                "never handed out go back into the message (TLS-RESTORE on the decode side, also on the error exit) and are closed by its Drop (FD-DROP of the opaque channel type). Not decided: which error is returned; bincode/serde "
                "internals on hostile input (external cut point).")


def check_C16(ctx):
    for cfg, F in ctx.configs(["K1", "K3"]):
        D = decode.rule_decode_nopanic(ctx, cfg, F)
        ctx.rule("DECODE-NOPANIC").floor("decode_fns[%s]" % cfg, 15, cfg)
        decode.rule_borrow_scope(ctx, cfg, F, D)
        ctx.rule("BORROW-SCOPE").floor("borrows[%s]" % cfg, 2, cfg)
        decode.rule_take_once(ctx, cfg, F, D)
        ctx.rule("DECODE-TAKE-ONCE").floor("conversion_sites[%s]" % cfg, 3, cfg)
        decode.rule_result_unwrap(ctx, cfg, F)
        ctx.rule("DECODE-RESULT-UNWRAP").floor("decode_calls[%s]" % cfg, 2, cfg)
        tls.rule_tls_restore(ctx, cfg, F)
        ipcl.rule_idx_base(ctx, cfg, F)
        decode.rule_decode_reader(ctx, cfg, F)
        ctx.rule("DECODE-READER").floor("decode_sites[%s]" % cfg, 1, cfg)
    for cfg, F in ctx.configs(["K1", "K2"]):
        # an attachment no encoder of this crate produces (an empty region from a peer using the platform API) must not panic the receiver
        mem.rule_map_guard(ctx, cfg, F)
        # attachments the kernel already installed are wrapped (and so released) whatever happens next: no error exit between the first read and the wrapping
        recv.rule_msg_commit(ctx, cfg, F)
    for cfg, F in ctx.configs(["K1", "K2"]):
        model = fd.build_model(F)
        fd.rule_fd_drop(ctx, cfg, F, model)
        # "released rather than kept open": also not kept open by a child spawned while the undecoded message is held
        fd.rule_cloexec(ctx, cfg, F, model)
    ctx.assume("bincode and serde return Err (do not panic or over-allocate) on malformed input")
    ctx.assume("RefCell::borrow_mut / LocalKey::with are not input-dependent panic sources (BORROW-SCOPE checks the former)")


LEVEL["C15"] = ("Decides the structural clause of C15 only: at every sendmsg-carrying call the number of descriptors is bounded by the constant that sizes "
                "the receiver's control buffer (read from the receiving path, not hard-coded), separately for the single-packet and the fragmented "
                "transmission (which adds one descriptor). Not decided: that the channel stays usable after a refusal; the kernel's own SCM_MAX_FD; "
                "the in-process transport has no limit and no instance. Any callee that receives mutable access to the descriptor vector (a helper, Extend::extend) is assumed to grow it without bound unless known not to.")


def check_C15(ctx):
    for cfg, F in ctx.configs(["K1", "K2"]):
        send.rule_fd_bound(ctx, cfg, F)
        ctx.rule("FD-BOUND").floor("first_fragment_sites[%s]" % cfg, 2, cfg)
        # "never delivered with attachments mis-assigned or left to hang the receiver": the per-message descriptor is last and every descriptor is classified by its own test
        send.rule_dedicated_last(ctx, cfg, F)
        ipcl.rule_split_classify(ctx, cfg, F)
        # "any value that send accepts arrives with all of its attachments": the receiver offers the kernel its whole control buffer at every receive
        scratch.rule_scratch_fresh(ctx, cfg, F)
    for cfg, F in ctx.configs(["K1", "K3"]):
        # where the transport sets no limit (in-process), any number of attachments is carried: the index on the wire is a full usize, never a narrower integer
        ipcl.rule_idx_pos(ctx, cfg, F)
        # "arrives with all of its attachments": a send nested in a Serialize impl neither takes the enclosing message's attachments along nor restarts its numbering
        tls.rule_tls_restore(ctx, cfg, F)
    ctx.assume("the kernel truncates control data beyond msg_controllen and the receiver does not inspect MSG_CTRUNC, so the bound must be enforced by the sender")


LEVEL["C18"] = ("Decides three necessary conditions of C18, not 'no undefined behaviour': a nullable mapping pointer never reaches slice::from_raw_parts(_mut) "
                "unguarded (NULL-GUARD); every Vec::set_len is justified by a capacity argument (SETLEN-CAP); malloc/free and mmap/munmap are paired on "
                "every normal path or through an owning type's Drop (ALLOC-PAIR, ALLOC-DROP). Not decided: control-message parsing bounds against what "
                "the kernel returns, uninitialised bytes, use-after-free through raw pointers -- everything AddressSanitizer would observe. ALLOC-PAIR also follows a block into the owning type it is moved into: releasing it again through that type's field is reported as a double release.")


def check_C18(ctx):
    for cfg, F in ctx.configs(["K1", "K2", "K3"]):
        mem.rule_null_guard(ctx, cfg, F)
        ctx.rule("NULL-GUARD").floor("nonnull_api_sites[%s]" % cfg, 1 if cfg == "K3" else 2, cfg)
    for cfg, F in ctx.configs(["K3"]):
        # the in-process region reads through a raw pointer: it points into the Arc<Vec<u8>> stored beside it, never into the caller's buffer
        ipcl.rule_shm_inproc(ctx, cfg, F)
    for cfg, F in ctx.configs(["K1", "K2"]):
        mem.rule_setlen_cap(ctx, cfg, F)
        ctx.rule("SETLEN-CAP").floor("set_len_sites[%s]" % cfg, 1, cfg)
        send.rule_fd_bound(ctx, cfg, F)       # what is written into / expected from the receiver's control buffer stays within its capacity
        mem.rule_uaf_guard(ctx, cfg, F)
        mem.rule_map_guard(ctx, cfg, F)
        # the fill of a new region writes exactly [0, length): not beyond the mapping, and no tail left as the kernel handed it out
        ipcl.rule_shm_len(ctx, cfg, F)
        mem.rule_copy_bound(ctx, cfg, F)
        ctx.rule("COPY-BOUND").floor("struct_array_copies[%s]" % cfg, 1, cfg)
        # received data has exactly the sent length: a first packet is taken for the whole message only when the header says so
        recv.rule_trunc_err(ctx, cfg, F)
        ctx.rule("MAP-GUARD").floor("mmap_sites[%s]" % cfg, 1, cfg)
        ctx.rule("UAF-GUARD").floor("guards[%s]" % cfg, 1, cfg)
        with fd.domain("mem"):
            model = fd.build_model(F)
            fd.rule_fd_path(ctx, cfg, F, model, "ALLOC-PAIR", "every malloc/mmap result is, on every normal path, released exactly once: freed/unmapped, "
                            "moved into a type whose Drop frees it, handed to a function that takes ownership, or returned; null edges carry no obligation")
            ctx.rule("ALLOC-PAIR").floor("sources[%s]" % cfg, 7, cfg)
            fd.rule_fd_drop(ctx, cfg, F, model, "ALLOC-DROP", "every type owning a heap block or mapping frees/unmaps it in Drop exactly once, or leaves through a null test")
    ctx.assume("the kernel never writes more than the lengths passed to recvmsg/recv")
    ctx.assume("ptr::copy_nonoverlapping with count 0 accepts any pointer (deliberately not a NULL-GUARD sink)")


LEVEL["C10"] = ("Decides the structural clause of C10 only: O_NONBLOCK set for a non-blocking receive is cleared again on every feasible path to return (NB-PAIR); "
                "the three receive entry points of each layer call their own counterpart with the right mode and the caller's duration (MODE-TABLE); follow-up "
                "fragments are read blocking (FOLLOWUP-BLOCKING); an expired poll yields EAGAIN and hence Empty, a ready poll goes on to read (TIMEOUT-ARM, ERR-MAP). "
                "Not decided: elapsed time, early wake-up by the kernel, O_NONBLOCK shared with duplicates of the descriptor. Also (NB-MODE): at the recvmsg call the read is non-blocking exactly on the paths serving BlockingMode::Nonblocking, by O_NONBLOCK or by MSG_DONTWAIT, and blocking on the others.")


def check_C10(ctx):
    for cfg, F in ctx.configs(["K1", "K2"]):
        recv.rule_nb_pair(ctx, cfg, F)
        recv.rule_nb_mode(ctx, cfg, F)
        ctx.rule("NB-MODE").floor("recvmsg_paths[%s]" % cfg, 3, cfg)
        recv.rule_followup_blocking(ctx, cfg, F)
        ctx.rule("FOLLOWUP-BLOCKING").floor("followup_reads[%s]" % cfg, 1, cfg)
        # "neither call changes later behaviour": a receive hands back the receiver it was given, descriptor included
        recv.rule_recv_keeps_fd(ctx, cfg, F)
        ctx.rule("RECV-KEEPS-FD").floor("receive_methods[%s]" % cfg, 3, cfg)
        # 'empty' comes from this call's own would-block, never from an errno left behind by an earlier call (a zero-length read sets none)
        recv.rule_errno_fresh(ctx, cfg, F)
        recv.rule_msg_commit(ctx, cfg, F)
        ctx.rule("MSG-COMMIT").floor("error_exits[%s]" % cfg, 1, cfg)
        recv.rule_timeout_arm(ctx, cfg, F)
        ctx.rule("TIMEOUT-ARM").floor("poll_sites[%s]" % cfg, 1, cfg)
    for cfg, F in ctx.configs(["K1", "K3"]):
        recv.rule_try_conv(ctx, cfg, F)
        ctx.rule("TRY-CONV").floor("polling_fns[%s]" % cfg, 3, cfg)
        recv.rule_mode_table(ctx, cfg, F)
        ctx.rule("MODE-TABLE").floor("entry_points[%s]" % cfg, 8, cfg)
        recv.rule_err_map(ctx, cfg, F)
        ctx.rule("ERR-MAP").floor("conversions[%s]" % cfg, 2, cfg)
    for cfg, F in ctx.configs(["K3"]):
        # a polling receive on a finished channel answers Disconnected: the in-process library keeps no sender of a channel it handed out (the one-shot registry entry goes with accept)
        oss.rule_oss_own(ctx, cfg, F, "inprocess")
    ctx.assume("poll(2)/recvmsg(2) semantics; crossbeam recv_timeout honours its argument")


LEVEL["C03"] = ("Decides the structural clause of C03 only: the closed class and the would-block class of the platform error are mapped to Disconnected and Empty "
                "exactly (ERR-MAP, both backends); a zero-length recvmsg is the only origin of 'closed' on the channel's descriptor and a negative one yields "
                "Errno (ZERO-READ, CLOSED-ORIGIN -- the latter with one known finding); the in-process variants follow crossbeam's classes (ERR-CLASS-INPROC); the sender's descriptor is closed only by the last "
                "shared handle (FD-DROP / FD-CLOSE-OWNED of C11) and the library itself retains no sender (TLS-RESTORE of C14). Not decided: kernel reference "
                "counting of descriptors in transit, wake-up of a blocked receive, races between the last drop and a receive.")


def check_C03(ctx):
    for cfg, F in ctx.configs(["K1", "K2", "K3"]):
        recv.rule_err_map(ctx, cfg, F)
        ctx.rule("ERR-MAP").floor("conversions[%s]" % cfg, 2, cfg)
        recv.rule_disc_origin(ctx, cfg, F)
        ctx.rule("DISC-ORIGIN").floor("disconnected_sites[%s]" % cfg, 1, cfg)
        recv.rule_recv_conv(ctx, cfg, F)
        ctx.rule("RECV-CONV").floor("receiving_fns[%s]" % cfg, 4, cfg)
    for cfg, F in ctx.configs(["K1", "K2"]):
        recv.rule_zero_read(ctx, cfg, F)
        ctx.rule("ZERO-READ").floor("recvmsg_sites[%s]" % cfg, 1, cfg)
        recv.rule_closed_origin(ctx, cfg, F)
        ctx.rule("CLOSED-ORIGIN").floor("closed_constructions[%s]" % cfg, 1, cfg)
        # a message with one descriptor too many loses its per-message socket: the receive then waits on (and reports the end of) somebody else's channel
        send.rule_fd_bound(ctx, cfg, F)
        model = fd.build_model(F)
        fd.rule_fd_drop(ctx, cfg, F, model)
        fd.rule_close_owned(ctx, cfg, F, model)
        # a sending end that leaks on an error exit, or that a spawned program inherits, keeps the channel connected after the last handle is gone
        fd.rule_fd_path(ctx, cfg, F, model)
        fd.rule_cloexec(ctx, cfg, F, model)
        _sender_shape(ctx, cfg, F)
    for cfg, F in ctx.configs(["K3"]):
        recv.rule_inproc_classes(ctx, cfg, F)
        ctx.rule("ERR-CLASS-INPROC").floor("receive_variants[%s]" % cfg, 3, cfg)
        # the in-process bootstrap registry holds a sender of every pending server: accept() takes its entry out, or the accepted channel never disconnects
        oss.rule_oss_own(ctx, cfg, F, "inprocess")
    for cfg, F in ctx.configs(["K1", "K3"]):
        tls.rule_tls_restore(ctx, cfg, F)
    ctx.assume("descriptors in SCM_RIGHTS transit keep the peer open; the kernel delivers EOF only when every copy of the sending end is closed")


def _sender_shape(ctx, cfg, F):
    R = ctx.rule("SENDER-SHARED", "the unix sender holds its descriptor behind Arc<SharedFileDescriptor>, has no Drop of its own and its Clone does not duplicate the descriptor: the descriptor is closed exactly when the last clone drops")
    a = F.adts.get("platform::unix::OsIpcSender")
    if not a:
        R.violate("anchor-missing:OsIpcSender", "no unix OsIpcSender type", config=cfg)
        return
    tys = [fl["t"] for fl in a["variants"][0]["fields"]]
    arc = any(t.startswith("std::sync::Arc<") for t in tys)
    has_drop = bool(a.get("drop"))
    clone = F.fns.get("<platform::unix::OsIpcSender as std::clone::Clone>::clone")
    dup = clone is not None and any(strip(t) in ("libc::dup", "libc::fcntl", "libc::dup2", "libc::dup3") for _, t in clone.calls())
    if arc and not has_drop and clone is not None and not dup:
        R.ok("OsIpcSender{%s}: Arc-shared descriptor, no Drop, Clone copies the Arc" % ", ".join(tys), clone.loc(0), cfg)
    else:
        R.violate("OsIpcSender:shape", "sender shape changed: arc=%s drop=%s clone=%s dup-in-clone=%s" % (arc, has_drop, clone is not None, dup), "platform::unix::OsIpcSender", config=cfg)


def strip(t):
    from vlib.mir import callee_name, strip_generics
    return strip_generics(callee_name(t))


LEVEL["C12"] = ("Decides two receiver-side clauses of C12: a short, zero or failed follow-up read can never reach an Ok return and every Ok return follows a "
                "received >= total edge (TRUNC-ERR); 'closed' may originate only from the channel's own descriptor (CLOSED-ORIGIN) -- today it also "
                "originates from the per-message socket, recorded as a known finding. The sender side is FRAG-ROUTE + SEND-PEER-CLOSED + RAII, and every socket it creates is close-on-exec (CLOEXEC) so that a dead sender's children cannot keep the per-message socket open. Not decided: anything "
                "about when the sending process dies, delivery of earlier messages, receiver liveness. Also: after a read-type system call errno is consulted only on paths where the call returned a negative value (ERRNO-FRESH), so the end of an interrupted message is never classified through a stale errno.")


def check_C12(ctx):
    for cfg, F in ctx.configs(["K1", "K2"]):
        recv.rule_trunc_err(ctx, cfg, F)
        ctx.rule("TRUNC-ERR").floor("followup_reads[%s]" % cfg, 1, cfg)
        recv.rule_closed_origin(ctx, cfg, F)
        ctx.rule("CLOSED-ORIGIN").floor("closed_constructions[%s]" % cfg, 1, cfg)
        recv.rule_errno_fresh(ctx, cfg, F)
        ctx.rule("ERRNO-FRESH").floor("read_sites[%s]" % cfg, 2, cfg)
        recv.rule_msg_commit(ctx, cfg, F)
        if cfg == "K1":
            rset.rule_set_unix(ctx, cfg, F)       # what the set does with the channel of an interrupted message: retire it completely or not at all
        # the attachments of an interrupted message are released on the error exit (a leaked attached sender keeps another channel from ever disconnecting)
        fd.rule_fd_path(ctx, cfg, F, fd.build_model(F))
        send.rule_frag_route(ctx, cfg, F)
        send.rule_peer_closed(ctx, cfg, F)
        fd.rule_cloexec(ctx, cfg, F, None)
        # the per-message socket is connection-oriented: the death of the sender ends the follow-up reads (a datagram socket would wait forever)
        fd.rule_sock_type(ctx, cfg, F)
        # a client that dies before its first message has arrived makes accept() report an error; it is not waited out (no second accept(2))
        oss.rule_oss_samefd(ctx, cfg, F)
        # an aborted message does not make the receive start over in blocking mode: "the receiver does not wait forever"
        recv.rule_followup_blocking(ctx, cfg, F)
    for cfg, F in ctx.configs(["K1"]):
        # "no false close": Disconnected is what the platform reported for this call, never a remembered earlier answer (an interrupted message must not close the channel for good)
        recv.rule_disc_origin(ctx, cfg, F)
    ctx.assume("a dying sender closes both ends of its per-message socketpair (kernel), so the follow-up read returns 0")


LEVEL["C09"] = ("Decides the structural clause of C09 only: every sendmsg/send result is checked and a non-positive result becomes Err(errno) (SEND-CHECK); in the platform "
                "send no Err edge reaches Ok or is dropped -- it is returned, or it is the guarded ENOBUFS retry (SEND-PROP); the sender releases its own copy of the per-message receive end before any follow-up, so a vanished receiver yields EPIPE instead of a hang (SEND-PEER-CLOSED); the ipc layer returns the platform result "
                "(RESULT-USED). Not decided: that the kernel reports EPIPE/ECONNRESET promptly; receivers in transit; SIGPIPE (not raised on SEQPACKET sockets: checked once by experiment).")


def check_C09(ctx):
    for cfg, F in ctx.configs(["K1", "K2"]):
        send.rule_send_check(ctx, cfg, F)
        ctx.rule("SEND-CHECK").floor("transmission_calls[%s]" % cfg, 2, cfg)
        send.rules_send_flow(ctx, cfg, F, "C09")
        ctx.rule("SEND-PROP").floor("fallible_calls[%s]" % cfg, 3, cfg)
        send.rule_peer_closed(ctx, cfg, F)
        ctx.rule("SEND-PEER-CLOSED").floor("followup_sites[%s]" % cfg, 1, cfg)
        if cfg == "K1":
            # a receiver handed to the router vanishes when the router is shut down: the router thread really stops (and drops its set), so a later send to a
            # routed channel fails instead of being accepted and lost
            router.rules_run(ctx, cfg, F, "C17")
        # a receiving end in transit counts: it must not be taken for the per-message socket of the message that carries it (which happens when that socket is the 65th descriptor)
        send.rule_fd_bound(ctx, cfg, F)
    for cfg, F in ctx.configs(["K1", "K3"]):
        _result_used(ctx, cfg, F)
        tls.rule_tls_restore(ctx, cfg, F)
    for cfg, F in ctx.configs(["K1", "K2"]):
        model = fd.build_model(F)
        fd.rule_fd_drop(ctx, cfg, F, model)
        # a receiver that exists nowhere for the program must not survive as a leaked descriptor (sends to it would keep succeeding)
        fd.rule_fd_path(ctx, cfg, F, model)
        # ... nor as a descriptor a spawned program inherited
        fd.rule_cloexec(ctx, cfg, F, model)
    ctx.assume("Linux does not raise SIGPIPE for send on a SOCK_SEQPACKET socket whose peer is closed (EPIPE is returned)")


def _result_used(ctx, cfg, F):
    from vlib.flow import Tracer
    from vlib.mir import callee_name, strip_generics
    R = ctx.rule("RESULT-USED", "at the ipc layer the result of the platform send flows into the caller's return value; in-process: the crossbeam send error is mapped and returned")
    n = 0
    for f in sorted(F.fns.values(), key=lambda x: x.path):
        if not (f.path.startswith("ipc::") or f.path.startswith("platform::inprocess::OsIpcSender::send")):
            continue
        for b, t in f.calls():
            nm = strip_generics(callee_name(t))
            if (nm.endswith("::OsIpcSender::send") and f.path.startswith("ipc::")) or (nm == "crossbeam_channel::Sender::send" and "inprocess::OsIpcSender::send" in f.path):
                n += 1
                tr = Tracer(f)
                def through_conversions(roots, depth=0):
                    # an error converted by hand (`Err(e) => Err(io::Error::from(e))`) still is that error
                    out = set()
                    for r in roots:
                        out.add(r)
                        if r.kind == "call" and depth < 4 and strip_generics(f.term(r.block).get("callee") or "") in ("std::convert::From::from", "std::convert::Into::into") and f.term(r.block)["args"]:
                            out |= through_conversions(tr.roots_of_operand(f.term(r.block)["args"][0]), depth + 1)
                    return out
                ok = any(r.kind == "call" and r.block == b for r in through_conversions(tr.roots(0))) or any(r.kind == "call" and r.block == b for r in through_conversions(tr.roots(0, (("f", 0, ""),))))
                if ok:
                    R.ok("%s returns the result of %s" % (f.path, nm), f.loc(b), cfg)
                else:
                    R.violate("%s:send-result-dropped" % strip_generics(f.path), "%s does not return the result of %s: a failed send would be reported as success" % (f.path, nm), f.path, f.loc(b), config=cfg)
                # ... and there is no way round the transmission that still reports success (an early `return Ok(())` for an empty payload: the message is never
                # queued, and a send to a vanished receiver reports success)
                errs = [x for x in f.live_blocks() if not f.is_cleanup(x) and (
                    (f.term(x)["t"] == "call" and "from_residual" in strip_generics(callee_name(f.term(x)))) or
                    any(st["s"] == "assign" and st["rv"]["r"] == "agg" and st["rv"]["kind"].get("variant") == "Err" for st in f.stmts(x)))]
                sends_here = [b2 for b2, t2 in f.calls() if strip_generics(callee_name(t2)) == nm]
                if not f.all_paths_pass(0, set(sends_here) | set(errs))[0]:
                    R.violate("%s:send-skipped" % strip_generics(f.path), "a path through %s returns success without calling %s: the message is not transmitted (and a vanished receiver goes unnoticed)" % (f.path, nm),
                              f.path, f.loc(b), config=cfg)
    R.count("send_sites[%s]" % cfg, n)


LEVEL["C13"] = ("Decides the loop-invariant clauses of C13 only: a transmission is re-attempted only for Errno(ENOBUFS) after a successful downsize (RETRY-GUARD); the byte position "
                "advances only on success (RETRY-POS); the estimate only shrinks and Ok from downsize needs sent > threshold (RETRY-SHRINK); every (re)try of the first fragment "
                "carries the whole descriptor list (RETRY-FDS) within the receiver's capacity (FD-BOUND); slices are contiguous (FRAG-CONTIG). Not decided: the 2^10 fault patterns "
                "as executions; that smaller packets are accepted by the kernel. Also: the receiver's first-packet buffer capacity depends only on constants and once-initialised statics (RECV-CAP-CONST), so a reduced estimate on the sending side can never shrink what the receiver offers.")


def check_C13(ctx):
    for cfg, F in ctx.configs(["K1", "K2"]):
        send.rules_send_flow(ctx, cfg, F, "C13")
        # a refused transmission is seen as refused: only `result > 0` counts as sent
        send.rule_send_check(ctx, cfg, F)
        ctx.rule("RETRY-GUARD").floor("retry_edges[%s]" % cfg, 2, cfg)
        send.rule_retry_shrink(ctx, cfg, F)
        ctx.rule("RETRY-SHRINK").floor("downsize_calls[%s]" % cfg, 2, cfg)
        send.rule_retry_fds(ctx, cfg, F)
        ctx.rule("RETRY-FDS").floor("first_fragment_sites[%s]" % cfg, 2, cfg)
        send.rule_fd_bound(ctx, cfg, F)
        ipcl.rule_frag_contig(ctx, cfg, F)
        recv.rule_trunc_err(ctx, cfg, F)
        ipcl.rule_size_agree(ctx, cfg, F)
        ipcl.rule_recv_cap_const(ctx, cfg, F)
        ctx.rule("RECV-CAP-CONST").floor("capacity_sites[%s]" % cfg, 1, cfg)
        ipcl.rule_reasm_contig(ctx, cfg, F)
    ctx.assume("the receiver always offers full-size buffers, so smaller fragments fit (C01 not-decided clause)")


LEVEL["C02"] = ("Decides the routing-discipline clause of C02 only: follow-up fragments travel exclusively on a socketpair created for that one message, whose receiving end "
                "rides in the first packet and is the only descriptor follow-ups are read from (FRAG-ROUTE); it is the last descriptor on both sides (DEDICATED-LAST); "
                "header, first data and all rights leave in one sendmsg (ONE-PACKET); the in-process send is one queue push (ONE-QUEUE-PUSH); receivers are not Clone. "
                "Not decided: kernel FIFO/packet atomicity (trusted), exactly-once and ordering as observed over schedules. Also, for delivery through a receiver set: each ready member is read until it would block (SET-DRAIN and the other unix set rules), since readiness is edge-triggered and a message left queued is never delivered.")


def check_C02(ctx):
    for cfg, F in ctx.configs(["K1", "K2"]):
        send.rule_frag_route(ctx, cfg, F)
        ctx.rule("FRAG-ROUTE").floor("channel_calls[%s]" % cfg, 1, cfg)
        ctx.rule("FRAG-ROUTE").floor("followup_sites[%s]" % cfg, 1, cfg)
        ctx.rule("FRAG-ROUTE").floor("followup_reads[%s]" % cfg, 1, cfg)
        send.rule_dedicated_last(ctx, cfg, F)
        ctx.rule("DEDICATED-LAST").floor("dedicated_pushes[%s]" % cfg, 1, cfg)
        ctx.rule("DEDICATED-LAST").floor("pops[%s]" % cfg, 1, cfg)
        send.rule_one_packet(ctx, cfg, F)
        recv.rule_msg_commit(ctx, cfg, F)
        recv.rule_trunc_err(ctx, cfg, F)
        # a timed receive that poll() reports ready must read: returning closed/empty instead loses the queued messages
        recv.rule_timeout_arm(ctx, cfg, F)
        ctx.rule("TIMEOUT-ARM").floor("poll_sites[%s]" % cfg, 1, cfg)
        # "whole": every socket keeps packet boundaries
        fd.rule_sock_type(ctx, cfg, F)
        ctx.rule("SOCK-TYPE").floor("socket_sites[%s]" % cfg, 3, cfg)
        # "delivered": a message sent with more descriptors than the receiver's control buffer holds loses its per-message socket and is never completed
        send.rule_fd_bound(ctx, cfg, F)
    for cfg, F in ctx.configs(["K1", "K3"]):
        # "exactly once, whole": a message whose decode runs inside another decode (a Deserialize impl that receives) must leave the outer message's attachments
        # where they were -- otherwise the outer message is consumed and never delivered
        tls.rule_tls_restore(ctx, cfg, F)
    for cfg, F in ctx.configs(["K1", "K3"]):
        # through a set (router, async): two live members under one id mix their messages
        rset.rule_set_id(ctx, cfg, F, "unix" if cfg == "K1" else "inprocess")
        # a routed message is handed on exactly once, whatever the consumer's queue looks like
        router.rule_forward_closure(ctx, cfg, F)
        # ... and in the order the set reported it: the batch is not rearranged between select() and the handlers
        router.rule_batch_order(ctx, cfg, F)
    for cfg, F in ctx.configs(["K1"]):
        # delivery through a receiver set: edge-triggered readiness means a member not drained loses (never delivers) messages
        rset.rule_set_unix(ctx, cfg, F)
        ctx.rule("SET-DRAIN").floor("member_reads[%s]" % cfg, 1, cfg)
    for cfg, F in ctx.configs(["K3"]):
        send.rule_inproc_one_push(ctx, cfg, F)
    for cfg, F in ctx.configs(["K1", "K3"]):
        _no_clone_receiver(ctx, cfg, F)
        ipcl.rule_buf_fresh(ctx, cfg, F)
        ipcl.rule_whole_buf(ctx, cfg, F)
    for cfg, F in ctx.configs(["K4"]):
        # a receiver turned into a stream is still the channel's receiver: every route must get installed, every message forwarded once
        asyn.rule_as_loop(ctx, cfg, F)
        # ... and the consuming task is woken for every message: Pending is only passed on from the forwarding channel
        asyn.rule_as_poll(ctx, cfg, F)
    ctx.assume("SOCK_SEQPACKET keeps packet boundaries and per-socket FIFO order; crossbeam unbounded channels are FIFO")


def _no_clone_receiver(ctx, cfg, F):
    R = ctx.rule("RX-NOT-CLONE", "receivers (typed, bytes, opaque, platform) implement neither Clone nor Copy: a channel has a single consumer")
    for adt in ("ipc::IpcReceiver", "ipc::IpcBytesReceiver", "ipc::OpaqueIpcReceiver", "platform::unix::OsIpcReceiver", "platform::inprocess::OsIpcReceiver"):
        if adt not in F.adts:
            continue
        if F.has_impl(adt, "std::clone::Clone") or F.has_impl(adt, "std::marker::Copy"):
            R.violate("%s:clone" % adt, "%s implements Clone/Copy: two consumers could split one message stream" % adt, adt, config=cfg)
        else:
            R.ok("%s is not Clone" % adt, None, cfg)
        R.count("receiver_types[%s]" % cfg)


LEVEL["C06"] = ("Decides the structural clause of C06 only: ids are handed out and stored from one counter value and reported from the entry of the event's token (SET-ID); "
                "under edge-triggered polling a member is read until it would block, the member loop is left only on closed / would-block / error (SET-DRAIN) with non-blocking "
                "reads (SET-NONBLOCK); a closed member is removed, deregistered, closed and reported on every path (SET-CLOSE, with FD-CLOSE-OWNED of C11); an interrupted wait "
                "is retried (SET-EINTR); add consumes the receiver by value. Not decided: exactly-once and per-member order as observed; more ready members than the event buffer.")


def check_C06(ctx):
    for cfg, F in ctx.configs(["K1"]):
        rset.rule_set_id(ctx, cfg, F, "unix")
        ctx.rule("SET-ID").floor("next_sites[%s]" % cfg, 1, cfg)
        ctx.rule("SET-ID").floor("event_ids[%s]" % cfg, 2, cfg)
        rset.rule_set_unix(ctx, cfg, F)
        ctx.rule("SET-DRAIN").floor("member_reads[%s]" % cfg, 1, cfg)
        ctx.rule("SET-NOREBLOCK").floor("wait_sites[%s]" % cfg, 1, cfg)
        router.rule_batch_order(ctx, cfg, F, "SET-ORDER")
        ctx.rule("SET-CLOSE").floor("closed_paths[%s]" % cfg, 1, cfg)
        ctx.rule("SET-EINTR").floor("poll_sites[%s]" % cfg, 1, cfg)
        model = fd.build_model(F)
        fd.rule_close_owned(ctx, cfg, F, model)
        _add_by_value(ctx, cfg, F)
        # a member is reported closed exactly when its channel is: the closed class comes from a zero-length read of the member's own socket, and
        # an aborted multi-fragment message is not turned into an error that makes select() drop the rest of the batch
        recv.rule_closed_origin(ctx, cfg, F)
        # a member's queued messages are read one after the other in one call: scratch values shared between those reads are rebuilt for each
        scratch.rule_scratch_fresh(ctx, cfg, F)
        ctx.rule("SCRATCH-FRESH").floor("receive_sites[%s]" % cfg, 1, cfg)
    for cfg, F in ctx.configs(["K3"]):
        rset.rule_set_id(ctx, cfg, F, "inprocess")
        ctx.rule("SET-ID").floor("next_sites[%s]" % cfg, 1, cfg)
        ctx.rule("SET-ID").floor("event_ids[%s]" % cfg, 2, cfg)
        rset.rule_set_inproc(ctx, cfg, F)
        ctx.rule("SET-INPROC").floor("add_pushes[%s]" % cfg, 2, cfg)
        ctx.rule("SET-INPROC").floor("select_returns[%s]" % cfg, 2, cfg)
        _add_by_value(ctx, cfg, F)
    ctx.assume("mio registers SourceFd edge-triggered; epoll keeps unreturned ready entries queued; crossbeam Select is fair")


def _add_by_value(ctx, cfg, F):
    R = ctx.rule("SET-OWNS", "IpcReceiverSet::add / add_opaque and the platform add take the receiver by value: the set is the exclusive consumer")
    n = 0
    for f in F.fns.values():
        if f.kind == "Closure":
            continue
        if f.path.endswith("ReceiverSet::add") or f.path.endswith("ReceiverSet::add_opaque"):
            n += 1
            t = f.local_ty(2)
            if t.startswith("&"):
                R.violate("%s:receiver-by-reference" % f.path, "%s takes the receiver by reference (%s)" % (f.path, t), f.path, f.loc(0), config=cfg)
            else:
                R.ok("%s(%s) by value" % (f.path, t), f.loc(0), cfg)
    R.count("add_fns[%s]" % cfg, n)


LEVEL["C04"] = ("Decides the wire-format clauses of C04 only: the index written for an endpoint or region is its position in the side table and the table is read at exactly "
                "the integer received (IDX-POS); serialising a receiver moves it out of the user's handle (RX-MOVE); the per-message descriptor is last on both sides "
                "(DEDICATED-LAST) and both sides keep list order (SPLIT-ORDER); to_opaque/to move the same OS endpoint (REWRAP). Not decided: identity of the kernel object "
                "behind a descriptor, backlog preservation, multi-hop histories. Also: the attachment lists handed to the platform send are the whole serialisation tables and the decode tables are exchanged whole (IDX-BASE), so absolute indices and lists share base 0 even for nested sends.")


def check_C04(ctx):
    for cfg, F in ctx.configs(["K1", "K3"]):
        ipcl.rule_idx_pos(ctx, cfg, F)
        ctx.rule("IDX-POS").floor("serialise_closures[%s]" % cfg, 3, cfg)
        ctx.rule("IDX-POS").floor("table_accesses[%s]" % cfg, 2, cfg)
        ipcl.rule_idx_base(ctx, cfg, F)
        ctx.rule("IDX-BASE").floor("send_lists[%s]" % cfg, 4, cfg)
        ctx.rule("IDX-BASE").floor("decode_exchanges[%s]" % cfg, 2, cfg)
        ipcl.rule_rx_move(ctx, cfg, F)
        ctx.rule("RX-MOVE").floor("endpoint_pushes[%s]" % cfg, 2, cfg)
        ipcl.rule_rewrap(ctx, cfg, F)
        ctx.rule("REWRAP").floor("rewrap_fns[%s]" % cfg, 4, cfg)
        tls.rule_tls_restore(ctx, cfg, F)
    for cfg, F in ctx.configs(["K1", "K2"]):
        send.rule_dedicated_last(ctx, cfg, F)
        ipcl.rule_split_order(ctx, cfg, F)
        ctx.rule("SPLIT-ORDER").floor("order_sites[%s]" % cfg, 3, cfg)
        ipcl.rule_split_classify(ctx, cfg, F)
        ctx.rule("SPLIT-CLASSIFY").floor("descriptor_loads[%s]" % cfg, 1, cfg)
        # the blocking mode lives in the open file description and travels with the endpoint: no cached copy beside the descriptor
        recv.rule_nb_pair(ctx, cfg, F)
        recv.rule_nb_mode(ctx, cfg, F)
        # a message that carries more endpoints than the receiver's control buffer holds is refused, not truncated
        send.rule_fd_bound(ctx, cfg, F)
        # a transferred receiver yields its whole backlog whichever receive flavour drains it: a ready poll reads
        recv.rule_timeout_arm(ctx, cfg, F)
        # every receive offers the kernel the whole control buffer: a header reused from a previous receive has the previous message's control length in it
        scratch.rule_scratch_fresh(ctx, cfg, F)
        ctx.rule("SCRATCH-FRESH").floor("receive_sites[%s]" % cfg, 1, cfg)
    for cfg, F in ctx.configs(["K1"]):
        # a transferred receiver that is routed yields its backlog without making the router thread wait on a consumer
        router.rule_forward_closure(ctx, cfg, F)
    for cfg, F in ctx.configs(["K4"]):
        # ... and one that is turned into a stream gets its route installed in the same cycle as every other route queued with it
        asyn.rule_as_loop(ctx, cfg, F)
    ctx.assume("the kernel passes descriptors in SCM_RIGHTS in array order")


LEVEL["C01"] = ("Decides bookkeeping clauses that are necessary for C01, not value equality: the length header is symmetric in type and size (HDR-SYM); fragments are contiguous "
                "slices driven by one position variable and every first fragment announces len(data) (FRAG-CONTIG); reassembly writes at the current length (REASM-CONTIG, with "
                "SETLEN-CAP of C18); the ipc layer and the in-process queue pass the whole buffer through unchanged (WHOLE-BUF). Not decided: equality of values, bincode "
                "round-trip, that the receiver's buffers are large enough for every packet (fragment-size arithmetic over a runtime SO_SNDBUF), boundary lengths. Also: a timed wait that reports the socket ready is followed by the read on every path (TIMEOUT-ARM), so an accepted payload is not reported as disconnection.")


def check_C01(ctx):
    for cfg, F in ctx.configs(["K1", "K2"]):
        ipcl.rule_hdr_sym(ctx, cfg, F)
        ctx.rule("HDR-SYM").floor("iovec0[%s]" % cfg, 2, cfg)
        ctx.rule("HDR-SYM").floor("header_subtractions[%s]" % cfg, 1, cfg)
        ipcl.rule_frag_contig(ctx, cfg, F)
        ctx.rule("FRAG-CONTIG").floor("transmission_sites[%s]" % cfg, 3, cfg)
        ipcl.rule_reasm_contig(ctx, cfg, F)
        ctx.rule("REASM-CONTIG").floor("followup_reads[%s]" % cfg, 1, cfg)
        mem.rule_setlen_cap(ctx, cfg, F)
        recv.rule_trunc_err(ctx, cfg, F)
        ipcl.rule_size_agree(ctx, cfg, F)
        ctx.rule("SIZE-AGREE").floor("single_packet_sites[%s]" % cfg, 1, cfg)
        ipcl.rule_recv_cap_const(ctx, cfg, F)
        ctx.rule("RECV-CAP-CONST").floor("capacity_sites[%s]" % cfg, 1, cfg)
        recv.rule_timeout_arm(ctx, cfg, F)
        ctx.rule("TIMEOUT-ARM").floor("poll_sites[%s]" % cfg, 1, cfg)
        # the matching blocking receive waits for the value: the descriptor is left in blocking mode by every polling receive
        recv.rule_nb_pair(ctx, cfg, F)
        recv.rule_nb_mode(ctx, cfg, F)
        # the per-message socket is found again by the receiver (last descriptor, sorted by kind) and keeps packet boundaries: otherwise the tail of a fragmented payload is lost
        send.rule_dedicated_last(ctx, cfg, F)
        ipcl.rule_split_classify(ctx, cfg, F)
        fd.rule_sock_type(ctx, cfg, F)
        # an accepted send transmitted every fragment: no transmission error is swallowed (other than the guarded retry)
        send.rules_send_flow(ctx, cfg, F, "C09")
        ctx.rule("SEND-PROP").floor("fallible_calls[%s]" % cfg, 3, cfg)
        recv.rule_msg_commit(ctx, cfg, F)
        # "does not depend on the system's socket buffer size": one size for every socket, the one the packet sizes were computed from
        fd.rule_sock_buf(ctx, cfg, F)
        # an accepted multi-packet value needs its per-message socket to arrive: one descriptor more than the receiver's control buffer holds and the kernel drops exactly that one
        send.rule_fd_bound(ctx, cfg, F)
    for cfg, F in ctx.configs(["K1", "K3"]):
        # decoding is re-entrant: a receive nested in a Deserialize impl neither sees nor destroys the attachments of the value being decoded
        tls.rule_tls_restore(ctx, cfg, F)
        ipcl.rule_idx_base(ctx, cfg, F)
        ipcl.rule_whole_buf(ctx, cfg, F)
        ctx.rule("WHOLE-BUF").floor("payload_sites[%s]" % cfg, 4, cfg)
        ipcl.rule_buf_fresh(ctx, cfg, F)
        ctx.rule("BUF-FRESH").floor("serialise_calls[%s]" % cfg, 1, cfg)
    ctx.assume("kernel packetisation keeps each sendmsg/send as one packet; bincode round-trips values")


LEVEL["C05"] = ("Decides structural conditions necessary for C05, not byte contents: (pointer, length, store) of a region come from one map_file on the stored BackingStore and Clone "
                "remaps a duplicated descriptor (SHM-COUPLE); one length feeds truncate, map, fill and the region (SHM-LEN); the compiled create_shmem variant truncates the "
                "descriptor it returns (SHM-SIBLING, evaluated for shm_open and for memfd); empty-sentinel agreement (SHM-SENTINEL); mmap/munmap pairing (ALLOC-PAIR/DROP); in-process "
                "coupling with the Arc (SHM-INPROC). Not decided: contents, page-straddling lengths, cross-process visibility (MAP_SHARED is the kernel's). Also: the fill of from_byte covers exactly [0, length) of the mapping (contiguous segments adding up to the length); attachment lists share base 0 with the indices (IDX-BASE).")


def check_C05(ctx):
    for cfg, F in ctx.configs(["K1", "K2"]):
        ipcl.rule_shm_couple(ctx, cfg, F)
        ctx.rule("SHM-COUPLE").floor("constructions[%s]" % cfg, 2, cfg)
        ipcl.rule_shm_len(ctx, cfg, F)
        ctx.rule("SHM-LEN").floor("fill_ctors[%s]" % cfg, 2, cfg)
        ipcl.rule_shm_sibling(ctx, cfg, F)
        if cfg == "K1":
            # "created from any byte string": creation does not collide with a forked sibling's (named backing only; memfd objects are anonymous)
            ipcl.rule_shm_name(ctx, cfg, F)
            ctx.rule("SHM-NAME").floor("named_objects[%s]" % cfg, 1, cfg)
        ctx.rule("SHM-SIBLING").floor("create_shmem[%s]" % cfg, 1, cfg)
        ctx.rule("SHM-SIBLING").floor("store_creations[%s]" % cfg, 1, cfg)
        mem.rule_map_guard(ctx, cfg, F)
        # a region keeps the descriptor of its backing object for as long as it lives: clones and transfers duplicate / pass that descriptor
        fmodel = fd.build_model(F)
        fd.rule_fd_move(ctx, cfg, F, fmodel)
        fd.rule_close_owned(ctx, cfg, F, fmodel)
        with fd.domain("mem"):
            mmodel = fd.build_model(F)
            fd.rule_fd_path(ctx, cfg, F, mmodel, "ALLOC-PAIR", "every mmap result is unmapped exactly once or moved into the region type whose Drop unmaps it")
            fd.rule_fd_drop(ctx, cfg, F, mmodel, "ALLOC-DROP", "the region type unmaps (ptr, length) in Drop under a null guard")
    for cfg, F in ctx.configs(["K1", "K3"]):
        # the regions registered for the message being serialised survive a send made from inside a Serialize impl (and the other way round when decoding)
        tls.rule_tls_restore(ctx, cfg, F)
        ipcl.rule_shm_sentinel(ctx, cfg, F)
        ctx.rule("SHM-SENTINEL").floor("sentinel_pairs[%s]" % cfg, 1, cfg)
        ipcl.rule_idx_pos(ctx, cfg, F)
        ctx.rule("IDX-POS").floor("table_accesses[%s]" % cfg, 2, cfg)
        ipcl.rule_idx_base(ctx, cfg, F)
        ctx.rule("IDX-BASE").floor("send_lists[%s]" % cfg, 4, cfg)
    for cfg, F in ctx.configs(["K1", "K2"]):
        ipcl.rule_split_classify(ctx, cfg, F)
        ctx.rule("SPLIT-CLASSIFY").floor("descriptor_loads[%s]" % cfg, 1, cfg)
        # the per-message socket comes after the regions in a fragmented message: it is the one taken from the end, never mapped as a region
        send.rule_dedicated_last(ctx, cfg, F)
    for cfg, F in ctx.configs(["K3"]):
        ipcl.rule_shm_inproc(ctx, cfg, F)
        ctx.rule("SHM-INPROC").floor("inproc_constructions[%s]" % cfg, 2, cfg)
    ctx.assume("mmap(MAP_SHARED) of the same object shows the same bytes in every mapping; ftruncate zero-fills")


LEVEL["C08"] = ("Decides the 'leaves nothing behind' and naming clauses of C08 only: the server value owns its descriptor and temporary directory by RAII and accept consumes it by value "
                "(OSS-OWN, NO-FORGET); no descriptor created for the rendezvous survives any exit of new/accept/connect (FD-PATH, FD-DROP); the name derives from a fresh TempDir / UUID "
                "(OSS-NAME); the returned receiver is the accepted connection the first message was read from (OSS-SAMEFD). Not decided: that a client can connect before or after accept, "
                "messages sent before accept or by an exited client, sun_path truncation for very long TMPDIR. Also: the rendezvous sockets are created close-on-exec (CLOEXEC), so a spawned client does not inherit the listening socket.")


def check_C08(ctx):
    for cfg, F in ctx.configs(["K1"]):
        oss.rule_oss_own(ctx, cfg, F, "unix")
        oss.rule_oss_name(ctx, cfg, F, "unix")
        oss.rule_oss_samefd(ctx, cfg, F)
        oss.rule_oss_addr(ctx, cfg, F)
        ctx.rule("OSS-ADDR").floor("address_uses[%s]" % cfg, 2, cfg)
        # the connection a name leads to carries messages of every size: its socket keeps the buffer size the packet sizes were computed for
        fd.rule_sock_buf(ctx, cfg, F)
        ctx.rule("SOCK-BUF").floor("sockopt_sites[%s]" % cfg, 1, cfg)
        mem.rule_copy_bound(ctx, cfg, F)
        # the sender connect() hands out is a blocking channel: messages sent before accept() wait for room, they are not refused
        recv.rule_nb_pair(ctx, cfg, F)
        ctx.rule("OSS-SAMEFD").floor("accept_sites[%s]" % cfg, 1, cfg)
        model = fd.build_model(F)
        fd.rule_fd_path(ctx, cfg, F, model)
        ctx.rule("FD-PATH").floor("sources[%s]" % cfg, 9, cfg)
        fd.rule_fd_drop(ctx, cfg, F, model)
        fd.rule_no_forget(ctx, cfg, F)
        fd.rule_cloexec(ctx, cfg, F, model)
    for cfg, F in ctx.configs(["K3"]):
        # a client can connect, send and leave before accept(): nothing on the in-process connect / send path waits for the server
        oss.rule_inproc_unbounded(ctx, cfg, F)
        ctx.rule("INPROC-UNBOUNDED").floor("queue_creations[%s]" % cfg, 2, cfg)
        oss.rule_oss_own(ctx, cfg, F, "inprocess")
        oss.rule_oss_name(ctx, cfg, F, "inprocess")
        fd.rule_no_forget(ctx, cfg, F)
    for cfg in ("K1", "K3"):
        if cfg in ctx._facts:
            ctx.rule("OSS-OWN").floor("accept_fns[%s]" % cfg, 2, cfg)
            ctx.rule("OSS-NAME").floor("new_fns[%s]" % cfg, 1, cfg)
    ctx.assume("tempfile::TempDir deletes its directory (and the socket file in it) on drop; Uuid::new_v4 is unique")


LEVEL["C20"] = ("Decides the protocol-shape clauses of C20 only (feature `async`, both backends): the route is enqueued before the wake-up and the stream is paired with the enqueued "
                "sender (AS-ORDER); every select-to-select cycle drains the route queue and installs each pair under the id of its own receiver (AS-DRAIN); a message event is forwarded "
                "once to the sender of its id (AS-FWD); a closed event removes that sender, ending the stream (AS-REMOVE). Not decided: waker behaviour (futures crate), order and "
                "exactly-once as observed (inherits C06).")


def check_C20(ctx):
    for cfg, F in ctx.configs(["K4", "K5"] + (["K6", "K8"] if ctx.tier == "thorough" else [])):
        asyn.rule_as_order(ctx, cfg, F)
        # the routing thread keys its forwarding senders by receiver-set ids: two live members never share one
        rset.rule_set_id(ctx, cfg, F, "unix" if cfg in ("K4", "K6") else "inprocess")
        # items are decoded lazily on the consumer's thread: a failed decode releases the message's attachments (a parked sender would keep another stream from ending)
        tls.rule_tls_restore(ctx, cfg, F)
        asyn.rule_as_poll(ctx, cfg, F)
        ctx.rule("AS-POLL").floor("poll_fns[%s]" % cfg, 1, cfg)
        ctx.rule("AS-ORDER").floor("to_stream[%s]" % cfg, 1, cfg)
        asyn.rule_as_loop(ctx, cfg, F)
        router.rule_batch_order(ctx, cfg, F, "AS-BATCH-ORDER", only_prefix="asynch::")
        ctx.rule("AS-DRAIN").floor("routing_fns[%s]" % cfg, 1, cfg)
        ctx.rule("AS-DRAIN").floor("install_sites[%s]" % cfg, 1, cfg)
        ctx.rule("AS-FWD").floor("message_paths[%s]" % cfg, 1, cfg)
        ctx.rule("AS-REMOVE").floor("closed_paths[%s]" % cfg, 1, cfg)
    for cfg, F in ctx.configs(["K4"]):
        rset.rule_set_unix(ctx, cfg, F)
        # the routing thread stops for good on any select() error: once a message's first packet has been read, the receive has no error exit left that is about
        # that one message only (descriptor shortage, truncated control data) -- those must not end every stream in the process
        recv.rule_msg_commit(ctx, cfg, F)
    for c in ("K4", "K5"):
        if c in ctx.unavailable:
            ctx.rule("BUILD").violate("%s:does-not-compile" % c, "the async configuration %s does not compile: %s" % (c, ctx.unavailable[c][0]), config=c)
    ctx.assume("futures::channel::mpsc unbounded channels are FIFO and wake the polling task on send; dropping the last UnboundedSender ends the stream")


LEVEL["C19"] = ("Decides the build- and surface-level clauses of C19 only: every Linux configuration type-checks against the shared layers (BUILD-ALL); the OS and in-process transports "
                "export the same platform surface (SURFACE-PARITY); both satisfy the same error-class mapping (ERR-MAP, ZERO-READ / TIMEOUT-ARM / NB-PAIR on the OS side, ERR-CLASS-INPROC on the in-process side), mode table "
                "(MODE-TABLE), id provenance (SET-ID), side-table discipline (TLS-RESTORE), index discipline (IDX-POS) and one-shot-server ownership and naming "
                "(OSS-OWN, OSS-NAME), evaluated per backend and reported side by side. Not decided: result sequences of programs; the ideal-FIFO comparison. Also per backend: the receiver-set rules (SET-DRAIN etc. on the OS side, SET-INPROC in process) and the mode clause NB-MODE.")


def check_C19(ctx):
    parity.rule_build_all(ctx, ["K1", "K2", "K3", "K4", "K5"] + (["K6", "K7", "K8"] if ctx.tier == "thorough" else []))
    try:
        Fa, Fb = ctx.F("K1"), ctx.F("K3")
        parity.rule_surface_parity(ctx, Fa, Fb)
        ctx.rule("SURFACE-PARITY").floor("unix_functions", 18)
        ctx.rule("SURFACE-PARITY").floor("inprocess_functions", 18)
    except Exception as e:
        if not isinstance(e, report_ConfigUnavailable):
            raise
    for cfg, F in ctx.configs(["K1", "K3"]):
        recv.rule_err_map(ctx, cfg, F)
        recv.rule_mode_table(ctx, cfg, F)
        # every message handed to send is handed to the transport (an ideal FIFO delivers empty messages too), and a receive error is classified in one place
        _result_used(ctx, cfg, F)
        recv.rule_recv_conv(ctx, cfg, F)
        # 'empty' is 'empty' on every transport: the would-block answer of a polling receive is converted directly, in one place per layer
        recv.rule_try_conv(ctx, cfg, F)
        tls.rule_tls_restore(ctx, cfg, F)
        rset.rule_set_id(ctx, cfg, F, "unix" if cfg == "K1" else "inprocess")
        ipcl.rule_idx_pos(ctx, cfg, F)
        oss.rule_oss_own(ctx, cfg, F, "unix" if cfg == "K1" else "inprocess")
        oss.rule_oss_name(ctx, cfg, F, "unix" if cfg == "K1" else "inprocess")
    # outcome classes of each transport's receive path: a divergence in one backend is a divergence between backends
    for cfg, F in ctx.configs(["K1", "K2"]):
        recv.rule_zero_read(ctx, cfg, F)
        recv.rule_timeout_arm(ctx, cfg, F)
        ctx.rule("TIMEOUT-ARM").floor("poll_sites[%s]" % cfg, 1, cfg)
        recv.rule_nb_pair(ctx, cfg, F)
        recv.rule_nb_mode(ctx, cfg, F)
    for cfg, F in ctx.configs(["K3"]):
        recv.rule_inproc_classes(ctx, cfg, F)
    # receiver sets: each backend hands out every pending event of a ready member (a bounded or early-ending drain on one backend is a divergence)
    for cfg, F in ctx.configs(["K1"]):
        rset.rule_set_unix(ctx, cfg, F)
        ctx.rule("SET-DRAIN").floor("member_reads[%s]" % cfg, 1, cfg)
    for cfg, F in ctx.configs(["K3"]):
        rset.rule_set_inproc(ctx, cfg, F)
    # shared memory: each backend keeps (pointer, length, backing object) coupled, also for received and cloned regions
    for cfg, F in ctx.configs(["K1", "K2"]):
        ipcl.rule_shm_couple(ctx, cfg, F)
        # attachments of a fragmented message: the OS backends sort descriptors by their own kind, as the in-process backend keeps typed lists
        ipcl.rule_split_classify(ctx, cfg, F)
        ctx.rule("SPLIT-CLASSIFY").floor("descriptor_loads[%s]" % cfg, 1, cfg)
        send.rule_dedicated_last(ctx, cfg, F)
    for cfg, F in ctx.configs(["K3"]):
        ipcl.rule_shm_inproc(ctx, cfg, F)
    for cfg, F in ctx.configs(["K1"]):
        # a dropped receiver is gone on every transport: the OS transport closes its descriptor whatever number it has, so later sends fail as they do in-process
        fd.rule_fd_drop(ctx, cfg, F, fd.build_model(F))
    ctx.assume("the macOS and Windows backends cannot be type-checked on this host and are out of scope")


from vlib.report import ConfigUnavailable as report_ConfigUnavailable  # noqa: E402


def _also(pid, text):
    LEVEL[pid] = LEVEL[pid] + " " + text


# clauses bound after the fourth seeding round (each is a necessary condition of the property it is listed under; the rule texts are in the evidence)
_also("C01", "Also: no transmission error is swallowed in the platform send other than the guarded retry (SEND-PROP), and every polling receive leaves the descriptor in blocking mode "
             "(NB-PAIR, NB-MODE), so the matching blocking receive waits for the value instead of failing with would-block.")
_also("C02", "Also: a timed receive that poll reports ready reads the message (TIMEOUT-ARM); ids of set members come from one monotone counter (SET-ID), so two live members never share an id.")
_also("C03", "Also: no received or created descriptor survives an error exit of the unix backend (FD-PATH) and none is inheritable by a spawned program (CLOEXEC): a leaked or "
             "inherited sending end would keep the channel connected.")
_also("C04", "Also: the blocking mode is never cached beside the descriptor (NB-PAIR, NB-MODE: fcntl flags are constants applied per call), and the total descriptor count of a message "
             "is bounded by the receiver's control buffer (FD-BOUND).")
_also("C05", "Also: the backing file is created with exactly the region's length (SHM-SIBLING store-size clause: the receiver maps what fstat reports); mmap is reached only with a length "
             "tested non-zero and its result is compared with MAP_FAILED (MAP-GUARD); the per-message socket of a fragmented message is taken from the end of the list, never mapped (DEDICATED-LAST).")
_also("C06", "Also: the closed class a member is reported with originates from a zero-length read of its own socket, and an aborted multi-fragment message is not turned into an I/O error that "
             "makes select drop the batch (CLOSED-ORIGIN).")
_also("C07", "Also: the forwarding closures never unwrap the crossbeam send (RT-FORWARD): a consumer that went away does not panic the router thread.")
_also("C08", "Also: client and server derive the socket address from the name with the same function and connect() fails only after the OS refused (OSS-ADDR); no descriptor is handed out in "
             "non-blocking mode (NB-PAIR, which also follows SOCK_NONBLOCK at creation and F_GETFL-based masks).")
_also("C09", "Also: Drop of a receiver set closes every member on every turn of its loop, also while unwinding (FD-DROP container clause); received descriptors are close-on-exec (CLOEXEC).")
_also("C10", "Also: the ipc layer converts the platform error of a polling receive straight into TryRecvError (TRY-CONV), the only conversion that maps would-block to Empty.")
_also("C11", "Also: a named shared-memory object is unlinked before any other OS call can fail (SHM-UNLINK-FIRST).")
_also("C13", "Also: the room reserved for follow-up fragments is counted from the buffer's length (REASM-CONTIG reservation clause), so a first fragment shrunk by a retry does not leave the buffer short.")
_also("C14", "Also: no endpoint taken for a message survives an error exit of the platform send (FD-PATH).")
_also("C16", "Also: a zero-length region received from a peer is handled before mmap (MAP-GUARD).")
_also("C17", "Also: while stopping the router unwraps nothing but the acknowledgement send (STOP-NOPANIC): no new resource is acquired on the stop path.")
_also("C18", "Also: mmap's length is tested non-zero and its result compared with MAP_FAILED before use (MAP-GUARD).")
_also("C19", "Also: the OS backends sort received descriptors by their own kind and take the per-message socket from the end (SPLIT-CLASSIFY, DEDICATED-LAST), as the in-process backend keeps typed lists.")
_also("C20", "Also: poll_next passes the caller's context to the forwarding channel on every path (AS-POLL), so each pending poll is woken.")


# clauses bound after the fifth seeding round
_also("C01", "Also: decoding is re-entrant (TLS-RESTORE, IDX-BASE on the decode tables); the per-message socket is found again by the receiver and keeps packet boundaries (DEDICATED-LAST, SPLIT-CLASSIFY, SOCK-TYPE).")
_also("C02", "Also: every socket is SOCK_SEQPACKET (SOCK-TYPE); the router's forwarding closures hand a message on exactly once (RT-FORWARD).")
_also("C04", "Also: a ready poll reads (TIMEOUT-ARM), so a transferred receiver yields its backlog whichever receive flavour drains it.")
_also("C07", "Also: descriptors received in routed messages are close-on-exec (CLOEXEC).")
_also("C10", "Also: a failed poll is passed on as the OS error, never as an expired wait (TIMEOUT-ARM); each in-process entry point reaches its own crossbeam receive on every feasible path (MODE-TABLE).")
_also("C11", "Also: the router stops when its proxy is gone (STOP-EXIT and the other router stop rules): a router that never stops keeps its epoll descriptor and every routed receiver.")
_also("C12", "Also: the per-message socket is connection-oriented SOCK_SEQPACKET (SOCK-TYPE): the death of the sender ends the follow-up reads.")
_also("C13", "Also: only `result > 0` counts as a sent fragment (SEND-CHECK); inside the loop the give-up decision is taken on the refused fragment's size (RETRY-SHRINK).")
_also("C15", "Also: the attachment index on the wire is a full usize (IDX-POS index-type clause): where the transport sets no limit, any count is carried.")
_also("C16", "Also: no error exit lies between the first read of a message and the wrapping of the descriptors it carried (MSG-COMMIT).")
_also("C17", "Also: shutdown() records the stop on every path (STOP-FLAG), and no Drop impl of a router type stops or waits for the router (STOP-NODROP).")
_also("C18", "Also: the in-process region's pointer points into the Arc<Vec<u8>> stored beside it (SHM-INPROC).")
_also("C20", "Also: a failed lazy decode on the consumer's thread releases the message's attachments (TLS-RESTORE).")

# clauses bound after the sixth seeding round
_also("C01", "Also: a message never carries more descriptors than the receiver's control buffer holds, counting the per-message socket (FD-BOUND); no socket is given its own SO_SNDBUF/SO_RCVBUF, "
             "because packet sizes come from one process-wide measurement (SOCK-BUF).")
_also("C02", "Also: FD-BOUND (a dropped per-message socket means an accepted message that is never completed) and RT-ORDER (the router hands the batch on in the order reported; a stable sort by member is accepted).")
_also("C03", "Also: Disconnected is constructed only from the platform's closed-channel error (DISC-ORIGIN); in-process, accept() leaves no sender clone in the registry (OSS-OWN).")
_also("C04", "Also: every receive offers the kernel the whole control buffer -- a header or landing buffer handed in by the caller is rebuilt between two receives (SCRATCH-FRESH).")
_also("C05", "Also: a region keeps the descriptor of its backing object for as long as it lives (FD-MOVE, FD-CLOSE-OWNED): clones and transfers need it.")
_also("C06", "Also: scratch values shared between the reads of one select() call are rebuilt for each read (SCRATCH-FRESH).")
_also("C07", "Also (in-process): a routed receiver that came from a one-shot server can disconnect, because accept() removed the registry's sender clone (OSS-OWN).")
_also("C08", "Also: the connection's socket keeps the default buffer size the packet sizes were computed for (SOCK-BUF); the copy of the name into sun_path is limited by sun_path's own length (COPY-BOUND).")
_also("C10", "Also: a receive does not give the receiver's descriptor away or close it (RECV-KEEPS-FD); a wait built on select() bounds the descriptor against FD_SETSIZE (TIMEOUT-ARM).")
_also("C12", "Also: accept(2) is called once per accept(): a client that died before its first message is an error, not a reason to wait for another client (OSS-SAMEFD).")
_also("C14", "Also: a per-thread scalar cell written around the user's serialisation code and consulted by the attachment serialisers holds its entry value again at every normal return (TLS-RESTORE flag clause).")
_also("C15", "Also: SCRATCH-FRESH -- a reused control-message header cuts descriptors off a later message although the sender stayed within the limit.")
_also("C17", "Also: the proxy's locks are taken in one order by every entry point (LOCK-ORDER), and the function that records the stop waits for the acknowledgement on every path (STOP-FLAG ack-wait-skipped).")
_also("C18", "Also: raw copies into fixed-size arrays inside structs are limited by the array's own length (COPY-BOUND); a first packet is the whole message only when its length equals the announced one (TRUNC-ERR).")
_also("C19", "Also: the would-block answer of a polling receive is converted into Empty directly, in one place per layer, on every transport (TRY-CONV).")
_also("C20", "Also (in-process): stream ids come from a counter that only grows (SET-ID).")

# clauses bound after the seventh seeding round
_also("C02", "Also: poll_next passes Pending on only where the forwarding channel said Pending (AS-POLL), so the consuming task is woken for every message.")
_also("C03", "Also: the platform receive error reaches the caller through the ipc error conversion, never by way of io::Error (RECV-CONV); FD-BOUND (a receive that lost its per-message socket waits on, and reports the end of, somebody else's channel).")
_also("C04", "Also: a transferred receiver that is routed or turned into a stream is served without the router thread waiting on a consumer (RT-FORWARD) and has its route installed in the cycle it was queued in (AS-DRAIN).")
_also("C06", "Also: dropping a set leaves the poll instance alone (SET-CLOSE drop clause): it is shared with every process forked while the set is alive.")
_also("C07", "Also: a routed message that fails to decode gives its attachments back to the message (TLS-RESTORE); FD-BOUND (a routed message that lost its per-message socket parks the router thread).")
_also("C09", "Also: FD-BOUND (a receiving end in transit must not be taken for the carrying message's per-message socket); every ipc-layer send reaches the platform send on every successful path (RESULT-USED send-skipped).")
_also("C10", "Also: the poll timeout is converted without wrapping (TIMEOUT-ARM), 'empty' never comes from a stale errno (ERRNO-FRESH), and the receive function does not restart in a mode of its own (FOLLOWUP-BLOCKING).")
_also("C12", "Also: an aborted message does not make the receive start over in blocking mode (FOLLOWUP-BLOCKING restart clause); accept() does not call itself or loop (OSS-SAMEFD).")
_also("C13", "Also: fragment sizes inside the retry loop are computed from the estimate as it is after the last shrink (RETRY-SHRINK retry-size-stale).")
_also("C15", "Also: a nested send neither takes the enclosing message's attachments along nor restarts its numbering (TLS-RESTORE).")
_also("C16", "Also: attachments of an undecoded message are close-on-exec (CLOEXEC): a spawned child does not keep them open.")
_also("C17", "Also: every stop request is paired with a wake-up on every way it can come about (RT-PAIR), and what the caller handed in is not destroyed while the proxy mutex is held (STOP-FLAG user-value-dropped-under-lock).")
_also("C19", "Also: every message handed to send is handed to the transport (RESULT-USED send-skipped), receive errors are classified in one place (RECV-CONV), and a dropped receiver's descriptor is closed whatever its number (FD-DROP).")
_also("C20", "Also: poll_next neither makes Pending up nor closes the forwarding queue (AS-POLL); a receive has no per-message error exit that would end the routing thread (MSG-COMMIT).")


# --------------------------------------------------------------------------- registry metadata
NOT_APPLICABLE = {}
WITNESS_PROPS = []
_TECH = "static analysis over rustc MIR facts: "
META = {
    "C20": {"technique": _TECH + "dominance of enqueue over wake-up, segment summaries of the routing loop (per event and per select cycle), provenance of installed pairs",
            "note": "trusted: futures mpsc semantics; only built with the async feature (K4, K5)"},
    "C19": {"technique": "rustc type-checking of all five Linux configurations + " + _TECH + "comparison of the exported platform surfaces and per-backend instances of the shared rules",
            "note": "differential behaviour over programs is not decided; macOS/Windows excluded"},
    "C08": {"technique": _TECH + "ownership/RAII shape rules on the server type, provenance of the server name and the accepted descriptor, descriptor typestate on new/accept/connect",
            "note": "trusted: TempDir and Uuid behave as documented; connect/accept histories are runtime"},
    "C04": {"technique": _TECH + "provenance of serialised indices and table accesses across closures and helpers; ordering rules on the descriptor lists",
            "note": "trusted: SCM_RIGHTS preserves array order; identity of kernel objects is not decided"},
    "C01": {"technique": _TECH + "symbolic-expression shape rules on the header, fragment slices and reassembly window; provenance of payload buffers",
            "note": "value equality and fragment-size arithmetic are not decided"},
    "C05": {"technique": _TECH + "provenance/coupling of (pointer,length,store), symbolic equality of the length's four uses, sentinel edge summaries, mapping typestate",
            "note": "byte contents are not decided"},
    "C06": {"technique": _TECH + "path-sensitive exploration of the per-member read loop with accumulated result/closed/would-block facts; provenance of ids",
            "note": "trusted: mio edge-triggered registration, epoll queueing, crossbeam Select; schedules are not explored"},
    "C09": {"technique": _TECH + "result-sign path summaries of the transmitters; pending-error exploration of the platform send",
            "note": "trusted: kernel reports a vanished peer as an error; SIGPIPE not raised on SEQPACKET (experiment)"},
    "C13": {"technique": _TECH + "pending-error exploration of the fragment loop (retry guard, position discipline), shape check of downsize, interval bound on descriptors",
            "note": "fault patterns are not executed; arithmetic of fragment sizes is not decided"},
    "C02": {"technique": _TECH + "provenance of transmission descriptors to the per-message socketpair, dominance/ordering of list operations, call counting",
            "note": "trusted: kernel SEQPACKET FIFO and packet boundaries; schedules are not explored"},
    "C10": {"technique": _TECH + "path-sensitive set/restore pairing of O_NONBLOCK, constant-operand and provenance rules on the receive entry points",
            "note": "trusted: poll/recvmsg/fcntl semantics; timing is not decided"},
    "C03": {"technique": _TECH + "path summaries of the error conversions (variant and errno edges vs constructed result), result-sign edges of recvmsg",
            "note": "trusted: kernel EOF semantics for SEQPACKET sockets and descriptors in transit"},
    "C12": {"technique": _TECH + "path-sensitive relation tracking of follow-up read results against Ok returns; origin of the closed variant by dominating read",
            "note": "crash points themselves are runtime; only the receiver-side consequences are decided"},
    "C18": {"technique": _TECH + "nullness provenance with dominance guards, symbolic justification of set_len operands, allocation typestate",
            "note": "three necessary conditions only; no memory-safety proof of the unsafe blocks"},
    "C15": {"technique": _TECH + "interval analysis of the descriptor vector's length along feasible paths with comparison refinement",
            "note": "trusted: receiver capacity constant is the one feeding CMSG_SPACE in the receive path; guards written on the parameter lengths instead of the vector are not recognised (would be reported)"},
    "C16": {"technique": _TECH + "call-graph closure of the decode entry points, enumeration of panic sources, provenance of converted attachments",
            "note": "trusted: bincode/serde are cut points that return Err; allocation failure out of scope; macOS/Windows backends not analysed"},
    "C17": {"technique": _TECH + "path-sensitive exploration of the router loop with accumulated event/control facts; dominance rules on the proxy",
            "note": "trusted: IpcReceiverSet semantics (C06); user callbacks do not re-enter the proxy; unwind paths excluded"},
    "C07": {"technique": _TECH + "pairing/post-dominance of control and wake-up sends; provenance of table keys and dispatched messages along feasible paths",
            "note": "trusted: crossbeam FIFO; Result::map closure semantics; receiver-set ordering (C06)"},
    "C14": {"technique": _TECH + "path-sensitive abstract interpretation of the side-table contents (ENTRY/EMPTY/message) over every exchange site",
            "note": "trusted: bincode entry points are the only way user serde code runs; unwind paths excluded; tables identified by RefCell borrow + element type"},
    "C11": {"technique": _TECH + "path-sensitive descriptor typestate, ownership summaries, Drop/close-on-exec rules",
            "note": "trusted: MIR of nightly == what stable compiles; kernel/libc semantics of close/accept/dup/shm_open; unwind paths excluded; macOS/Windows backends not analysed (no target std installed)"},
}


# --- bindings added after the eighth seed round
_also("C02", "Also: a decode that runs inside another decode leaves the outer message's attachment tables as it found them (TLS-RESTORE): the outer message is delivered, not consumed and lost.")
_also("C05", "Also: the region list of the message being serialised survives a send made from inside a Serialize impl (TLS-RESTORE).")
_also("C10", "Also: the in-process one-shot registry gives up its sender when the server is accepted (OSS-OWN), so a polling receive on the finished channel answers Disconnected, not Empty.")
_also("C12", "Also: Disconnected is produced from the platform's answer to the present call only (DISC-ORIGIN): an interrupted message cannot close the channel for good.")
_also("C14", "Also: the descriptor list of a message is created in the call that sends it (FD-BOUND's count starts at Vec::new), so the descriptors of a refused message cannot ride along with the next one.")
_also("C16", "Also: printing a received message that has not been decoded (`{:?}` on OpaqueIpcMessage) has no panic source either; a str cut at a byte offset is one (DECODE-NOPANIC).")
_also("C04", "Also: every iteration of the sender's collection loops pushes its descriptor (SPLIT-ORDER), so descriptors and payload indices stay in one-to-one correspondence.")
_also("C05", "Also: the name of a named backing object contains something that differs between a process and the children it forks within one second (SHM-NAME), so region creation in both does not collide on O_EXCL.")
_also("C08", "Also: every queue of the in-process backend is unbounded (INPROC-UNBOUNDED), so a client can connect and send before the server accepts, as on the OS transport.")
_also("C09", "Also: the router thread stops on Shutdown (STOP-EXIT), so the receivers it held vanish and a later send to a routed channel fails instead of being accepted and lost.")
_also("C18", "Also: the fill of a new region covers exactly [0, length) (SHM-LEN).")

