#!/bin/sh
# usage: tools/try_mutant.sh <patch.diff> [props...]  -- apply to /repo, run the checks, undo
set -e
P="$1"; shift
cd /repo && git apply "$P" && cd /verif
PROPS="$@"
[ -z "$PROPS" ] && PROPS="C01 C02 C03 C04 C05 C06 C07 C08 C09 C10 C11 C12 C13 C14 C15 C16 C17 C18 C19 C20"
for p in $PROPS; do
  out=$(./check $p 2>&1) || true
  echo "$out" | grep -E "^VIOLATION|checker crashed" | sed 's/replay=[^ ]* //' | sed "s/^/[$p] /" | cut -c1-260
done
git -C /repo checkout -- . 
echo "(repo restored: $(git -C /repo status --short | wc -l) modified files)"
