"""C08: one-shot server rules -- OSS-OWN, OSS-NAME, OSS-SAMEFD (plus FD-PATH / FD-DROP / NO-FORGET from rules/fd.py)."""
from vlib.flow import Tracer, chain_calls, edge_label
from vlib.mir import callee_name, op_local, strip_generics
from rules.send import _root_local


def rule_inproc_unbounded(ctx, cfg, F):
    R = ctx.rule("INPROC-UNBOUNDED", "every queue the in-process backend creates is unbounded (crossbeam_channel::unbounded): a send, and the connection notification of a one-shot "
                 "server, never wait for the other side -- a client can connect, send and leave before accept() is called, as on the OS transport")
    n = 0
    for f in sorted(F.fns.values(), key=lambda x: x.path):
        if not f.path.startswith("platform::inprocess") or f.file.endswith("test.rs"):
            continue
        for b, t in f.calls():
            nm = strip_generics(callee_name(t))
            if nm in ("crossbeam_channel::unbounded", "crossbeam_channel::bounded", "std::sync::mpsc::sync_channel", "std::sync::mpsc::channel", "crossbeam_channel::after", "crossbeam_channel::never"):
                n += 1
                if nm in ("crossbeam_channel::unbounded", "std::sync::mpsc::channel"):
                    R.ok("%s creates an unbounded queue" % f.path, f.loc(b), cfg)
                else:
                    R.violate("%s:bounded-queue" % strip_generics(f.path), "%s creates a queue with %s: the sending side (a client's connect or send) blocks until the receiving side takes the item, "
                              "so a client can no longer connect and send before the server accepts" % (f.path, nm), f.path, f.loc(b), config=cfg)
    R.count("queue_creations[%s]" % cfg, n)


def rule_oss_own(ctx, cfg, F, backend):
    R = ctx.rule("OSS-OWN", "the rendezvous resources are RAII-owned by the server value (descriptor closed by Drop, directory held as a TempDir) and accept() consumes the server "
                 "by value at both layers, so every exit of accept releases them; in-process: accept removes the registry entry on every normal path")
    srv = "platform::%s::OsIpcOneShotServer" % backend
    a = F.adts.get(srv)
    if not a:
        R.violate("anchor-missing:%s" % srv, "%s not found" % srv, config=cfg)
        return
    for name in ("platform::%s::OsIpcOneShotServer::accept" % backend, "ipc::IpcOneShotServer::<T>::accept"):
        f = F.fns.get(name)
        R.count("accept_fns[%s]" % cfg)
        if not f:
            R.violate("anchor-missing:%s" % name, "%s not found" % name, config=cfg)
            continue
        ty = f.local_ty(1)
        if ty.startswith("&"):
            R.violate("%s:self-by-reference" % strip_generics(name), "accept takes %s: the server (and its rendezvous resources) outlives the accept" % ty, f.path, f.loc(0), config=cfg)
        else:
            R.ok("%s takes self by value (%s)" % (name, ty), f.loc(0), cfg)
    if backend == "unix":
        tys = {fl["n"]: fl["t"] for fl in a["variants"][0]["fields"]}
        td = [n for n, t in tys.items() if t == "tempfile::TempDir"]
        if td:
            R.ok("server holds its directory as tempfile::TempDir (`%s`): deleted when the server is dropped" % td[0], None, cfg)
        else:
            R.violate("%s:no-tempdir-field" % srv, "the server does not own a TempDir (fields: %s): the socket's directory is not removed with the server" % tys, srv, config=cfg)
        if not a.get("drop"):
            R.violate("%s:no-drop" % srv, "the server type has no Drop impl", srv, config=cfg)
        # the TempDir stored is the one created in new()
        new = F.fns.get("platform::unix::OsIpcOneShotServer::new")
        if new:
            tr = Tracer(new)
            for b in new.live_blocks():
                for si, st in enumerate(new.stmts(b)):
                    if st["s"] == "assign" and st["rv"]["r"] == "agg" and st["rv"]["kind"].get("adt") == srv:
                        idx = [i for i, fl in enumerate(a["variants"][0]["fields"]) if fl["t"] == "tempfile::TempDir"]
                        if idx:
                            rs = tr.roots_of_operand(st["rv"]["a"][idx[0]])
                            if all(r.kind == "call" and r.id == "tempfile::Builder::tempdir" for r in rs) and rs:
                                R.ok("the stored TempDir is the one created in new()", new.loc(b, si), cfg)
                            else:
                                R.violate("platform::unix::OsIpcOneShotServer::new:tempdir-origin", "the TempDir stored in the server is not the one created by this call", new.path, new.loc(b, si), config=cfg)
    else:
        acc = F.fns.get("platform::inprocess::OsIpcOneShotServer::accept")
        if acc:
            rem = [b for b, t in acc.calls_to("std::collections::HashMap::remove")]
            # `if let Ok(mut servers) = REGISTRY.lock()`: the Err edge is the poisoned registry (another thread panicked while holding it), which the reference
            # turns into a panic with unwrap() -- not a normal path either way.  (try_lock's Err edge also means "somebody else holds it": that one counts.)
            tra = Tracer(acc)
            poisoned = []
            for b in acc.live_blocks():
                if acc.term(b)["t"] != "switch":
                    continue
                for s_ in acc.succ(b):
                    for lab in edge_label(acc, b, s_):
                        if lab["kind"] in ("variant", "variant_not") and lab.get("variant") == "Err" and lab.get("adt") == "std::result::Result" and \
                                any(r.kind == "call" and r.id in ("std::sync::Mutex::lock", "std::sync::poison::mutex::Mutex::lock") for r in _call_roots(acc, lab["place"])):
                            poisoned.append(s_)
            if rem and acc.all_paths_pass(0, rem + poisoned)[0]:
                R.ok("in-process accept removes the registry entry on every normal path", acc.loc(rem[0]), cfg)
            else:
                R.violate("platform::inprocess::OsIpcOneShotServer::accept:registry-entry-kept", "a normal path through accept leaves the server's registry entry behind", acc.path, acc.loc(0), config=cfg)


def _call_roots(f, pl):
    """the call whose result the place holds (not looking through value-transparent calls: Mutex::lock itself is what is asked for)"""
    from vlib.flow import Root
    l = pl["l"]
    for _ in range(8):
        ds = [d for d in f.defs().get(l, []) if not f.is_cleanup(d[0])]
        if len(ds) != 1:
            return set()
        b, si, node = ds[0]
        if si is None:
            return {Root("call", strip_generics(callee_name(node)), (), b)}
        rv = node["rv"]
        if rv["r"] in ("use", "cast") and op_local(rv["a"][0]) is not None:
            l = op_local(rv["a"][0])
            continue
        if rv["r"] in ("ref", "raw"):
            l = rv["pl"]["l"]
            continue
        return set()
    return set()


def rule_oss_name(ctx, cfg, F, backend):
    R = ctx.rule("OSS-NAME", "the name handed out by new() derives from a fresh temporary directory created in that call (unix) / a fresh UUID (in-process), never from a constant")
    new = F.fns.get("platform::%s::OsIpcOneShotServer::new" % backend)
    if not new:
        R.violate("anchor-missing:new", "OsIpcOneShotServer::new not found", config=cfg)
        return
    R.count("new_fns[%s]" % cfg)
    tr = Tracer(new)
    # the String in the returned tuple: locate Ok((server, name)) aggregate
    for b in new.live_blocks():
        for si, st in enumerate(new.stmts(b)):
            if st["s"] == "assign" and st["rv"]["r"] == "agg" and "tuple" in st["rv"]["kind"] and len(st["rv"]["a"]) == 2:
                name_op = st["rv"]["a"][1]
                if "String" not in new.local_ty(op_local(name_op) or 0):
                    continue
                names = chain_calls(new, name_op)
                deep = _deep_chain(new, name_op)
                if backend == "unix":
                    ok = "tempfile::TempDir::path" in deep and "tempfile::Builder::tempdir" in deep
                    what = "TempDir::path() of the directory created by this call"
                else:
                    ok = "uuid::v4::new_v4" in deep or "uuid::Uuid::new_v4" in deep
                    what = "Uuid::new_v4()"
                if ok:
                    R.ok("name derives from %s" % what, new.loc(b, si), cfg)
                else:
                    R.violate("%s:name-not-fresh" % new.path, "the server name does not derive from %s (chain: %s): two servers could get the same name" % (what, sorted(deep)[:8]), new.path, new.loc(b, si), config=cfg)
                # the same name is what bind() uses (unix)
                if backend == "unix":
                    binds = list(new.calls_to("libc::bind"))
                    if binds:
                        bdeep = _deep_chain(new, binds[0][1]["args"][1])
                        if "tempfile::TempDir::path" in bdeep:
                            R.ok("bind() uses a path inside the same temporary directory", new.loc(binds[0][0]), cfg)
                        else:
                            R.violate("%s:bind-path-origin" % new.path, "the address bound does not derive from the temporary directory", new.path, new.loc(binds[0][0]), config=cfg)


def rule_oss_addr(ctx, cfg, F):
    R = ctx.rule("OSS-ADDR", "client and server agree on the address of a name: connect() and OsIpcOneShotServer::new() both pass the result of new_sockaddr_un(name) to the OS, and connect() "
                 "reports failure only after the OS refused (every Err exit lies behind libc::socket / libc::connect): a name a listening server handed out is never rejected by a client-side test")
    new = F.fns.get("platform::unix::OsIpcOneShotServer::new")
    con = F.fns.get("platform::unix::OsIpcSender::connect")
    if not new or not con:
        R.violate("anchor-missing:connect", "connect / OsIpcOneShotServer::new not found", config=cfg)
        return
    n = 0
    builders = {}
    BUILD = ("libc::strncpy", "libc::strcpy", "libc::memcpy", "std::ptr::copy_nonoverlapping", "std::ptr::copy")
    for f, sysc in ((new, "libc::bind"), (con, "libc::connect")):
        for b, t in f.calls_to(sysc):
            n += 1
            chain = _deep_chain(f, t["args"][1])
            # how the address is made from the name: the crate's builder function, or (builder inlined) the copy into sun_path
            builders[sysc] = {c for c in chain if (c.startswith("platform::unix::") and "sockaddr" in c.lower()) or c in BUILD}
            if builders[sysc]:
                R.ok("%s: %s gets an address built by %s" % (f.path, sysc, ", ".join(sorted(builders[sysc]))), f.loc(b), cfg)
            else:
                R.violate("%s:address-origin" % f.path, "%s in %s does not use an address built from the name" % (sysc, f.path), f.path, f.loc(b), config=cfg)
    if len(builders) == 2 and builders["libc::bind"] and builders["libc::connect"] and builders["libc::bind"] != builders["libc::connect"]:
        R.violate("%s:address-built-differently" % con.path, "the binding side builds the address with %s, the connecting side with %s: they may disagree on what a name means" % (
            sorted(builders["libc::bind"]), sorted(builders["libc::connect"])), con.path, con.loc(0), config=cfg)
    R.count("address_uses[%s]" % cfg, n)
    gates = {b for b, t in con.calls() if strip_generics(callee_name(t)) in ("libc::socket", "libc::connect")}
    before = con.reachable(0, avoid=gates)
    bad = None
    for b in sorted(before - gates):
        for si, st in enumerate(con.stmts(b)):
            if st["s"] == "assign" and st["rv"]["r"] == "agg" and (st["rv"]["kind"].get("adt") or "") == "std::result::Result" and st["rv"]["kind"].get("variant") == "Err":
                bad = bad or (b, si)
    if bad:
        R.violate("%s:rejects-before-asking-the-os" % con.path, "connect() can fail before socket()/connect(): a test on the name that the binding side does not make turns a live server's name into an error", con.path, con.loc(*bad), config=cfg)
    else:
        R.ok("connect(): every Err exit lies behind socket()/connect()", con.loc(0), cfg)


def _deep_chain(f, operand, limit=200):
    """names of all calls on the backward chain, following every argument (not only transparent ones)"""
    out = set()
    seen = set()
    work = []
    l = op_local(operand)
    if l is None and operand.get("k") in ("cp", "mv"):
        l = operand["pl"]["l"]
    if l is not None:
        work.append(l)
    defs = f.defs()
    # memory filled through a pointer (strncpy(addr.sun_path.as_mut_ptr(), path, n), ptr::copy_nonoverlapping(src, dst, n)): the destination's
    # base local also derives from the source
    from rules.send import _root_place
    writes = []
    for b_, t_ in f.calls():
        nm_ = strip_generics(callee_name(t_))
        di, si_ = {"libc::strncpy": (0, 1), "libc::strcpy": (0, 1), "libc::memcpy": (0, 1), "std::ptr::copy_nonoverlapping": (1, 0), "std::ptr::copy": (1, 0),
                   "std::intrinsics::copy_nonoverlapping": (1, 0)}.get(nm_, (None, None))
        if di is not None and len(t_["args"]) > max(di, si_):
            rp = _root_place(f, t_["args"][di])
            sa = t_["args"][si_]
            if rp is not None and sa["k"] in ("cp", "mv"):
                writes.append((rp[0], sa["pl"]["l"], nm_))
    while work and len(seen) < limit:
        l = work.pop()
        if l in seen:
            continue
        seen.add(l)
        for (dl_, sl_, nm_) in writes:
            if dl_ == l:
                out.add(nm_)
                work.append(sl_)
        for (b, si, node) in defs.get(l, []):
            if f.is_cleanup(b):
                continue
            if si is None:
                out.add(strip_generics(callee_name(node)))
                for a in node["args"]:
                    if a["k"] in ("cp", "mv"):
                        work.append(a["pl"]["l"])
            else:
                rv = node["rv"]
                for a in rv.get("a", []):
                    if a["k"] in ("cp", "mv"):
                        work.append(a["pl"]["l"])
                if rv["r"] in ("ref", "raw", "discr"):
                    work.append(rv["pl"]["l"])
    return out


def rule_oss_samefd(ctx, cfg, F):
    R = ctx.rule("OSS-SAMEFD", "the receiver returned by accept wraps the descriptor returned by accept(2) on the server's own listening socket, and the first message is read from that same receiver")
    f = F.fns.get("platform::unix::OsIpcOneShotServer::accept")
    if not f:
        R.violate("anchor-missing:accept", "unix accept not found", config=cfg)
        return
    R.count("accept_sites[%s]" % cfg)
    tr = Tracer(f)
    accs = [(b, t) for b, t in f.calls() if strip_generics(callee_name(t)) in ("libc::accept", "libc::accept4")]
    if len(accs) != 1:
        R.violate("%s:accept-count" % f.path, "%d accept calls" % len(accs), f.path, f.loc(0), config=cfg)
        return
    ab, at = accs[0]
    recursive = [b for b, t in f.calls() if strip_generics(callee_name(t)) == strip_generics(f.path)]
    if recursive:
        R.violate("%s:accept-in-loop" % f.path, "accept() calls itself after a connection that did not deliver its first message: it then waits in accept(2) for a client that may never come "
                  "(the one-shot name is spent on the peer that went away), where the reference reports the error", f.path, f.loc(recursive[0]), config=cfg)
    if any(ab in f.natural_loop(h) for h in f.loop_headers()):
        R.violate("%s:accept-in-loop" % f.path, "accept(2) sits in a loop: a server that keeps accepting after a connection did not deliver its first message waits for a client that may never come "
                  "(the one-shot name is already spent on the peer that went away), where the reference reports the error", f.path, f.loc(ab), config=cfg)
    if any(r.kind == "param" and r.id == 1 and r.field_names()[:1] == ("fd",) for r in tr.roots_of_operand(at["args"][0])):
        R.ok("accept(2) is called on the server's own descriptor", f.loc(ab), cfg)
    else:
        R.violate("%s:accept-on-foreign-fd" % f.path, "accept(2) is not called on self.fd", f.path, f.loc(ab), config=cfg)
    # returned receiver: Ok((receiver, ..)) .0 roots -> from_fd(accept result); recv called on the same local
    ret_rx = None
    for b in f.live_blocks():
        for st in f.stmts(b):
            if st["s"] == "assign" and st["rv"]["r"] == "agg" and "tuple" in st["rv"]["kind"] and len(st["rv"]["a"]) == 4:
                ret_rx = st["rv"]["a"][0]
    if ret_rx is None:
        R.violate("%s:no-result-tuple" % f.path, "accept does not build its 4-tuple result", f.path, f.loc(0), config=cfg)
        return
    rl = _root_local(f, tr, ret_rx)
    rr = tr.roots_of_operand(ret_rx)
    wraps = False
    for r in rr:
        if r.kind == "call" and r.id.endswith("::OsIpcReceiver::from_fd"):
            a = f.term(r.block)["args"][0]
            wraps = any(x.kind == "call" and x.block == ab for x in tr.roots_of_operand(a))
    recvs = [(b, t) for b, t in f.calls() if strip_generics(callee_name(t)).endswith("::OsIpcReceiver::recv")]
    same = all({x.key() for x in tr.roots_of_operand(t["args"][0])} == {x.key() for x in rr} for b, t in recvs)
    # the first message read with the platform's free receive function on the accepted descriptor itself (the receiver wraps that same descriptor)
    free = [(b, t) for b, t in f.calls() if strip_generics(callee_name(t)) == "platform::unix::recv" and t["args"]]
    same = same and all(any(x.kind == "call" and x.block == ab for x in tr.roots_of_operand(t["args"][0])) and
                        all(x.kind == "call" and x.block == ab for x in tr.roots_of_operand(t["args"][0]) if x.kind == "call") for b, t in free)
    same = same and bool(recvs or free)
    recvs = recvs or free
    if wraps and same:
        R.ok("the returned receiver wraps the accepted descriptor and the first message is read from it", f.loc(recvs[0][0]), cfg)
    else:
        R.violate("%s:receiver-identity" % f.path, "returned receiver wraps the accepted descriptor: %s; first recv on that receiver: %s" % (wraps, same), f.path, f.loc(ab), config=cfg)
