#!/usr/bin/env python3
"""regenerate tables/known_fns.json from /repo's current tree (do this only when the tree is the new reference)"""
import sys, json, os
sys.path.insert(0, os.path.dirname(os.path.dirname(os.path.abspath(__file__))))
from vlib import extract, mir
names = set()
mods = set()
traits = set()
adts = set()
by_config = {}
for c in extract.CONFIGS:
    d, m = extract.extract(c)
    mods.update(d.get("mods", []))
    traits.update(d.get("traits", []))
    adts.update(a["path"] for a in d.get("adts", []))
    for f in d["fns"]:
        names.add(f["path"]); names.add(mir.strip_generics(f["path"]))
    by_config[c] = {"fns": {f["path"]: extract.fn_signature(f) for f in d["fns"]},
                    "adts": {a["path"]: extract.adt_shape(a) for a in d.get("adts", [])}}
json.dump({"comment": "inventory of the reference tree, all configurations: function paths (with and without generics), modules, traits, types; per configuration the signatures and type shapes used to recognise renamed items",
           "functions": sorted(names), "modules": sorted(mods), "traits": sorted(traits), "adts": sorted(adts), "by_config": by_config},
          open(os.path.join(os.path.dirname(os.path.dirname(os.path.abspath(__file__))), "tables", "known_fns.json"), "w"), indent=0, sort_keys=True)
print(len(names), "functions")
