//! E3: type-level witnesses decided by rustc itself (thorough tier).
//!
//! Each `compile_fail,E....` block is a program that must NOT type-check; the block that follows it
//! is its compiling twin, differing only in the offending line, so that a witness whose paths are
//! merely wrong cannot pass.  Run with `cargo +nightly test --doc --offline` (the error code is only
//! honoured on nightly).

/// C06 -- the receiver set is the exclusive consumer: `add` takes the receiver by value.
/// ```compile_fail,E0382
/// use ipc_channel::ipc::{self, IpcReceiverSet};
/// let (_tx, rx) = ipc::channel::<u8>().unwrap();
/// let mut set = IpcReceiverSet::new().unwrap();
/// set.add(rx).unwrap();
/// let _ = rx.try_recv(); // use after move
/// ```
/// ```no_run
/// use ipc_channel::ipc::{self, IpcReceiverSet};
/// let (_tx, rx) = ipc::channel::<u8>().unwrap();
/// let mut set = IpcReceiverSet::new().unwrap();
/// set.add(rx).unwrap();
/// ```
pub struct W06SetOwnsReceiver;

/// C08 -- a one-shot server is consumed by its single `accept`.
/// ```compile_fail,E0382
/// use ipc_channel::ipc::IpcOneShotServer;
/// let (server, _name) = IpcOneShotServer::<u8>::new().unwrap();
/// let _first = server.accept();
/// let _second = server.accept(); // use after move
/// ```
/// ```no_run
/// use ipc_channel::ipc::IpcOneShotServer;
/// let (server, _name) = IpcOneShotServer::<u8>::new().unwrap();
/// let _first = server.accept();
/// ```
pub struct W08AcceptOnce;

/// C16 / C04 -- a received message hands its attachments out at most once: `to` consumes the message.
/// ```compile_fail,E0382
/// fn decode_twice(m: ipc_channel::ipc::OpaqueIpcMessage) {
///     let _a: Result<u8, _> = m.to();
///     let _b: Result<u8, _> = m.to(); // use after move
/// }
/// ```
/// ```no_run
/// fn decode_once(m: ipc_channel::ipc::OpaqueIpcMessage) {
///     let _a: Result<u8, _> = m.to();
/// }
/// ```
pub struct W16DecodeOnce;

/// C02 / C03 -- a channel has a single consumer: receivers are not `Clone`.
/// ```compile_fail,E0277
/// fn need_clone<T: Clone>() {}
/// need_clone::<ipc_channel::ipc::IpcReceiver<u8>>();
/// ```
/// ```no_run
/// fn need_clone<T: Clone>() {}
/// need_clone::<ipc_channel::ipc::IpcSender<u8>>();
/// ```
pub struct W02ReceiverNotClone;

/// C02 -- the bytes receiver is not `Clone` either.
/// ```compile_fail,E0277
/// fn need_clone<T: Clone>() {}
/// need_clone::<ipc_channel::ipc::IpcBytesReceiver>();
/// ```
/// ```no_run
/// fn need_clone<T: Clone>() {}
/// need_clone::<ipc_channel::ipc::IpcBytesSender>();
/// ```
pub struct W02BytesReceiverNotClone;

/// C14 -- the platform send takes the attachment lists by value (they are dropped on every exit).
/// ```compile_fail,E0382
/// use ipc_channel::platform::{self, OsIpcChannel};
/// let (tx, _rx) = platform::channel().unwrap();
/// let channels: Vec<OsIpcChannel> = vec![];
/// let _ = tx.send(b"x", channels, vec![]);
/// drop(channels); // use after move
/// ```
/// ```no_run
/// use ipc_channel::platform::{self, OsIpcChannel};
/// let (tx, _rx) = platform::channel().unwrap();
/// let channels: Vec<OsIpcChannel> = vec![];
/// let _ = tx.send(b"x", channels, vec![]);
/// ```
pub struct W14AttachmentsByValue;
