#!/usr/bin/env python3
"""Re-evaluate every seeded change against all 20 checks (on scratch copies of /repo, never /repo itself) and rewrite the
`detected_by` / `detected` / `detected_by_own_property` fields of seeded/<id>/meta.json.  Run after rules changed, then
regenerate the table of DESIGN.md section 11 with tools/seed_table.py.

  tools/refresh_seeds.py [-j N] [ids...]"""
import glob, json, os, re, shutil, subprocess, sys, tempfile
from concurrent.futures import ThreadPoolExecutor
VERIF = os.path.dirname(os.path.dirname(os.path.abspath(__file__)))
ALL = ["C%02d" % i for i in range(1, 21)]


def one(meta_p):
    meta = json.load(open(meta_p))
    d = tempfile.mkdtemp(prefix="ipcv-refresh-")
    ev = tempfile.mkdtemp(prefix="ipcv-refresh-ev-")
    try:
        subprocess.run(["rsync", "-a", "--exclude", "target", "--exclude", ".git", "/repo/", d + "/"], check=True)
        r = subprocess.run(["patch", "-p1", "-s", "-i", os.path.join(os.path.dirname(meta_p), "patch.diff")], cwd=d, capture_output=True, text=True)
        if r.returncode != 0:
            return meta["id"], None
        env = dict(os.environ, IPCV_REPO=d, IPCV_EVIDENCE_DIR=ev)
        det = {}
        for p in ALL:
            rr = subprocess.run([os.path.join(VERIF, "check"), p], capture_output=True, text=True, env=env)
            keys = re.findall(r"^VIOLATION property=\S+ replay=\S+ rule=\S+ key=(.*)$", rr.stdout, re.M)
            if keys:
                det[p] = keys
        meta["detected_by"] = det
        meta["detected"] = bool(det)
        meta["detected_by_own_property"] = meta["breaks_property"] in det
        json.dump(meta, open(meta_p, "w"), indent=1)
        return meta["id"], det
    finally:
        shutil.rmtree(d, ignore_errors=True)
        shutil.rmtree(ev, ignore_errors=True)


def main():
    args = sys.argv[1:]
    j = 6
    if "-j" in args:
        j = int(args[args.index("-j") + 1])
        del args[args.index("-j"):args.index("-j") + 2]
    metas = sorted(glob.glob(os.path.join(VERIF, "seeded", "*", "meta.json")))
    if args:
        metas = [m for m in metas if os.path.basename(os.path.dirname(m)) in args]
    bad = 0
    with ThreadPoolExecutor(max_workers=j) as ex:
        for sid, det in ex.map(one, metas):
            if det is None:
                print("SKIP %s: patch does not apply" % sid)
                bad += 1
                continue
            own = sid.split("-")[0] in det
            bad += 0 if own else 1
            print("%s %s  %s" % ("ok  " if own else "MISS", sid, {k: len(v) for k, v in det.items()}))
    return 1 if bad else 0


if __name__ == "__main__":
    sys.exit(main())
