"""Provenance (backward slices), symbolic expressions, edge labelling and a small
path-sensitive explorer over the MIR facts.  Shared by all rules; contains no rule.
"""
from collections import deque

from .mir import (callee_is, callee_name, op_const, op_local, op_place, place_key, place_str,
                  strip_generics)

# Calls whose result is (for provenance purposes) their first argument, possibly with a
# payload projection.  Confirmed by reading std's definitions; all are std/core items.
TRANSPARENT = {
    # name (generics stripped) : (arg index, prefix path applied to the argument)
    "std::ops::Deref::deref": (0, ()),
    "std::ops::DerefMut::deref_mut": (0, ()),
    "<std::sync::Arc<T, A> as std::ops::Deref>::deref": (0, ()),
    "<std::vec::Vec<T, A> as std::ops::Deref>::deref": (0, ()),
    "<std::vec::Vec<T, A> as std::ops::DerefMut>::deref_mut": (0, ()),
    "<std::cell::RefMut<'b, T> as std::ops::DerefMut>::deref_mut": (0, ()),
    "<std::cell::RefMut<'b, T> as std::ops::Deref>::deref": (0, ()),
    "<std::cell::Ref<'b, T> as std::ops::Deref>::deref": (0, ()),
    "<std::sync::MutexGuard<'_, T> as std::ops::Deref>::deref": (0, ()),
    "<std::sync::MutexGuard<'_, T> as std::ops::DerefMut>::deref_mut": (0, ()),
    "<std::ffi::CString as std::ops::Deref>::deref": (0, ()),
    "std::cell::Cell::get": (0, ()),
    "std::cell::RefCell::borrow_mut": (0, ()),
    "std::cell::RefCell::borrow": (0, ()),
    "std::ops::Try::branch": (0, ()),
    "<std::result::Result<T, E> as std::ops::Try>::branch": (0, ()),
    "<std::option::Option<T> as std::ops::Try>::branch": (0, ()),
    "std::ops::FromResidual::from_residual": (0, ()),
    "<std::result::Result<T, F> as std::ops::FromResidual<std::result::Result<std::convert::Infallible, E>>>::from_residual": (0, ()),
    "std::result::Result::unwrap": (0, (("f", 0),)),
    "std::result::Result::expect": (0, (("f", 0),)),
    "std::option::Option::unwrap": (0, (("f", 0),)),
    "std::option::Option::expect": (0, (("f", 0),)),
    "std::option::Option::as_ref": (0, ()),
    "std::result::Result::as_ref": (0, ()),
    "std::result::Result::err": (0, ()),
    "std::option::Option::copied": (0, ()),
    "std::option::Option::cloned": (0, ()),
    "std::option::Option::as_mut": (0, ()),
    "std::convert::Into::into": (0, ()),
    "<T as std::convert::Into<U>>::into": (0, ()),
    "<T as std::convert::From<T>>::from": (0, ()),
    "std::iter::IntoIterator::into_iter": (0, ()),
    "<I as std::iter::IntoIterator>::into_iter": (0, ()),
    "std::clone::Clone::clone": (0, ()),
    "std::ptr::mut_ptr::<impl *mut T>::add": (0, ()),
    "std::ptr::const_ptr::<impl *const T>::add": (0, ()),
    "std::ptr::mut_ptr::<impl *mut T>::cast": (0, ()),
    "std::ptr::const_ptr::<impl *const T>::cast": (0, ()),
    "std::sync::Mutex::lock": (0, ()),
    "std::sync::poison::mutex::Mutex::lock": (0, ()),
    "std::cell::Cell::new": (0, ()),
    "std::slice::from_raw_parts": (0, ()),
    "std::slice::from_raw_parts_mut": (0, ()),
    "std::result::Result::map_err": (0, ()),
    "core::slice::as_ptr": (0, ()),
    "core::slice::as_mut_ptr": (0, ()),
    "std::vec::Vec::as_ptr": (0, ()),
    "std::vec::Vec::as_mut_ptr": (0, ()),
    "std::vec::Vec::as_slice": (0, ()),
    "std::vec::Vec::as_mut_slice": (0, ()),
    "std::result::Result::unwrap_or": (0, ()),
    "std::option::Option::unwrap_or": (0, ()),
    "std::result::Result::map_err": (0, ()),      # the Ok payload passes through unchanged
    "std::convert::TryInto::try_into": (0, ()),
    "std::convert::TryFrom::try_from": (0, ()),
    "<T as std::convert::TryFrom<U>>::try_from": (0, ()),
    "std::ptr::const_ptr::cast_mut": (0, ()),
    "std::ptr::mut_ptr::cast_const": (0, ()),
    "std::ptr::const_ptr::<impl *const T>::cast_mut": (0, ()),
    "std::ptr::mut_ptr::<impl *mut T>::cast_const": (0, ()),
    "<T as std::convert::TryInto<U>>::try_into": (0, ()),
    "std::convert::TryFrom::try_from": (0, ()),
    "std::option::Option::and_then": (0, ()),
    "std::option::Option::ok_or_else": (0, ()),
    "std::option::Option::ok_or": (0, ()),
    "std::option::Option::take": (0, ()),
    "std::result::Result::ok": (0, ()),           # Ok(x) -> Some(x): the payload stays at field 0
    "std::option::Option::flatten": (0, ()),
    "std::collections::HashMap::values": (0, ()),
    "std::collections::HashMap::iter": (0, ()),
    "core::slice::iter": (0, ()),
    "core::slice::iter_mut": (0, ()),
    "std::vec::Vec::drain": (0, ()),
    "mio::Events::iter": (0, ()),
    # `next()` yields an element of the underlying collection: drop the Some-payload projection
    "std::iter::Iterator::next": (0, "pop1"),
    "std::ptr::const_ptr::add": (0, ()),
    "std::ptr::mut_ptr::add": (0, ()),
    "std::ptr::const_ptr::cast": (0, ()),
    "std::ptr::mut_ptr::cast": (0, ()),
}
TRANSPARENT = {strip_generics(k): v for k, v in TRANSPARENT.items()}


def transparent(t):
    for n in (t.get("resolved"), t.get("callee")):
        if n:
            s = strip_generics(n)
            if s in TRANSPARENT:
                return TRANSPARENT[s]
    return None


def _proj_path(pl):
    out = []
    for e in pl.get("p", []):
        if e == "*":
            continue
        if "f" in e:
            out.append(("f", e["f"], e["n"]))
        elif "v" in e:
            out.append(("v", e["v"], e["n"]))
        elif "i" in e:
            out.append(("idx", e["i"]))
        elif "ci" in e:
            out.append(("cidx", e["ci"]))
        else:
            out.append(("o",))
    return tuple(out)


def _fields(path):
    return tuple(p for p in path if p[0] == "f")


class Root:
    __slots__ = ("kind", "id", "path", "block")

    def __init__(self, kind, ident, path=(), block=None):
        self.kind = kind
        self.id = ident
        self.path = tuple(path)
        self.block = block

    def key(self):
        return (self.kind, self.id, self.path, self.block)

    def __hash__(self):
        return hash(self.key())

    def __eq__(self, o):
        return self.key() == o.key()

    def field_names(self):
        return tuple(p[2] if len(p) > 2 and p[2] else str(p[1]) for p in self.path if p[0] == "f")

    def field_idx(self):
        return tuple(p[1] for p in self.path if p[0] == "f")

    def __repr__(self):
        tail = "".join("." + (p[2] if len(p) > 2 and p[2] else str(p[1])) for p in self.path if p[0] in ("f",))
        if self.kind == "call":
            return "call[%s@bb%s]%s" % (self.id, self.block, tail)
        return "%s[%s]%s" % (self.kind, self.id, tail)


class Tracer:
    """Flow-insensitive backward slice of a value to the set of things it can come from."""

    def __init__(self, fn, extra_transparent=None):
        self.fn = fn
        self.defs = fn.defs()
        self._memo = {}
        # calls a rule wants looked through in addition to the general table (`mem::take(&mut v)` hands on what v held), name -> (arg index, prefix)
        self.extra_transparent = dict(extra_transparent or {})

    def roots_of_operand(self, op, extra_path=()):
        if op["k"] == "c":
            if "v" in op:
                return {Root("const", op["v"])}
            if "pv" in op:
                return {Root("const", op["pv"])}
            if "static" in op:
                return {Root("static", op["static"], extra_path)}
            if "fn" in op:
                return {Root("fnptr", op["fn"])}
            return {Root("const", op.get("path") or op.get("s", "?"))}
        pl = op_place(op)
        if pl is None:
            return {Root("unknown", "?")}
        return self.roots(pl["l"], _proj_path(pl) + tuple(extra_path))

    def roots_of_place(self, pl, extra_path=()):
        return self.roots(pl["l"], _proj_path(pl) + tuple(extra_path))

    def roots(self, local, path=(), _stack=None):
        key = (local, path)
        if key in self._memo:
            return self._memo[key]
        stack = _stack or set()
        if key in stack:
            return set()
        stack = stack | {key}
        out = set()
        defs = [d for d in self.defs.get(local, []) if not self.fn.is_cleanup(d[0])]
        if 1 <= local <= self.fn.argc:
            out.add(Root("param", local, path))
        if not defs and not (1 <= local <= self.fn.argc):
            out.add(Root("local", local, path))
        for (b, si, node) in defs:
            if si is None:
                # call destination
                if node["dest"].get("p"):
                    out.add(Root("local", local, path))
                    continue
                tr = transparent(node)
                if tr is None and self.extra_transparent:
                    tr = self.extra_transparent.get(strip_generics(callee_name(node)))
                if tr is not None and node["args"]:
                    ai, pre = tr
                    a = node["args"][ai]
                    p2 = path
                    if pre == "pop1":
                        pre = ()
                        lst = list(path)
                        while lst and lst[0][0] == "v":
                            lst.pop(0)
                        if lst and lst[0][0] == "f":
                            lst.pop(0)
                        p2 = tuple(lst)
                    if a["k"] == "c":
                        out |= self.roots_of_operand(a, p2)
                    else:
                        pl = a["pl"]
                        out |= self.roots(pl["l"], _proj_path(pl) + tuple(pre) + p2, stack)
                else:
                    out.add(Root("call", strip_generics(callee_name(node)) or "indirect", path, b))
                continue
            st = node
            if st["lhs"].get("p"):
                if st["lhs"]["p"][0] == "*" and (self.fn.local_ty(local).startswith("&") or self.fn.local_ty(local).startswith("*")):
                    # a store THROUGH the reference/pointer held by this local does not define the local itself
                    continue
                # partial assignment into the local: field-sensitive match when possible
                lp = _proj_path(st["lhs"])
                if _fields(path)[:len(_fields(lp))] == _fields(lp):
                    rest = tuple(_drop_prefix(path, lp))
                    out |= self._rv_roots(st["rv"], rest, b, si, stack)
                continue
            out |= self._rv_roots(st["rv"], path, b, si, stack)
        self._memo[key] = out
        return out

    def _rv_roots(self, rv, path, b, si, stack):
        r = rv["r"]
        if r in ("use", "cast"):
            a = rv["a"][0]
            if a["k"] == "c":
                return self.roots_of_operand(a, path)
            pl = a["pl"]
            return self.roots(pl["l"], _proj_path(pl) + path, stack)
        if r in ("ref", "raw"):
            pl = rv["pl"]
            return self.roots(pl["l"], _proj_path(pl) + path, stack)
        if r == "agg":
            p = list(path)
            # variant-sensitive: `(x as Ok).0` cannot come from an `Err{..}` aggregate
            if p and p[0][0] == "v" and rv["kind"].get("vi") is not None and isinstance(p[0][1], int) and p[0][1] != rv["kind"]["vi"]:
                return set()
            while p and p[0][0] == "v":
                p.pop(0)
            if p and p[0][0] == "f" and p[0][1] < len(rv["a"]):
                a = rv["a"][p[0][1]]
                rest = tuple(p[1:])
                if a["k"] == "c":
                    return self.roots_of_operand(a, rest)
                pl = a["pl"]
                return self.roots(pl["l"], _proj_path(pl) + rest, stack)
            k = rv["kind"]
            name = k.get("adt") and ("%s::%s" % (k["adt"], k["variant"])) or k.get("closure") or ("tuple" if "tuple" in k else "array")
            return {Root("agg", name, path, b)}
        if r == "repeat":
            return self._rv_roots({"r": "use", "a": rv["a"]}, (), b, si, stack)
        if r == "tls":
            return {Root("static", rv["path"], path)}
        if r == "bin":
            return {Root("op", rv["op"], path, b)}
        if r == "un":
            if rv["op"] in ("PtrMetadata",):
                return {Root("op", "len", path, b)}
            return {Root("op", rv["op"], path, b)}
        if r == "discr":
            return {Root("op", "discriminant", path, b)}
        return {Root("op", r, path, b)}


def _drop_prefix(path, prefix):
    """remove the field elements of `prefix` from the front of `path` (variants skipped)"""
    need = [p for p in prefix if p[0] == "f"]
    out = []
    for p in path:
        if need and p[0] == "f" and p[:2] == need[0][:2]:
            need.pop(0)
            continue
        if need and p[0] == "v":
            continue
        out.append(p)
    return out




def ref_place(fn, operand, limit=40):
    """the storage a reference operand designates, as (base local, tuple of field indices): follows copies of the reference,
    reborrows and field projections (`&mut (*self_).data` with self_ = &mut message  ->  (message, (1,))).  A by-value
    operand designates itself.  None when a step is not a plain borrow/copy."""
    pl = op_place(operand)
    if pl is None:
        return None
    l = pl["l"]
    path = tuple(e["f"] for e in pl.get("p", []) if isinstance(e, dict) and "f" in e)
    for _ in range(limit):
        ty = fn.local_ty(l)
        if not (ty.startswith("&") or ty.startswith("*")):
            # a closure environment / tuple holding captured references: continue with the captured reference
            if path:
                dsa = [d for d in fn.defs().get(l, []) if not fn.is_cleanup(d[0]) and d[1] is not None and not d[2]["lhs"].get("p")]
                if len(dsa) == 1 and dsa[0][2]["rv"]["r"] == "agg" and ("closure" in dsa[0][2]["rv"]["kind"] or "tuple" in dsa[0][2]["rv"]["kind"]) \
                        and path[0] < len(dsa[0][2]["rv"]["a"]) and op_place(dsa[0][2]["rv"]["a"][path[0]]) is not None:
                    ap = dsa[0][2]["rv"]["a"][path[0]]["pl"]
                    if fn.local_ty(ap["l"]).startswith("&") or fn.local_ty(ap["l"]).startswith("*"):
                        path = tuple(e["f"] for e in ap.get("p", []) if isinstance(e, dict) and "f" in e) + path[1:]
                        l = ap["l"]
                        continue
            return (l, path)
        ds = [d for d in fn.defs().get(l, []) if not fn.is_cleanup(d[0]) and not (d[1] is not None and d[2].get("lhs", {}).get("p"))]
        if len(ds) != 1:
            return (l, path)
        b, si, node = ds[0]
        if si is None:
            tr = transparent(node)
            if tr is not None and node["args"] and op_place(node["args"][tr[0]]) is not None:
                a = node["args"][tr[0]]["pl"]
                path = tuple(e["f"] for e in a.get("p", []) if isinstance(e, dict) and "f" in e) + path
                l = a["l"]
                continue
            return (l, path)
        rv = node["rv"]
        if rv["r"] in ("ref", "raw"):
            src = rv["pl"]
        elif rv["r"] in ("use", "cast") and op_place(rv["a"][0]) is not None:
            src = rv["a"][0]["pl"]
        else:
            return (l, path)
        path = tuple(e["f"] for e in src.get("p", []) if isinstance(e, dict) and "f" in e) + path
        l = src["l"]
    return (l, path)


def value_reaches_place(fn, src_local, key, limit=200):
    """is the value created in `src_local` moved (through temporaries, struct construction and whole-struct moves) into the place `key` = (local, field path)?"""
    seen = set()
    work = [(src_local, ())]
    while work and len(seen) < limit:
        cur = work.pop()
        if cur in seen:
            continue
        seen.add(cur)
        if cur == key:
            return True
        l, path = cur
        for b in fn.live_blocks():
            for st in fn.stmts(b):
                if st["s"] != "assign" or st["lhs"].get("p"):
                    continue
                rv = st["rv"]
                if rv["r"] in ("use", "cast"):
                    sp = op_place(rv["a"][0])
                    if sp is not None and sp["l"] == l:
                        spath = tuple(e["f"] for e in sp.get("p", []) if isinstance(e, dict) and "f" in e)
                        if path[:len(spath)] == spath:
                            work.append((st["lhs"]["l"], path[len(spath):]))
                        elif not path and not spath:
                            work.append((st["lhs"]["l"], ()))
                elif rv["r"] == "agg":
                    for i, a in enumerate(rv["a"]):
                        ap = op_place(a)
                        if ap is not None and ap["l"] == l and not ap.get("p"):
                            work.append((st["lhs"]["l"], (i,) + path))
    return False


# ----------------------------------------------------------------------------- expressions

class Expr:
    """Symbolic expression of a value: single-definition temporaries are inlined, locals with
    several definitions (user variables, loop state) stay as leaves ('var', local)."""

    def __init__(self, fn, max_depth=24):
        self.fn = fn
        self.defs = fn.defs()
        self.max_depth = max_depth

    def of_operand(self, op, depth=0):
        if op["k"] == "c":
            if "v" in op:
                return ("const", op["v"])
            if "pv" in op:
                return ("const", op["pv"])
            if "static" in op:
                return ("static", op["static"])
            if "fn" in op:
                return ("fn", op["fn"])
            return ("const", op.get("path") or op.get("s"))
        return self.of_place(op["pl"], depth)

    def of_place(self, pl, depth=0):
        e = self.of_local(pl["l"], depth)
        for p in _proj_path(pl):
            if p[0] == "f":
                e = _field(e, p[1], p[2] if len(p) > 2 else "")
            elif p[0] == "v":
                e = ("variant", e, p[2])
            elif p[0] == "idx":
                e = ("index", e, self.of_local(p[1], depth + 1))
            else:
                e = ("proj", e, p)
        return e

    def of_local(self, l, depth=0):
        if depth > self.max_depth:
            return ("var", l)
        if 1 <= l <= self.fn.argc:
            return ("param", l)
        defs = [d for d in self.defs.get(l, []) if not self.fn.is_cleanup(d[0])]
        if len(defs) != 1:
            return ("var", l)
        b, si, node = defs[0]
        if si is None:
            if node["dest"].get("p"):
                return ("var", l)
            tr = transparent(node)
            args = [self.of_operand(a, depth + 1) for a in node["args"]]
            name = strip_generics(callee_name(node))
            if tr is not None and args and tr[1] != "pop1":
                e = args[tr[0]]
                for p in tr[1]:
                    e = _field(e, p[1], "")
                return e
            return ("call", name, tuple(args), b)
        st = node
        if st["lhs"].get("p"):
            return ("var", l)
        return self.of_rvalue(st["rv"], depth + 1, b)

    def of_rvalue(self, rv, depth, b=None):
        r = rv["r"]
        if r in ("use",):
            return self.of_operand(rv["a"][0], depth)
        if r == "cast":
            return self.of_operand(rv["a"][0], depth)
        if r in ("ref", "raw"):
            return self.of_place(rv["pl"], depth)
        if r == "bin":
            op = rv["op"].replace("WithOverflow", "").replace("Unchecked", "")
            return ("bin", op, self.of_operand(rv["a"][0], depth), self.of_operand(rv["a"][1], depth))
        if r == "un":
            return ("un", rv["op"], self.of_operand(rv["a"][0], depth))
        if r == "agg":
            k = rv["kind"]
            name = k.get("adt") and ("%s::%s" % (k["adt"], k["variant"])) or k.get("closure") or ("tuple" if "tuple" in k else "array")
            return ("agg", name, tuple(self.of_operand(a, depth) for a in rv["a"]))
        if r == "discr":
            return ("discr", self.of_place(rv["pl"], depth))
        if r == "tls":
            return ("static", rv["path"])
        return ("other", r)


def _field(e, idx, name):
    # (x op y).0 of a checked arithmetic pair is the arithmetic result
    if e[0] == "bin" and idx == 0:
        return e
    if e[0] == "agg" and idx < len(e[2]):
        return e[2][idx]
    return ("field", e, idx, name)


def expr_str(e):
    k = e[0]
    if k == "const":
        return str(e[1])
    if k == "param":
        return "arg%d" % e[1]
    if k == "var":
        return "_%d" % e[1]
    if k == "static":
        return "static(%s)" % e[1]
    if k == "call":
        return "%s(%s)" % (e[1].split("::")[-1] if not e[1].startswith("<") else e[1], ", ".join(expr_str(a) for a in e[2]))
    if k == "bin":
        return "(%s %s %s)" % (expr_str(e[2]), e[1], expr_str(e[3]))
    if k == "un":
        return "%s(%s)" % (e[1], expr_str(e[2]))
    if k == "field":
        return "%s.%s" % (expr_str(e[1]), e[3] or e[2])
    if k == "variant":
        return "(%s as %s)" % (expr_str(e[1]), e[2])
    if k == "agg":
        return "%s{%s}" % (e[1], ", ".join(expr_str(a) for a in e[2]))
    if k == "discr":
        return "discr(%s)" % expr_str(e[1])
    if k == "index":
        return "%s[%s]" % (expr_str(e[1]), expr_str(e[2]))
    return str(e)


def expr_strip_blocks(e):
    """structural form without block numbers (for equality between two sites)"""
    if not isinstance(e, tuple):
        return e
    if e and e[0] == "call":
        return ("call", e[1], tuple(expr_strip_blocks(a) for a in e[2]))
    return tuple(expr_strip_blocks(x) for x in e)


# ----------------------------------------------------------------------------- edge labels

PRED_CALLS = {
    "std::result::Result::is_ok": "is_ok",
    "std::result::Result::is_err": "is_err",
    "std::option::Option::is_some": "is_some",
    "std::option::Option::is_none": "is_none",
    "std::ptr::mut_ptr::<impl *mut T>::is_null": "is_null",
    "std::ptr::const_ptr::<impl *const T>::is_null": "is_null",
    "core::slice::<impl [T]>::is_empty": "is_empty",
    "std::vec::Vec::is_empty": "is_empty",
}


PRED_CALLS.update({
    "std::ops::ControlFlow::is_break": "is_break",
    "std::ops::ControlFlow::is_continue": "is_continue",
})
PRED_CALLS = {strip_generics(k): v for k, v in PRED_CALLS.items()}
# which discriminant value makes the predicate true
PRED_TRUE_DISCR = {"is_ok": 0, "is_err": 1, "is_some": 1, "is_none": 0, "is_break": 1, "is_continue": 0}
BRANCH_CALLS = ("std::ops::Try::branch",)


def _deref_operand(fn, a, limit=6):
    """`&x` / `&&x` (a temporary holding a reference) -> the operand x it refers to; constants stay as they are"""
    for _ in range(limit):
        l = op_local(a)
        if l is None:
            return a
        ds = [x for x in fn.defs().get(l, []) if not fn.is_cleanup(x[0])]
        if len(ds) != 1 or ds[0][1] is None:
            return a
        rv = ds[0][2]["rv"]
        if rv["r"] in ("ref", "raw") and not [e for e in rv["pl"].get("p", []) if e != "*"]:
            a = {"k": "cp", "pl": {"l": rv["pl"]["l"]}}
            if "*" not in rv["pl"].get("p", []):
                return a
            continue
        if rv["r"] == "use":
            a = rv["a"][0]
            if a.get("k") == "c":
                if "pv" in a and "v" not in a:
                    # a promoted `&0` / `&Ordering::Less`: the value it points to
                    a = {"k": "c", "t": str(a.get("t", "")).lstrip("&"), "v": a["pv"], "s": str(a["pv"]), **({"pvariant": a["pvariant"]} if a.get("pvariant") else {})}
                return a
            continue
        return a
    return a


def _ordering_test(fn, call, nm):
    """`a.cmp(&b) != Ordering::Less` and friends: (op, a, b) of the plain comparison it stands for, or None"""
    if not (nm.endswith("::eq") or nm.endswith("::ne")) or len(call["args"]) != 2:
        return None
    sides = [_deref_operand(fn, x) for x in call["args"]]
    var = None
    other = None
    for i, sd in enumerate(sides):
        pv = sd.get("pvariant") if sd.get("k") == "c" else None
        if pv in ("Less", "Equal", "Greater"):
            var, other = pv, sides[1 - i]
    if var is None or op_local(other) is None:
        return None
    ds = [x for x in fn.defs().get(op_local(other), []) if not fn.is_cleanup(x[0])]
    if len(ds) != 1 or ds[0][1] is not None or strip_generics(ds[0][2].get("callee") or "") not in ("std::cmp::Ord::cmp",):
        return None
    a_, b_ = [_deref_operand(fn, x) for x in ds[0][2]["args"][:2]]
    eq = nm.endswith("::eq")
    op_ = {("Less", True): "Lt", ("Less", False): "Ge", ("Greater", True): "Gt", ("Greater", False): "Le", ("Equal", True): "Eq", ("Equal", False): "Ne"}[(var, eq)]
    if a_.get("k") == "c" and b_.get("k") != "c":
        op_, a_, b_ = {"Lt": "Gt", "Le": "Ge", "Gt": "Lt", "Ge": "Le", "Eq": "Eq", "Ne": "Ne"}[op_], b_, a_
    return op_, a_, b_


# discriminant with which the call panics
_UNWRAPS = {"std::result::Result::unwrap": 1, "std::result::Result::expect": 1, "std::option::Option::unwrap": 0, "std::option::Option::expect": 0,
            "std::result::Result::unwrap_err": 0, "std::result::Result::expect_err": 0}


def switch_labels(fn, b):
    """For a SwitchInt terminator of block b: list of (target_block, label).
    label is a dict with 'kind' in {variant, cmp, pred, val, unknown}."""
    t = fn.term(b)
    if t["t"] != "switch":
        return []
    on = t["on"]
    arms = t["arms"]
    other = t["otherwise"]
    out = []
    l = op_local(on)
    d = None
    if l is not None:
        ds = [x for x in fn.defs().get(l, []) if not fn.is_cleanup(x[0])]
        if len(ds) == 1:
            d = ds[0]
    # a bool that is a plain copy of another single-definition bool (the result of an inlined predicate helper): look at the original
    hops = 0
    while d is not None and d[1] is not None and not d[2]["lhs"].get("p") and d[2]["rv"]["r"] == "use" and hops < 4:
        src = op_place(d[2]["rv"]["a"][0])
        if src is None or src.get("p") or fn.local_ty(src["l"]) != "bool":
            break
        ds2 = [x for x in fn.defs().get(src["l"], []) if not fn.is_cleanup(x[0])]
        if len(ds2) != 1:
            break
        d = ds2[0]
        hops += 1
    if d is not None and d[1] is not None and not d[2]["lhs"].get("p"):
        rv = d[2]["rv"]
        if rv["r"] == "discr":
            pk = place_key(rv["pl"])
            adt = rv["adt"]
            seen = []
            for v, tb in arms:
                out.append((tb, {"kind": "variant", "place": rv["pl"], "pk": pk, "adt": adt, "value": _signed_discr(v), "variant": _variant_name(fn, adt, v)}))
                seen.append(_signed_discr(v))
            out.append((other, {"kind": "variant_not", "place": rv["pl"], "pk": pk, "adt": adt, "not": seen,
                                "variant": _remaining_variant(fn, adt, seen)}))
            return out
        if rv["r"] == "bin" and rv["op"] in ("Lt", "Le", "Gt", "Ge", "Eq", "Ne"):
            op_, a_, b_ = rv["op"], rv["a"][0], rv["a"][1]
            if op_ in ("Eq", "Ne"):
                # `p == ptr::null_mut()` is `p.is_null()`
                def _is_null_ptr(o):
                    lo = op_local(o)
                    if lo is None:
                        return o.get("k") == "c" and str(o.get("t", "")).startswith("*") and o.get("v") == 0
                    dn = [x for x in fn.defs().get(lo, []) if not fn.is_cleanup(x[0])]
                    return len(dn) == 1 and dn[0][1] is None and strip_generics(callee_name(dn[0][2])) in ("std::ptr::null_mut", "std::ptr::null")
                ptr_side = b_ if _is_null_ptr(a_) else (a_ if _is_null_ptr(b_) else None)
                if ptr_side is not None:
                    for v, tb in arms:
                        out.append((tb, {"kind": "pred", "pred": "is_null", "arg": ptr_side, "truth": bool(int(v)) if op_ == "Eq" else not bool(int(v)), "def_block": d[0]}))
                    out.append((other, {"kind": "pred", "pred": "is_null", "arg": ptr_side, "truth": op_ == "Eq", "def_block": d[0]}))
                    return out
            if a_.get("k") == "c" and b_.get("k") != "c":
                # `0 > x` is `x < 0`: the constant goes to the right, so that rules read one spelling
                op_, a_, b_ = {"Lt": "Gt", "Le": "Ge", "Gt": "Lt", "Ge": "Le", "Eq": "Eq", "Ne": "Ne"}[op_], b_, a_
            for v, tb in arms:
                out.append((tb, {"kind": "cmp", "op": op_, "a": a_, "b": b_, "truth": bool(int(v)), "def_block": d[0]}))
            out.append((other, {"kind": "cmp", "op": op_, "a": a_, "b": b_, "truth": True, "def_block": d[0]}))
            return out
        if rv["r"] == "un" and rv["op"] == "Not":
            inner = rv["a"][0]
            il = op_local(inner)
            ids = [x for x in fn.defs().get(il, []) if not fn.is_cleanup(x[0])] if il is not None else []
            if len(ids) == 1 and ids[0][1] is None and strip_generics(callee_name(ids[0][2])) in PRED_CALLS:
                # `!p.is_null()` computed in a helper and tested by the caller: the predicate with the truth value inverted
                call = ids[0][2]
                nm_ = strip_generics(callee_name(call))
                for v, tb in arms:
                    out.append((tb, {"kind": "pred", "pred": PRED_CALLS[nm_], "arg": call["args"][0], "truth": not bool(int(v)), "def_block": ids[0][0]}))
                out.append((other, {"kind": "pred", "pred": PRED_CALLS[nm_], "arg": call["args"][0], "truth": False, "def_block": ids[0][0]}))
                return out
            for v, tb in arms:
                out.append((tb, {"kind": "not", "of": inner, "truth": bool(int(v))}))
            out.append((other, {"kind": "not", "of": inner, "truth": True}))
            return out
    if d is not None and d[1] is None and (fn.local_ty(d[2]["dest"]["l"]) == "bool" or d[2]["dest"].get("p")):
        # (a call result of an integer type that is matched on directly -- `match poll(..) { 0 => .., n if n < 0 => .., _ => .. }` -- is a value test, below)
        call = d[2]
        nm = strip_generics(callee_name(call))
        if nm in PRED_CALLS:
            for v, tb in arms:
                out.append((tb, {"kind": "pred", "pred": PRED_CALLS[nm], "arg": call["args"][0], "truth": bool(int(v)), "def_block": d[0]}))
            out.append((other, {"kind": "pred", "pred": PRED_CALLS[nm], "arg": call["args"][0], "truth": True, "def_block": d[0]}))
            return out
        oc = _ordering_test(fn, call, nm)
        if oc is not None:
            op_, a_, b_ = oc
            for v, tb in arms:
                out.append((tb, {"kind": "cmp", "op": op_, "a": a_, "b": b_, "truth": bool(int(v)), "def_block": d[0]}))
            out.append((other, {"kind": "cmp", "op": op_, "a": a_, "b": b_, "truth": True, "def_block": d[0]}))
            return out
        for v, tb in arms:
            out.append((tb, {"kind": "callbool", "callee": nm, "args": call["args"], "truth": bool(int(v)), "def_block": d[0]}))
        out.append((other, {"kind": "callbool", "callee": nm, "args": call["args"], "truth": True, "def_block": d[0]}))
        return out
    pl = op_place(on)
    if pl is not None:
        seen = []
        for v, tb in arms:
            out.append((tb, {"kind": "val", "place": pl, "pk": place_key(pl), "value": int(v)}))
            seen.append(int(v))
        out.append((other, {"kind": "val_not", "place": pl, "pk": place_key(pl), "not": seen}))
        return out
    for v, tb in arms:
        out.append((tb, {"kind": "unknown"}))
    out.append((other, {"kind": "unknown"}))
    return out


def _signed_discr(v):
    v = int(v)
    # Ordering::Less is -1 stored as u8 255 / as i8
    if v == 255 or v == (1 << 64) - 1 or v == (1 << 128) - 1:
        return -1
    return v


KNOWN_ENUMS = {
    "std::result::Result": {0: "Ok", 1: "Err"},
    "std::option::Option": {0: "None", 1: "Some"},
    "std::ops::ControlFlow": {0: "Continue", 1: "Break"},
    "std::cmp::Ordering": {-1: "Less", 0: "Equal", 1: "Greater"},
    "std::task::Poll": {0: "Ready", 1: "Pending"},
    "crossbeam_channel::TryRecvError": {0: "Empty", 1: "Disconnected"},
    "crossbeam_channel::RecvTimeoutError": {0: "Timeout", 1: "Disconnected"},
}


def _variant_name(fn, adt, v):
    v = _signed_discr(v)
    if adt in KNOWN_ENUMS:
        return KNOWN_ENUMS[adt].get(v, str(v))
    a = fn.facts.adts.get(adt)
    if a and 0 <= v < len(a["variants"]):
        return a["variants"][v]["n"]
    return str(v)


def _remaining_variant(fn, adt, seen):
    """if exactly one variant is left for the otherwise edge, name it"""
    names = None
    if adt in KNOWN_ENUMS:
        names = KNOWN_ENUMS[adt]
    else:
        a = fn.facts.adts.get(adt)
        if a:
            names = {i: v["n"] for i, v in enumerate(a["variants"])}
    if not names:
        return None
    left = [n for i, n in names.items() if i not in seen]
    if len(left) == 1:
        return left[0]
    return "|".join(left) if left else None


def edge_label(fn, b, succ):
    """all labels of the edge b->succ (a switch may map several values to one block)"""
    return [lab for tb, lab in switch_labels(fn, b) if tb == succ]


def label_variants(labs):
    """set of variant names an edge admits (None = not a variant edge)"""
    out = set()
    for lab in labs:
        if lab["kind"] == "variant":
            out.add(lab["variant"])
        elif lab["kind"] == "variant_not" and lab.get("variant"):
            for n in lab["variant"].split("|"):
                out.add(n)
        else:
            return None
    return out or None


# ----------------------------------------------------------------------------- explorer

class Explorer:
    """Path-sensitive walk of the normal-edge CFG.

    Tracks a small environment of branch facts so that re-tested scrutinees, `matches!`
    bool merges and drop flags do not produce infeasible paths:
      ('c', local)      -> integer constant currently held by a bare local
      ('d', place_key)  -> discriminant value known for a place
      ('dn', place_key) -> frozenset of discriminant values excluded for a place
    Facts die when the base local is assigned or mutably borrowed.
    """

    def __init__(self, fn):
        self.fn = fn
        self.interesting_locals, self.interesting_places = self._interesting()

    def _interesting(self):
        fn = self.fn
        locs, places = set(), set()
        for b in range(len(fn.blocks)):
            t = fn.term(b)
            if t["t"] != "switch":
                continue
            l = op_local(t["on"])
            if l is None:
                continue
            ds = fn.defs().get(l, [])
            consts = [d for d in ds if d[1] is not None and d[2]["rv"]["r"] == "use" and op_const(d[2]["rv"]["a"][0]) is not None and not d[2]["lhs"].get("p")]
            if consts and len(consts) == len(ds):
                locs.add(l)
            for d in ds:
                if d[1] is not None and d[2]["rv"]["r"] == "discr":
                    places.add(self._canon_pk(place_key(d[2]["rv"]["pl"])))
        # enum-valued locals tested through a predicate call (`r.is_break()`), and the locals their value is moved from
        def _deref_local(l):
            ds = [d for d in fn.defs().get(l, []) if d[1] is not None]
            if len(ds) == 1 and ds[0][2]["rv"]["r"] in ("ref", "raw") and not ds[0][2]["rv"]["pl"].get("p"):
                return ds[0][2]["rv"]["pl"]["l"]
            return l
        self._deref_local = _deref_local
        for b in range(len(fn.blocks)):
            t = fn.term(b)
            if t["t"] == "call" and (strip_generics(callee_name(t)) in PRED_CALLS or strip_generics(callee_name(t)) in _UNWRAPS) and t["args"]:
                # (an unwrap of what is known to be the failing variant has no successor)
                l = op_local(t["args"][0])
                if l is not None:
                    places.add((_deref_local(l),))
        work = [pk for pk in places if len(pk) == 1]
        while work:
            pk = work.pop()
            for d in fn.defs().get(pk[0], []):
                src = None
                if d[1] is not None and d[2]["rv"]["r"] == "use" and not d[2]["lhs"].get("p"):
                    src = op_local(d[2]["rv"]["a"][0])
                elif d[1] is None and strip_generics(d[2].get("callee") or "") in BRANCH_CALLS and d[2]["args"]:
                    src = op_local(d[2]["args"][0])
                if src is not None and (src,) not in places:
                    places.add((src,))
                    work.append((src,))
        # bool locals that only ever hold constants (results of `matches!`, drop flags) even if they are tested through a copy
        for l, ds in fn.defs().items():
            if l < len(fn.locals) and fn.local_ty(l) == "bool" and ds and all(
                    d[1] is not None and d[2]["rv"]["r"] == "use" and not d[2]["lhs"].get("p") and op_const(d[2]["rv"]["a"][0]) is not None for d in ds):
                locs.add(l)
        def _close_places():
            work = [pk for pk in places if len(pk) == 1]
            while work:
                pk = work.pop()
                for d in fn.defs().get(pk[0], []):
                    src = None
                    if d[1] is not None and d[2]["rv"]["r"] == "use" and not d[2]["lhs"].get("p"):
                        src = op_local(d[2]["rv"]["a"][0])
                    elif d[1] is None and strip_generics(d[2].get("callee") or "") in BRANCH_CALLS and d[2]["args"]:
                        src = op_local(d[2]["args"][0])
                    if src is not None and (src,) not in places:
                        places.add((src,))
                        work.append((src,))
        # bool locals that are switched on (possibly through copies) and only ever hold constants, copies of such locals,
        # or the payload of an enum value (`match helper()? { true => .., false => .. }`, `let closed = drain()?; if closed {..}`)
        switched = {op_local(fn.term(b)["on"]) for b in range(len(fn.blocks)) if fn.term(b)["t"] == "switch"} - {None}

        def _feeds(l, seen):
            """locals whose value reaches l through plain copies"""
            if l in seen:
                return
            seen.add(l)
            for d in fn.defs().get(l, []):
                if d[1] is not None and d[2]["rv"]["r"] == "use" and not d[2]["lhs"].get("p"):
                    src = op_place(d[2]["rv"]["a"][0])
                    if src is not None and not src.get("p"):
                        _feeds(src["l"], seen)
                elif d[1] is not None and d[2]["rv"]["r"] == "un" and d[2]["rv"]["op"] == "Not" and not d[2]["lhs"].get("p"):
                    src = op_place(d[2]["rv"]["a"][0])
                    if src is not None and not src.get("p"):
                        _feeds(src["l"], seen)       # `if !flag`: the flag's value decides the branch
        cand = set()
        for l in switched:
            if l < len(fn.locals):
                _feeds(l, cand)
        changed = True
        while changed:
            changed = False
            for l in sorted(cand - locs):
                ds = fn.defs().get(l, [])
                if not ds:
                    continue
                ok = True
                pay = []
                for d in ds:
                    if d[1] is None or d[2]["rv"]["r"] != "use" or d[2]["lhs"].get("p"):
                        ok = False
                        break
                    a0 = d[2]["rv"]["a"][0]
                    if op_const(a0) is not None:
                        continue
                    pl = op_place(a0)
                    if pl is None:
                        ok = False
                        break
                    if not pl.get("p"):
                        if pl["l"] in locs:
                            continue
                        ok = False
                        break
                    if len([e for e in pl["p"] if isinstance(e, dict) and "f" in e]) == 1:
                        pay.append((pl["l"],))
                        continue
                    ok = False
                    break
                if ok:
                    locs.add(l)
                    places.update(pay)
                    changed = True
        _close_places()
        return locs, places

    def _canon_pk(self, pk):
        """`match &value {..}` / `matches!(&value, ..)` test the value through a shared borrow taken for the purpose: the discriminant of `(*r)`, r = &value being the
        one definition of r, is the discriminant of `value` (which is what a later `match value {..}` tests)"""
        fn = self.fn
        for _ in range(4):
            if len(pk) < 2 or pk[1] != "*" or not isinstance(pk[0], int):
                return pk
            ds = [d for d in fn.defs().get(pk[0], []) if not fn.is_cleanup(d[0])]
            if len(ds) != 1 or ds[0][1] is None or ds[0][2]["lhs"].get("p"):
                return pk
            rv = ds[0][2]["rv"]
            if rv["r"] == "ref" and rv.get("m") == "Shared":
                pk = place_key(rv["pl"]) + tuple(pk[2:])
            elif rv["r"] == "use" and op_place(rv["a"][0]) is not None and not rv["a"][0]["pl"].get("p"):
                pk = (rv["a"][0]["pl"]["l"],) + tuple(pk[1:])
            else:
                return pk
        return pk

    def apply_block(self, b, env):
        """environment after the statements (and call destination) of block b"""
        fn = self.fn
        env = dict(env)
        for st in fn.stmts(b):
            env0 = dict(env)
            if st["s"] != "assign":
                if st["s"] == "setdiscr":
                    self._kill(env, st["lhs"]["l"])
                continue
            lhs = st["lhs"]
            rv = st["rv"]
            # ---- constants held in fields of a local struct (a guard's `armed` flag): ("fc", base local, field index)
            pend_c = None
            ft = self._field_target(lhs)
            if ft is not None:
                c_ = op_const(rv["a"][0]) if rv["r"] == "use" else None
                if c_ is None and rv["r"] == "use" and op_local(rv["a"][0]) is not None and ("c", op_local(rv["a"][0])) in env:
                    c_ = env[("c", op_local(rv["a"][0]))]
                if c_ is not None and isinstance(c_, int):
                    env[("fc", ft[0], ft[1])] = c_
                else:
                    env.pop(("fc", ft[0], ft[1]), None)
            elif not lhs.get("p"):
                for k in [k for k in env if k[0] == "fc" and k[1] == lhs["l"]]:
                    del env[k]
                if rv["r"] == "agg" and rv["kind"].get("adt"):
                    for i_, a_ in enumerate(rv["a"]):
                        c_ = op_const(a_)
                        if isinstance(c_, (int, bool)):
                            env[("fc", lhs["l"], i_)] = int(c_)
                elif rv["r"] == "use" and op_place(rv["a"][0]) is not None and not rv["a"][0]["pl"].get("p"):
                    src_ = rv["a"][0]["pl"]["l"]
                    for k in [k for k in env0 if k[0] == "fc" and k[1] == src_]:
                        env[("fc", lhs["l"], k[2])] = env0[k]
                elif rv["r"] == "use" and lhs["l"] in self.interesting_locals:
                    rt = self._field_target(rv["a"][0]["pl"]) if op_place(rv["a"][0]) is not None else None
                    if rt is not None and ("fc", rt[0], rt[1]) in env0:
                        pend_c = (lhs["l"], env0[("fc", rt[0], rt[1])])
            if rv["r"] in ("ref", "raw") and "Mut" in rv.get("m", "") and "Shared" not in rv.get("m", ""):
                self._kill(env, rv["pl"]["l"])
            self._kill(env, lhs["l"])
            if pend_c is not None:
                env[("c", pend_c[0])] = pend_c[1]
            if not lhs.get("p") and (lhs["l"],) in self.interesting_places:
                if rv["r"] == "agg" and "vi" in rv["kind"]:
                    env[("d", (lhs["l"],))] = rv["kind"]["vi"]
                    if len(rv["a"]) == 1:
                        c = op_const(rv["a"][0])
                        if c is None and op_local(rv["a"][0]) is not None:
                            c = env0.get(("c", op_local(rv["a"][0])))
                        if c is not None:
                            env[("p", (lhs["l"],))] = c       # constant payload (e.g. Ok(true))
                elif rv["r"] == "use":
                    src = op_local(rv["a"][0])
                    if src is not None and ("d", (src,)) in env0:
                        env[("d", (lhs["l"],))] = env0[("d", (src,))]
                    if src is not None and ("p", (src,)) in env0:
                        env[("p", (lhs["l"],))] = env0[("p", (src,))]
            # reading the payload of an enum value whose payload constant is known
            if not lhs.get("p") and lhs["l"] in self.interesting_locals and rv["r"] == "use":
                pl = op_place(rv["a"][0])
                if pl is not None and pl.get("p") and ("p", (pl["l"],)) in env0 and [e for e in pl["p"] if isinstance(e, dict) and "f" in e][-1:] and \
                        len([e for e in pl["p"] if isinstance(e, dict) and "f" in e]) == 1:
                    env[("c", lhs["l"])] = env0[("p", (pl["l"],))]
            if not lhs.get("p") and lhs["l"] in self.interesting_locals and rv["r"] == "use":
                c = op_const(rv["a"][0])
                if c is None:
                    src = op_local(rv["a"][0])
                    if src is not None and ("c", src) in env0:
                        c = env0[("c", src)]
                if c is not None:
                    env[("c", lhs["l"])] = c
        t = fn.term(b)
        if t["t"] == "call":
            env0 = dict(env)
            self._kill(env, t["dest"]["l"])
            if not t["dest"].get("p") and (t["dest"]["l"],) in self.interesting_places and t["args"] and \
                    strip_generics(t.get("callee") or "") in BRANCH_CALLS:
                src = op_local(t["args"][0])
                if src is not None and ("d", (src,)) in env0:
                    # Result: Ok(0) -> Continue(0), Err(1) -> Break(1);  Option: None(0) -> Break(1), Some(1) -> Continue(0)
                    dv = env0[("d", (src,))]
                    if fn.local_ty(src).startswith("std::option::Option<"):
                        dv = 1 - dv if dv in (0, 1) else dv
                    env[("d", (t["dest"]["l"],))] = dv
                if src is not None and ("p", (src,)) in env0:
                    env[("p", (t["dest"]["l"],))] = env0[("p", (src,))]
            elif not t["dest"].get("p") and (t["dest"]["l"],) in self.interesting_places and "from_residual" in strip_generics(t.get("callee") or ""):
                # `?` failing: the function's own result is the failure variant (None for Option, Err for Result)
                ty_ = fn.local_ty(t["dest"]["l"])
                if ty_.startswith("std::option::Option<"):
                    env[("d", (t["dest"]["l"],))] = 0
                elif ty_.startswith("std::result::Result<"):
                    env[("d", (t["dest"]["l"],))] = 1
        return env

    def _field_target(self, pl):
        """(base local, field index) when the place is one field of a local struct, directly (`s.f`) or through a reference to it (`(*r).f`, r = &mut s)"""
        fn = self.fn
        p = pl.get("p") or []
        flds = [e["f"] for e in p if isinstance(e, dict) and "f" in e]
        if len(flds) != 1 or any(isinstance(e, dict) and ("v" in e or "i" in e or "ci" in e) for e in p):
            return None
        l = pl["l"]
        if p[0] == "*":
            if len(p) != 2:
                return None
            seen = set()
            while l not in seen:
                seen.add(l)
                ds = [d for d in fn.defs().get(l, []) if not fn.is_cleanup(d[0]) and not (d[1] is not None and d[2]["lhs"].get("p"))]
                if len(ds) != 1 or ds[0][1] is None:
                    return None
                r_ = ds[0][2]["rv"]
                if r_["r"] in ("ref", "raw") and not r_["pl"].get("p"):
                    l = r_["pl"]["l"]
                    if not (fn.local_ty(l).startswith("&") or fn.local_ty(l).startswith("*")):
                        break
                elif r_["r"] in ("ref", "raw") and r_["pl"].get("p") == ["*"]:
                    l = r_["pl"]["l"]
                elif r_["r"] in ("use", "cast") and op_place(r_["a"][0]) is not None and not r_["a"][0]["pl"].get("p"):
                    l = r_["a"][0]["pl"]["l"]
                else:
                    return None
            if fn.local_ty(l).startswith("&") or fn.local_ty(l).startswith("*"):
                return None
        elif len(p) != 1:
            return None
        return (l, flds[0])

    @staticmethod
    def _kill(env, local):
        for k in list(env):
            if k[0] == "c" and k[1] == local:
                del env[k]
            elif k[0] in ("d", "dn", "p") and k[1][0] == local:
                del env[k]

    def successors(self, b, env_after):
        """feasible (succ, env') pairs under the environment holding at the end of block b"""
        fn = self.fn
        t = fn.term(b)
        if t["t"] == "call" and t["args"] and strip_generics(callee_name(t)) in _UNWRAPS:
            # `r.unwrap()` where r is known to be the Err / None it was just found to be: the call panics, nothing follows
            l = op_local(t["args"][0])
            for _ in range(4):
                # `let r = ..; if r.is_ok() {..} r.unwrap()` moves r into a temporary first
                ds_ = [x for x in fn.defs().get(l, []) if not fn.is_cleanup(x[0])] if l is not None else []
                if len(ds_) == 1 and ds_[0][1] is not None and ds_[0][2]["rv"]["r"] == "use" and not ds_[0][2]["lhs"].get("p") and \
                        op_place(ds_[0][2]["rv"]["a"][0]) is not None and not ds_[0][2]["rv"]["a"][0]["pl"].get("p") and ("d", (l,)) not in env_after:
                    l = ds_[0][2]["rv"]["a"][0]["pl"]["l"]
                else:
                    break
            if l is not None:
                d_ = env_after.get(("d", (self._deref_local(l),)))
                if d_ is not None and d_ == _UNWRAPS[strip_generics(callee_name(t))]:
                    return []
        if t["t"] != "switch":
            return [(s, env_after) for s in fn.succ(b)]
        labs = switch_labels(fn, b)
        out = []
        seen_t = set()
        for tb, lab in labs:
            env2 = dict(env_after)
            feasible = True
            if lab["kind"] == "variant":
                pk = self._canon_pk(lab["pk"])
                if ("d", pk) in env_after and env_after[("d", pk)] != lab["value"]:
                    feasible = False
                if ("dn", pk) in env_after and lab["value"] in env_after[("dn", pk)]:
                    feasible = False
                if pk in self.interesting_places:
                    env2[("d", pk)] = lab["value"]
                    env2.pop(("dn", pk), None)
            elif lab["kind"] == "variant_not":
                pk = self._canon_pk(lab["pk"])
                if ("d", pk) in env_after and env_after[("d", pk)] in lab["not"]:
                    feasible = False
                if pk in self.interesting_places and ("d", pk) not in env_after:
                    env2[("dn", pk)] = frozenset(lab["not"]) | env_after.get(("dn", pk), frozenset())
            elif lab["kind"] == "pred" and lab["pred"] in PRED_TRUE_DISCR:
                l = op_local(lab["arg"])
                if l is not None:
                    base = self._deref_local(l)
                    if ("d", (base,)) in env_after:
                        holds = env_after[("d", (base,))] == PRED_TRUE_DISCR[lab["pred"]]
                        if holds != lab["truth"]:
                            feasible = False
                    elif (base,) in self.interesting_places and lab["pred"] in ("is_ok", "is_err", "is_some", "is_none"):
                        # what the predicate established stays known (two-variant enums: not Ok is Err)
                        dv = PRED_TRUE_DISCR[lab["pred"]]
                        env2[("d", (base,))] = dv if lab["truth"] else 1 - dv
            elif lab["kind"] == "not":
                l = op_local(lab["of"])
                if l is not None and ("c", l) in env_after and bool(env_after[("c", l)]) == bool(lab["truth"]):
                    feasible = False        # the switch is on !x: the arm `truth` needs x == !truth
            elif lab["kind"] == "val":
                l = lab["place"]["l"] if not lab["place"].get("p") else None
                if l is not None and ("c", l) in env_after and env_after[("c", l)] != lab["value"]:
                    feasible = False
            elif lab["kind"] == "val_not":
                l = lab["place"]["l"] if not lab["place"].get("p") else None
                if l is not None and ("c", l) in env_after and env_after[("c", l)] in lab["not"]:
                    feasible = False
            elif lab["kind"] == "cmp" and op_const(lab["b"]) == 0 and lab["op"] in ("Lt", "Ge"):
                # an unsigned value is never below zero (the lower bound of a range pattern `0..=N` on a usize)
                la = op_local(lab["a"])
                if la is not None and fn.local_ty(la) in ("usize", "u8", "u16", "u32", "u64", "u128") and ((lab["op"] == "Lt") == bool(lab["truth"])):
                    feasible = False
            if feasible:
                key = (tb, frozenset(env2.items()))
                if key not in seen_t:
                    seen_t.add(key)
                    out.append((tb, env2))
        return out

    def walk(self, start, state0, step, at_return=None, edge=None, env0=None, max_states=20000, start_stmt=0):
        """Generic exploration.
        step(b, state, env) -> new state or None (prune).  Called once per visited
        (block, env, state).  edge(b, succ, labels, state, env) -> state or None.
        at_return(b, state, path) is called on Return blocks.  Returns number of states.
        States must be hashable."""
        fn = self.fn
        env0 = dict(env0 or {})
        init = (start, frozenset(env0.items()), state0)
        parent = {init: None}
        dq = deque([init])
        n = 0
        while dq:
            cur = dq.popleft()
            b, fenv, st = cur
            n += 1
            if n > max_states:
                raise RuntimeError("state explosion in %s" % fn.path)
            env = dict(fenv)
            st2 = step(b, st, env)
            if st2 is None:
                continue
            env_after = self.apply_block(b, env)
            if fn.term(b)["t"] == "return":
                if at_return:
                    at_return(b, st2, self._path(parent, cur))
                continue
            for s, env2 in self.successors(b, env_after):
                if fn.is_cleanup(s):
                    continue
                st3 = st2
                if edge is not None:
                    st3 = edge(b, s, edge_label(fn, b, s), st2, env2)
                    if st3 is None:
                        continue
                nxt = (s, frozenset(env2.items()), st3)
                if nxt not in parent:
                    parent[nxt] = cur
                    dq.append(nxt)
        return n

    def entry_env(self, start):
        """facts that hold whenever control arrives at `start` (from the function entry or around a loop): the intersection of the
        environments of every arrival.  A walk that begins in the middle of a function can be seeded with it (env0=...), so that a
        loop flag initialised before the loop and tested at its head (`while !done`) is known at a block inside the loop."""
        cache = self.fn.__dict__.setdefault("_entry_env", {})
        if start in cache:
            return dict(cache[start])
        arrivals = []

        def step(b, st, env):
            if b == start:
                arrivals.append(frozenset(env.items()))
            return st
        try:
            self.walk(0, 0, step)
        except RuntimeError:
            arrivals = []
        common = None
        for a in arrivals:
            common = a if common is None else (common & a)
        cache[start] = dict(common or ())
        return dict(cache[start])

    @staticmethod
    def _path(parent, cur):
        out = []
        while cur is not None:
            out.append(cur[0])
            cur = parent[cur]
        return out[::-1]

    def feasible_blocks(self, start=0, env0=None, avoid=(), avoid_edge=None):
        """set of blocks reachable from start on feasible paths, never entering `avoid`."""
        seen = set()
        avoid = set(avoid)

        def step(b, st, env):
            if b in avoid and b != start:
                return None
            seen.add(b)
            return st

        def edge(b, s, labs, st, env):
            if avoid_edge and avoid_edge(b, s, labs):
                return None
            return st
        self.walk(start, 0, step, edge=edge, env0=env0)
        return seen


def feasible_reach_without(fn, goals, through, start=0):
    """is a block of `goals` reachable on a FEASIBLE path from `start` that does not pass a block of `through` first?  (dominance with branch facts:
    the error exit of an inlined helper followed by the caller's `?` does not count as a way around the helper's success path)"""
    ex = Explorer(fn)
    goals, through = set(goals), set(through)
    hit = []

    def step(b, st, env):
        if b in through:
            return None
        if b in goals:
            hit.append(b)
            return None
        return st
    try:
        ex.walk(start, 0, step)
    except RuntimeError:
        return True
    return bool(hit)


def chain_calls(fn, operand, limit=64):
    """names of the (transparent) calls a value passes through on its backward def chain"""
    out = set()
    seen = set()
    work = []
    pl = op_place(operand)
    if pl is not None:
        work.append(pl["l"])
    defs = fn.defs()
    while work and len(seen) < limit:
        l = work.pop()
        if l in seen:
            continue
        seen.add(l)
        for (b, si, node) in defs.get(l, []):
            if fn.is_cleanup(b):
                continue
            if si is None:
                out.add(strip_generics(callee_name(node)))
                out.add(strip_generics(node.get("callee") or ""))
                for a in node["args"]:
                    if a["k"] == "c" and "fn" in a:
                        out.add(strip_generics(a["fn"]))
                if strip_generics(callee_name(node)) in ("core::slice::get_mut", "std::vec::Vec::get_mut", "core::slice::get") and node["args"]:
                    if op_place(node["args"][0]) is not None:
                        work.append(node["args"][0]["pl"]["l"])
                if transparent(node) is not None and node["args"]:
                    a = node["args"][transparent(node)[0]]
                    if op_place(a) is not None:
                        work.append(a["pl"]["l"])
            else:
                rv = node["rv"]
                if rv["r"] in ("use", "cast") and op_place(rv["a"][0]) is not None:
                    work.append(rv["a"][0]["pl"]["l"])
                elif rv["r"] in ("ref", "raw"):
                    work.append(rv["pl"]["l"])
    out.discard("")
    return out


CLOSURE_RUNNERS = ("std::ops::FnOnce::call_once", "std::ops::FnMut::call_mut", "std::ops::Fn::call", "std::thread::LocalKey::with", "std::option::Option::map", "std::option::Option::and_then", "std::result::Result::map",
                   "std::result::Result::and_then", "std::option::Option::unwrap_or_else", "std::option::Option::map_or_else")


def chain_calls_ip(F, fn, operand=None, local=None, depth=0, _seen=None):
    """like chain_calls, but follows the return value of crate-local callees and of closures run by
    the usual combinators (LocalKey::with, Option::map/and_then, ...)"""
    _seen = _seen if _seen is not None else set()
    out = set()
    work = []
    if operand is not None and op_place(operand) is not None:
        work.append(operand["pl"]["l"])
    if local is not None:
        work.append(local)
    defs = fn.defs()
    seen = set()
    while work:
        l = work.pop()
        if l in seen:
            continue
        seen.add(l)
        for (b, si, node) in defs.get(l, []):
            if fn.is_cleanup(b):
                continue
            if si is None:
                name = strip_generics(callee_name(node))
                out.add(name)
                out.add(strip_generics(node.get("callee") or ""))
                for a in node["args"]:
                    if a["k"] == "c" and "fn" in a:
                        out.add(strip_generics(a["fn"]))
                tr = transparent(node)
                if tr is not None and node["args"]:
                    a = node["args"][tr[0]]
                    if op_place(a) is not None:
                        work.append(a["pl"]["l"])
                if name in ("core::slice::get_mut", "std::vec::Vec::get_mut", "core::slice::get") and node["args"] and op_place(node["args"][0]) is not None:
                    work.append(node["args"][0]["pl"]["l"])
                if depth < 4:
                    targets = []
                    g = F.fns.get(node.get("resolved") or "") or F.fns.get(node.get("callee") or "")
                    if g is None and (node.get("local") or node.get("resolved_local")):
                        g = next((x for x in F.fns.values() if strip_generics(x.path) == name), None)
                    if g is not None:
                        targets.append(g)
                    if name in CLOSURE_RUNNERS or strip_generics(node.get("callee") or "") in CLOSURE_RUNNERS:
                        t2 = Tracer(fn)
                        for a in node["args"]:
                            for r in t2.roots_of_operand(a):
                                if r.kind == "agg" and r.id in F.fns:
                                    targets.append(F.fns[r.id])
                                if r.kind == "const" and isinstance(r.id, str):
                                    for x in F.fns.values():
                                        if x.kind == "Closure" and x.path in r.id:
                                            targets.append(x)
                        # zero-sized closures appear as constants whose type names the closure
                        for a in node["args"]:
                            if a["k"] == "c" and "closure" in a and a["closure"] in F.fns:
                                targets.append(F.fns[a["closure"]])
                    for g in targets:
                        if (g.path, 0) in _seen:
                            continue
                        _seen.add((g.path, 0))
                        out |= chain_calls_ip(F, g, local=0, depth=depth + 1, _seen=_seen)
            else:
                rv = node["rv"]
                if rv["r"] in ("use", "cast") and op_place(rv["a"][0]) is not None:
                    work.append(rv["a"][0]["pl"]["l"])
                elif rv["r"] in ("ref", "raw"):
                    work.append(rv["pl"]["l"])
                elif rv["r"] == "agg":
                    for a in rv["a"]:
                        if op_place(a) is not None:
                            work.append(a["pl"]["l"])
    out.discard("")
    return out


def path_summaries(fn, edge_fact=None, block_fact=None, start=0, max_states=20000, reset_at=None):
    """Explore feasible paths from `start`; along each path accumulate facts (hashable) produced by
    edge_fact(b, succ, labels) -> iterable and block_fact(b) -> iterable.  Returns a list of
    (facts frozenset, return_block, path) -- one per distinct (facts, return block)."""
    ex = Explorer(fn)
    out = {}

    def step(b, st, env):
        if reset_at and b in reset_at:
            st = frozenset()
        if block_fact:
            extra = list(block_fact(b) or ())
            if extra:
                st = st | frozenset(extra)
        return st

    def edge(b, s, labs, st, env):
        if edge_fact:
            extra = list(edge_fact(b, s, labs) or ())
            if extra:
                st = st | frozenset(extra)
        return st

    def at_return(b, st, path):
        out.setdefault((st, b), path)

    ex.walk(start, frozenset(), step, at_return=at_return, edge=edge, max_states=max_states)
    return [(k[0], k[1], p) for k, p in out.items()]


def ord_cmp_info(fn, lab):
    """for a variant label on std::cmp::Ordering: the two operands compared (a.cmp(b)) or None"""
    if lab["kind"] not in ("variant", "variant_not") or lab.get("adt") != "std::cmp::Ordering":
        return None
    l = lab["place"]["l"]
    ds = [d for d in fn.defs().get(l, []) if not fn.is_cleanup(d[0])]
    if len(ds) != 1 or ds[0][1] is not None:
        return None
    call = ds[0][2]
    if strip_generics(call.get("callee") or "") not in ("std::cmp::Ord::cmp", "std::cmp::PartialOrd::partial_cmp"):
        return None
    return call["args"][0], call["args"][1], ds[0][0]


def relation_of_label(fn, lab):
    """normalise comparison labels to (operand_a, operand_b, set of possible relations in {'lt','eq','gt'})"""
    if lab["kind"] == "cmp":
        op, truth = lab["op"], lab["truth"]
        rel = {"Lt": {"lt"}, "Le": {"lt", "eq"}, "Gt": {"gt"}, "Ge": {"gt", "eq"}, "Eq": {"eq"}, "Ne": {"lt", "gt"}}[op]
        if not truth:
            rel = {"lt", "eq", "gt"} - rel
        return lab["a"], lab["b"], rel
    if lab["kind"] == "val" and isinstance(lab.get("value"), int) and "place" in lab:
        # `match x { 0 => .. }` / `matches!(x, 0)`: x == 0 on this edge
        return {"k": "cp", "pl": lab["place"]}, {"k": "c", "v": lab["value"], "t": "", "s": str(lab["value"])}, {"eq"}
    if lab["kind"] == "val_not" and len(lab.get("not", [])) == 1 and isinstance(lab["not"][0], int) and "place" in lab:
        return {"k": "cp", "pl": lab["place"]}, {"k": "c", "v": lab["not"][0], "t": "", "s": str(lab["not"][0])}, {"lt", "gt"}
    info = ord_cmp_info(fn, lab)
    if info:
        names = {"Less": "lt", "Equal": "eq", "Greater": "gt"}
        if lab["kind"] == "variant":
            return info[0], info[1], {names.get(lab["variant"], "?")}
        left = {names[n] for n in (lab.get("variant") or "").split("|") if n in names}
        return info[0], info[1], left or {"lt", "eq", "gt"}
    return None


def segment_summaries(fn, start, stops, edge_fact=None, block_fact=None, include_start_fact=True):
    """like path_summaries but paths end when they reach a block in `stops` (after leaving `start`) or a Return.
    returns list of (facts, end_block) with end_block the stop/return block reached."""
    ex = Explorer(fn)
    out = set()
    stops = set(stops)

    def step(b, st, env):
        first, facts = st
        if not first and (b in stops):
            out.add((facts, b))
            return None
        if block_fact and (include_start_fact or not first):
            extra = list(block_fact(b) or ())
            if extra:
                facts = facts | frozenset(extra)
        if fn.term(b)["t"] == "return":
            out.add((facts, b))
            return None
        return (False, facts)

    def edge(b, s, labs, st, env):
        first, facts = st
        if edge_fact:
            extra = list(edge_fact(b, s, labs) or ())
            if extra:
                facts = facts | frozenset(extra)
        return (first, facts)
    ex.walk(start, (True, frozenset()), step, edge=edge)
    return sorted(out, key=repr)
