#!/usr/bin/env python3
"""Self-tests of the checkers on scratch copies of /repo (never /repo itself).

  tools/selftest.py                 all seeds and refactors
  tools/selftest.py --prop C11      only those relevant to one property
  tools/selftest.py --prop C11 --cap 30   a spread sample: at most 30 seeds (the property's own first) and 30 refactors (used by the thorough tier)
  tools/selftest.py -j 8            worker threads (default 6; the fact extraction itself is serialised per configuration)
Seeds (seeded/<id>/patch.diff): every property listed in meta.json `detected_by` must report a violation again.
Refactors (selftest/refactors/*.patch): behaviour-preserving edits; every check must stay silent.
Prints one line per case; exit 1 if a case does not behave as recorded."""
import glob, json, os, re, shutil, subprocess, sys, tempfile
VERIF = os.path.dirname(os.path.dirname(os.path.abspath(__file__)))
ALL = ["C%02d" % i for i in range(1, 21)]


def scratch_copy(repo="/repo"):
    d = tempfile.mkdtemp(prefix="ipcv-selftest-")
    subprocess.run(["rsync", "-a", "--exclude", "target", "--exclude", ".git", repo + "/", d + "/"], check=True)
    return d


def run_checks(repo, props, evdir):
    env = dict(os.environ, IPCV_REPO=repo, IPCV_EVIDENCE_DIR=evdir)
    out = {}
    for p in props:
        r = subprocess.run([os.path.join(VERIF, "check"), p], capture_output=True, text=True, env=env)
        keys = re.findall(r"^VIOLATION property=\S+ replay=\S+ rule=\S+ key=(.*)$", r.stdout, re.M)
        out[p] = keys
    return out


def case(patch, props):
    d = scratch_copy()
    ev = tempfile.mkdtemp(prefix="ipcv-selftest-ev-")
    try:
        r = subprocess.run(["patch", "-p1", "-s", "-i", patch], cwd=d, capture_output=True, text=True)
        if r.returncode != 0:
            return None, "patch does not apply (the tree changed): " + (r.stdout + r.stderr).strip()[:120]
        return run_checks(d, props, ev), None
    finally:
        shutil.rmtree(d, ignore_errors=True)
        shutil.rmtree(ev, ignore_errors=True)


def run_case(kind, name, patch, props, spec=None):
    """one scratch copy, one patch, the given checks: returns (lines, results, bad)"""
    lines, results, bad = [], [], 0
    d = scratch_copy()
    ev = tempfile.mkdtemp(prefix="ipcv-selftest-ev-")
    try:
        r = subprocess.run(["patch", "-p1", "-s", "-i", patch], cwd=d, capture_output=True, text=True)
        if r.returncode != 0:
            why = "patch does not apply (the tree changed): " + (r.stdout + r.stderr).strip()[:120]
            results.append({"case": name, "kind": kind, "outcome": "skipped", "why": why})
            lines.append("SKIP  %s %-34s %s" % (kind, name, why))
            return lines, results, 1
        env = dict(os.environ, IPCV_REPO=d, IPCV_EVIDENCE_DIR=ev)
        for p in props:
            rr = subprocess.run([os.path.join(VERIF, "check"), p], capture_output=True, text=True, env=env)
            keys = re.findall(r"^VIOLATION property=\S+ replay=\S+ rule=\S+ key=(.*)$", rr.stdout, re.M)
            rules = set(re.findall(r"^VIOLATION property=\S+ replay=\S+ rule=(\S+)", rr.stdout, re.M))
            if kind == "seed":
                ok = bool(keys)
                results.append({"case": name, "kind": "seed", "property": p, "outcome": "detected" if ok else "MISSED", "keys": keys[:3]})
                lines.append("%s seed %-8s %s -> %s" % ("ok   " if ok else "FAIL ", name, p, (keys or ["(silent)"])[0][:120]))
            elif kind == "control":
                compile_err = bool(re.search(r"configuration \S+ does not compile|default configuration does not compile", rr.stdout))
                want = set(spec["expect"][p])
                ok = want <= rules and not compile_err
                results.append({"case": name, "kind": "control", "property": p, "outcome": "detected" if ok else ("DOES-NOT-COMPILE" if compile_err else "MISSED"), "rules": sorted(rules)})
                lines.append("%s control %-34s %s want %s got %s%s" % ("ok   " if ok else "FAIL ", name, p, sorted(want), sorted(rules), " (mutant does not compile)" if compile_err else ""))
            else:
                ok = not keys
                results.append({"case": name, "kind": "refactor", "property": p, "outcome": "silent" if ok else "FALSE-ALARM", "keys": keys[:3]})
                lines.append("%s refactor %-28s %s -> %s" % ("ok   " if ok else "FAIL ", name, p, (keys or ["silent"])[0][:120]))
            bad += 0 if ok else 1
    finally:
        shutil.rmtree(d, ignore_errors=True)
        shutil.rmtree(ev, ignore_errors=True)
    return lines, results, bad


def main():
    from concurrent.futures import ThreadPoolExecutor
    only = sys.argv[sys.argv.index("--prop") + 1] if "--prop" in sys.argv else None
    jobs = int(sys.argv[sys.argv.index("-j") + 1]) if "-j" in sys.argv else 6
    cases = []
    for meta_p in sorted(glob.glob(os.path.join(VERIF, "seeded", "*", "meta.json"))):
        meta = json.load(open(meta_p))
        props = [p for p in meta.get("detected_by", {}) if (only is None or p == only)]
        if props:
            cases.append(("seed", meta["id"], os.path.join(os.path.dirname(meta_p), "patch.diff"), props, None))
    # positive controls: one small edit per rule, the named rule must report
    for patch in sorted(glob.glob(os.path.join(VERIF, "selftest", "mutants", "*.patch"))):
        spec = json.load(open(patch[:-6] + ".json"))
        props = [p for p in spec["expect"] if only is None or p == only]
        if props:
            cases.append(("control", os.path.basename(patch)[:-6], patch, props, spec))
    for patch in sorted(glob.glob(os.path.join(VERIF, "selftest", "refactors", "*.patch"))):
        desc = open(patch[:-6] + ".txt").read().strip()
        props = re.findall(r"C\d\d", desc.split(":")[0]) or ALL
        if only is not None:
            if only not in props:
                continue
            props = [only]
        cases.append(("refactor", os.path.basename(patch)[:-6], patch, props, None))
    if "--cap" in sys.argv:
        # the thorough tier of one property: a deterministic, evenly spread sample of each kind, the seeds of the property itself first
        cap = int(sys.argv[sys.argv.index("--cap") + 1])

        def spread(lst, n):
            if len(lst) <= n:
                return lst
            step = len(lst) / float(n)
            return [lst[int(i * step)] for i in range(n)]
        seeds = [c for c in cases if c[0] == "seed"]
        own = [c for c in seeds if only and c[1].startswith(only + "-")]
        other = [c for c in seeds if c not in own]
        cases = own + spread(other, max(0, cap - len(own))) + [c for c in cases if c[0] == "control"] + spread([c for c in cases if c[0] == "refactor"], cap)
    results, bad = [], 0
    with ThreadPoolExecutor(max_workers=jobs) as ex:
        for lines, res, b in ex.map(lambda c: run_case(*c), cases):
            for ln in lines:
                print(ln, flush=True)
            results += res
            bad += b
    if "--json" in sys.argv:
        json.dump(results, open(sys.argv[sys.argv.index("--json") + 1], "w"), indent=1)
    return 1 if bad else 0


if __name__ == "__main__":
    sys.exit(main())
