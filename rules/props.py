"""One entry per property: which rules run over which configurations."""
from rules import fd

LEVEL = {}

LEVEL["C11"] = ("Decides the structural clause of C11 only: on every normal path of every function of the unix backend each raw "
                "descriptor is released exactly once (FD-PATH), every owning type's Drop closes (FD-DROP), ownership-moving reads "
                "store the sentinel and non-owned values never reach a releasing site (FD-MOVE, FD-CLOSE-OWNED), every creating call "
                "sets close-on-exec (CLOEXEC), nothing defeats RAII (NO-FORGET). Not decided: descriptor counts over long histories, "
                "temp files (delegated to TempDir), mappings beyond mmap/munmap pairing.")


def check_C11(ctx):
    floors = {"K1": 9, "K2": 9}
    for cfg, F in ctx.configs(["K1", "K2"]):
        model = fd.build_model(F)
        n = fd.rule_fd_path(ctx, cfg, F, model)
        ctx.rule("FD-PATH").floor("sources[%s]" % cfg, floors[cfg], cfg)
        fd.rule_fd_drop(ctx, cfg, F, model)
        ctx.rule("FD-DROP").floor("owning_fields[%s]" % cfg, 6, cfg)
        fd.rule_fd_move(ctx, cfg, F, model)
        ctx.rule("FD-MOVE").floor("moving_reads[%s]" % cfg, 3, cfg)
        fd.rule_close_owned(ctx, cfg, F, model)
        ctx.rule("FD-CLOSE-OWNED").floor("close_sites[%s]" % cfg, 6, cfg)
        fd.rule_cloexec(ctx, cfg, F, model)
        ctx.rule("CLOEXEC").floor("creating_calls[%s]" % cfg, 6, cfg)
        fd.rule_no_forget(ctx, cfg, F)
    ctx.assume("kernel: accept(2)/dup(2) do not set FD_CLOEXEC; glibc shm_open does; mio's epoll descriptor is CLOEXEC")
    ctx.assume("panicking (unwind) paths are outside the all-paths rules")


# --------------------------------------------------------------------------- registry metadata
NOT_APPLICABLE = {}
WITNESS_PROPS = []
_TECH = "static analysis over rustc MIR facts: "
META = {
    "C11": {"technique": _TECH + "path-sensitive descriptor typestate, ownership summaries, Drop/close-on-exec rules",
            "note": "trusted: MIR of nightly == what stable compiles; kernel/libc semantics of close/accept/dup/shm_open; unwind paths excluded; macOS/Windows backends not analysed (no target std installed)"},
}
