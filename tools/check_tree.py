#!/usr/bin/env python3
"""Run the quick checks on another tree (a scratch copy of /repo with an edit applied) and print the violation lines.

  tools/check_tree.py [-j N] [--props C01,C02] <dir>..."""
import os, subprocess, sys
from concurrent.futures import ThreadPoolExecutor
VERIF = os.path.dirname(os.path.dirname(os.path.abspath(__file__)))
ALL = ["C%02d" % i for i in range(1, 21)]


def one(job):
    d, p = job
    env = dict(os.environ, IPCV_REPO=d, IPCV_EVIDENCE_DIR=os.path.join(d, ".ev"))
    r = subprocess.run([os.path.join(VERIF, "check"), p], capture_output=True, text=True, env=env)
    out = [l for l in r.stdout.splitlines() if l.startswith("VIOLATION")]
    if "checker crashed" in r.stdout + r.stderr:
        out.append("CRASH " + (r.stdout + r.stderr)[-400:])
    return d, p, out


def main():
    args = sys.argv[1:]
    j, props = 6, ALL
    if "-j" in args:
        i = args.index("-j"); j = int(args[i + 1]); del args[i:i + 2]
    if "--props" in args:
        i = args.index("--props"); props = args[i + 1].split(","); del args[i:i + 2]
    for d in args:
        d = os.path.abspath(d)
        # the first check extracts the facts; the rest reuse them
        first = one((d, props[0]))
        res = [first]
        with ThreadPoolExecutor(max_workers=j) as ex:
            res += list(ex.map(one, [(d, p) for p in props[1:]]))
        seen = set()
        n = 0
        print("== %s" % d)
        for _, p, out in res:
            for l in out:
                key = l.split("rule=", 1)[-1]
                if key in seen:
                    continue
                seen.add(key)
                n += 1
                print("   [%s] %s" % (p, key[:240]))
        if not n:
            print("   silent")
    return 0


if __name__ == "__main__":
    sys.exit(main())
