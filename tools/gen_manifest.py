#!/usr/bin/env python3
"""Regenerate MANIFEST.json from the property registry (single source of truth: rules/props.py)."""
import json, os, sys
HERE = os.path.dirname(os.path.dirname(os.path.abspath(__file__)))
sys.path.insert(0, HERE)
from rules import props

PENDING = "not claimed in this revision: checker not yet implemented (see DESIGN.md section 5 for the planned clause)"

def main():
    checks, na = [], []
    for i in range(1, 21):
        pid = "C%02d" % i
        if hasattr(props, "check_" + pid):
            meta = props.META[pid]
            checks.append({
                "property_id": pid,
                "quick_cmd": "./check %s --tier quick" % pid,
                "thorough_cmd": "./check %s --tier thorough" % pid,
                "evidence_file": "/verif/evidence/%s.json" % pid,
                "replay_cmd_template": "./check %s --replay {path}" % pid,
                "engine": "mir-facts+rules",
                "level_claimed": {"category": "other", "text": props.LEVEL[pid], "design_ref": "DESIGN.md section 5, %s" % pid},
                "level_note": meta["note"],
                "technique": meta["technique"],
            })
        else:
            na.append({"property_id": pid, "reason": props.NOT_APPLICABLE.get(pid, PENDING)})
    m = {
        "version": 1,
        "setup_cmd": "./setup.sh",
        "hooks": {
            "guard": "ipc_channel_verif",
            "enable": "none needed: the analysis reads the unmodified tree; the cfg name is reserved and unused",
            "baseline_off_cmd": "cd /repo && cargo test --workspace --no-fail-fast --offline",
            "source_commits": [],
            "add_only": True,
        },
        "engines": [
            {"name": "E1 fact extractor", "path": "driver/", "serves_properties": [c["property_id"] for c in checks],
             "kind_free_text": "rustc_private driver run as RUSTC_WORKSPACE_WRAPPER under cargo +nightly check; dumps type-checked MIR (resolved callees, evaluated constants, ADTs, impls) of the ipc_channel crate as JSON per feature configuration"},
            {"name": "E2 rule library", "path": "vlib/ rules/", "serves_properties": [c["property_id"] for c in checks],
             "kind_free_text": "Python (stdlib only) static analyses over the fact base: CFG/dominators, provenance slices, edge labelling, path-sensitive typestate exploration, per-property rules"},
            {"name": "E3 compile-fail witnesses", "path": "witness/", "serves_properties": props.WITNESS_PROPS,
             "kind_free_text": "rustdoc compile_fail doc-tests with compiling twins, run with cargo +nightly test --doc (thorough tier)"},
        ],
        "checks": checks,
        "not_applicable": na,
        "notes": "All checks are static: nothing from /repo is executed. Each claimed property is claimed for the named structural clauses only (level_claimed.text); what is not decided is listed in DESIGN.md section 5.",
    }
    with open(os.path.join(HERE, "MANIFEST.json"), "w") as f:
        json.dump(m, f, indent=1)
    print("checks:", [c["property_id"] for c in checks], "not_applicable:", len(na))

main()
