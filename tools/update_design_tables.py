#!/usr/bin/env python3
"""splice the two generated tables into DESIGN.md: 'rules run per property' (section 9.2, from the evidence of the last run: tools/rule_table.py)
and the table of seeded changes (section 11, from seeded/*/meta.json: tools/seed_table.py).  Run after all 20 checks and tools/refresh_seeds.py."""
import os, subprocess, sys
HERE = os.path.dirname(os.path.dirname(os.path.abspath(__file__)))
p = os.path.join(HERE, "DESIGN.md")
lines = open(p).read().split("\n")


def splice(header_prefix, new_table):
    new = [l for l in new_table.strip().split("\n") if l.startswith("|")]
    i = next(k for k, l in enumerate(lines) if l.startswith(header_prefix))
    j = i
    while j < len(lines) and lines[j].startswith("|"):
        j += 1
    lines[i:j] = new
    return len(new) - 2


n1 = splice("| id | rules run (obligations", subprocess.run([sys.executable, os.path.join(HERE, "tools", "rule_table.py")], capture_output=True, text=True, check=True).stdout)
n2 = splice("| seed | breaks | changed |", subprocess.run([sys.executable, os.path.join(HERE, "tools", "seed_table.py")], capture_output=True, text=True, check=True).stdout)
open(p, "w").write("\n".join(lines))
print("rule table: %d rows; seed table: %d rows" % (n1, n2))
