#!/usr/bin/env python3
"""Maintain known_findings.json (run by hand; checks never write it).
   tools/known.py  -> rewrites known_findings.json from the table below."""
import json, os
HERE = os.path.dirname(os.path.dirname(os.path.abspath(__file__)))

def fixed(prop, rule, key, commit, what):
    return {"property": prop, "rule": rule, "key": key, "status": "fixed", "commit": commit, "what": what,
            "line": "fixed: property=%s %s %s" % (prop, commit, what)}

def open_(prop, rule, key, what, demo):
    return {"property": prop, "rule": rule, "key": key, "status": "open", "what": what, "demonstrated_by": demo}

F = []
# ---- C11 / C08 descriptor leaks
F += [fixed(p, "FD-PATH", "FD-PATH:platform::unix::OsIpcSender::connect:libc::socket->after-connect:return-Err", "5dba1d7",
            "OsIpcSender::connect leaked its socket when connect(2) failed (10 failed connects -> +10 descriptors)") for p in ("C11",)]
for p in ("C11", "C08"):
    for ex in ("after-tempdir:return-Err?", "after-bind:return-Err", "after-listen:return-Err"):
        F.append(fixed(p, "FD-PATH", "FD-PATH:platform::unix::OsIpcOneShotServer::new:libc::socket->" + ex, "aa8dfc2",
                       "OsIpcOneShotServer::new leaked the listening socket on the %s exit" % ex.split(":")[0]))
    F.append(fixed(p, "FD-PATH", "FD-PATH:platform::unix::OsIpcOneShotServer::accept:libc::accept->after-make_socket_lingering:return-Err?", "51aced0",
                   "OsIpcOneShotServer::accept leaked the accepted socket when SO_LINGER could not be set"))
F.append(fixed("C11", "FD-PATH", "FD-PATH:platform::unix::OsIpcReceiverSet::add:platform::unix::OsIpcReceiver::consume_fd->after-register:return-Err?", "b5270a4",
               "OsIpcReceiverSet::add took the descriptor out of the receiver before the fallible registration and leaked it on failure"))
F.append(fixed("C11", "CLOEXEC", "CLOEXEC:platform::unix::OsIpcOneShotServer::accept:accept:inheritable", "6df199c",
               "accept(2) returned a descriptor without FD_CLOEXEC (observed cloexec=false)"))
F.append(fixed("C11", "CLOEXEC", "CLOEXEC:<platform::unix::OsIpcSharedMemory as std::clone::Clone>::clone:dup:inheritable", "6df199c",
               "dup(2) in OsIpcSharedMemory::clone returned a descriptor without FD_CLOEXEC (observed cloexec=false)"))
for p in ("C11", "C16"):
    F.append(fixed(p, "FD-DROP", "FD-DROP:platform::unix::OsOpaqueIpcChannel.fd:drop-never-closes", "213e0c1",
                   "OsOpaqueIpcChannel::drop never closed: dropping a received but undecoded message panicked (debug) or leaked the descriptors (release)"))
# ---- C14
F.append(fixed("C14", "TLS-RESTORE", "TLS-RESTORE:ipc::IpcSender::<T>::send::{closure#0}::{closure#0}:arg1.0:not-restored-at:after-bincode::serialize_into:residual", "0f14d46",
               "IpcSender::send returned through '?' on a serialisation error before restoring the per-thread tables: an embedded sender stayed alive (peer saw Empty, not Disconnected)"))
# ---- C17
F.append(fixed("C17", "STOP-EXIT", "STOP-EXIT:router::Router::run:shutdown->select", "4a99e70",
               "Router::run: 'break' in the Shutdown arm only left the inner loop; a callback fired after shutdown() had returned"))
F.append(fixed("C17", "STOP-DROP-FIRST", "STOP-DROP-FIRST:router::Router::run:ack-before-handlers-dropped", "4a99e70",
               "Router::run acknowledged shutdown while every registered callback was still alive"))
F.append(fixed("C17", "STOP-EXIT", "STOP-EXIT:router::Router::run:wakeup-closed-not-distinguished", "91ce48e",
               "dropping a RouterProxy closed the wake-up channel, which the router treated as a route closure"))
F.append(fixed("C17", "STOP-NOPANIC", "STOP-NOPANIC:router::Router::run:remove.unwrap:ChannelClosed", "91ce48e",
               "handlers.remove(wakeup id).unwrap() panicked the router thread when its proxy was dropped"))
# ---- C16
for fn, kind in (("<ipc::IpcSharedMemory as serde::Deserialize<'de>>::deserialize::{closure#0}", "index:index_mut"),
                 ("<ipc::IpcSharedMemory as serde::Deserialize<'de>>::deserialize::{closure#0}", "unwrap:std::option::Option::unwrap"),
                 ("ipc::deserialize_os_ipc_receiver::{closure#0}", "index:index_mut"),
                 ("ipc::deserialize_os_ipc_receiver::{closure#0}", "index:index"),
                 ("ipc::deserialize_os_ipc_sender::{closure#0}", "index:index_mut")):
    F.append(fixed("C16", "DECODE-NOPANIC", "DECODE-NOPANIC:%s:%s" % (fn, kind), "288f103",
                   "attachment index taken from the wire was used with [] / unwrap: an out-of-range or reused index panicked the receiver"))
for fn, m in (("ipc::deserialize_os_ipc_receiver::{closure#0}", "to_receiver"), ("ipc::deserialize_os_ipc_sender::{closure#0}", "to_sender")):
    F.append(fixed("C16", "DECODE-TAKE-ONCE", "DECODE-TAKE-ONCE:%s:%s:slot-not-consumed" % (fn, m), "288f103",
                   "a channel index referenced twice was converted twice, the second time from the -1 sentinel (close(-1) assertion)"))
F.append(open_("C16", "DECODE-RESULT-UNWRAP", "DECODE-RESULT-UNWRAP:router::RouterProxy::route_ipc_receiver_to_crossbeam_sender::{closure#0}:unwrap-of-decode-result",
               "the crossbeam-forwarding route unwraps message.to::<T>(): one undecodable message panics the router thread, after which every add_route panics its caller "
               "(router.rs route_ipc_receiver_to_crossbeam_sender). Not repaired: any repair changes the API's behaviour (drop the message silently, or close the route).",
               "findings_demo: `cargo run -- router` -> router thread panics at router.rs:110, second route's add_route panics at router.rs:72"))
for m, msg in (("to_receiver", "is not a receiver"), ("to_sender", "is not a sender")):
    F.append(open_("C16", "DECODE-NOPANIC", "DECODE-NOPANIC:platform::inprocess::OsOpaqueIpcChannel::%s:panic:std::rt::panic_fmt" % m,
                   "in-process transport only: decoding an attached endpoint as the other kind panics ('Opaque channel %s!') where the OS transport yields a value. "
                   "Not repaired: to_sender/to_receiver are infallible in every backend's API (macOS/Windows cannot be compiled here)." % msg,
                   "findings_demo: `cargo run --features inproc -- kind` -> PANICKED; without the feature -> Ok"))

# ---- C12
for _p in ("C12", "C03", "C07", "C06"):
  F.append(open_(_p, "CLOSED-ORIGIN", "CLOSED-ORIGIN:platform::unix::recv:libc::recv==0",
               "recv() reports UnixError::ChannelClosed when the per-message follow-up socket hits EOF: a sender process killed in the middle of a multi-fragment "
               "message makes a plain receiver report Disconnected, and makes a receiver set deregister and close the member (a router drops the route), although "
               "another sender handle survives and the channel is still usable. Not repaired: a correct repair needs a distinct error and a policy for an aborted "
               "message in OsIpcReceiverSet::select and the router (today any other error aborts select and stops the router thread).",
               "findings_demo: `cargo run -- crash` -> recv = Err(Disconnected) while the parent's sender still sends and the next recv returns its message"))
# ---- C09 / C12 (found by the sub-agent seeding C09 as a baseline observation, reproduced with findings_demo `hang`)
for _p in ("C09", "C12"):
    F.append(fixed(_p, "SEND-PEER-CLOSED", "SEND-PEER-CLOSED:platform::unix::OsIpcSender::send:followup-while-holding-receive-end", "9d0acbd",
                   "a multi-fragment send whose receiver was dropped after the first fragment blocked forever: the sender kept its own copy of the per-message receive end open"))
# ---- C15
for role in ("single-packet", "fragmented"):
    F.append(fixed("C15", "FD-BOUND", "FD-BOUND:platform::unix::OsIpcSender::send:unbounded-descriptor-count:" + role, "f0938f2",
                   "send accepted any number of descriptors (%s path): 65 senders in one message were accepted and the receiver panicked on index 64" % role))
# ---- C18
F.append(fixed("C18", "NULL-GUARD", "NULL-GUARD:<platform::unix::OsIpcSharedMemory as std::ops::Deref>::deref:from_raw_parts:nullable-pointer-unguarded", "da4c385",
               "OsIpcSharedMemory::from_bytes(&[]) constructed a region whose first deref aborted (null pointer into slice::from_raw_parts)"))
F.append(fixed("C18", "NULL-GUARD", "NULL-GUARD:platform::unix::OsIpcSharedMemory::from_byte:from_raw_parts_mut:nullable-pointer-unguarded", "da4c385",
               "OsIpcSharedMemory::from_byte(7, 0) aborted in the constructor (null pointer into slice::from_raw_parts_mut)"))

json.dump({"comment": "Committed by hand; never written by a check. 'open' entries turn exactly that report into a KNOWN-FINDING line; 'fixed' entries suppress nothing.",
           "findings": F}, open(os.path.join(HERE, "known_findings.json"), "w"), indent=1)
print(len(F), "entries;", sum(1 for f in F if f["status"] == "open"), "open")
