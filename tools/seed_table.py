#!/usr/bin/env python3
"""print the markdown table of seeded changes and the checks that report them (from seeded/*/meta.json)"""
import glob, json, os
HERE = os.path.dirname(os.path.dirname(os.path.abspath(__file__)))
print("| seed | breaks | changed | needs in order to manifest | reported by (property: rules) |")
print("|------|--------|---------|----------------------------|--------------------------------|")
for p in sorted(glob.glob(os.path.join(HERE, "seeded", "*", "meta.json"))):
    m = json.load(open(p))
    det = []
    for prop, keys in sorted(m.get("detected_by", {}).items()):
        rules = sorted({k.split(":")[0] for k in keys})
        det.append("%s: %s" % (prop, ", ".join(rules)))
    own = "" if m.get("detected_by_own_property") else " (not by its own property's check)"
    print("| %s | %s | %s | %s | %s%s |" % (m["id"], m["breaks_property"], ", ".join(os.path.basename(f) for f in m["files_changed"]), m["needs_to_manifest"].replace("|", "/"), "; ".join(det) or "**not detected**", own))
