#!/usr/bin/env python3
"""regenerate tables/known_fns.json from /repo's current tree (do this only when the tree is the new reference)"""
import sys, json, os
sys.path.insert(0, os.path.dirname(os.path.dirname(os.path.abspath(__file__))))
from vlib import extract, mir
names = set()
mods = set()
traits = set()
for c in extract.CONFIGS:
    d, m = extract.extract(c)
    mods.update(d.get("mods", []))
    traits.update(d.get("traits", []))
    for f in d["fns"]:
        names.add(f["path"]); names.add(mir.strip_generics(f["path"]))
json.dump({"comment": "function inventory of the reference tree, all configurations", "functions": sorted(names), "modules": sorted(mods), "traits": sorted(traits)},
          open(os.path.join(os.path.dirname(os.path.dirname(os.path.abspath(__file__))), "tables", "known_fns.json"), "w"), indent=0)
print(len(names), "functions")
