"""SCRATCH-FRESH: scratch values the receive path is handed by its caller (a control-message header with its buffer, the landing buffer of the
first packet) are in the state their constructor left them in at every receive -- the kernel and the receive itself consume that state:
recvmsg() overwrites msg_controllen with what it delivered, a multi-packet receive takes the landing buffer away.

Decided as a typestate over the resolved program.  A function *needs a fresh argument* at parameter p when it passes (part of) *p to recvmsg as
the message header without writing `msg_controllen` first, or uses *p as the landing buffer without establishing its capacity first, or hands *p
on to a function that needs it fresh.  In every function that owns such a value (a local, not a parameter), along every feasible path, a call that
needs it fresh must not follow another such call without the value having been rebuilt (whole assignment) or, for the header, its control length
rewritten in between.  A loop around the receive with the value built outside is the typical finding."""
from vlib.flow import Explorer, Tracer, ref_place
from vlib.mir import callee_name, op_local, op_place, strip_generics

RECVMSG = ("libc::recvmsg", "platform::unix::recvmsg")
CAP_SETTERS = ("std::vec::Vec::with_capacity",)


def _field_names(pl):
    return [e.get("n") for e in pl.get("p", []) if isinstance(e, dict) and "f" in e]


def _ctl_writes(f):
    """blocks that assign the msg_controllen field of something: [(block, base local)]"""
    out = []
    for b in f.live_blocks():
        for st in f.stmts(b):
            if st["s"] == "assign" and "msg_controllen" in _field_names(st["lhs"]):
                rp = ref_place(f, {"k": "cp", "pl": {"l": st["lhs"]["l"]}})
                out.append((b, rp[0] if rp else st["lhs"]["l"]))
    return out


def _is_ref_param(f, l):
    return l is not None and 1 <= l <= f.argc and (f.local_ty(l).startswith("&") or f.local_ty(l).startswith("*"))


def needs_fresh(F):
    """{fn path: {param index: reason}} -- fixpoint over the call graph"""
    need = {}
    # base: header handed to recvmsg without a control-length write in between
    for f in F.fns.values():
        for b, t in f.calls():
            nm = strip_generics(callee_name(t))
            if nm in RECVMSG and len(t["args"]) >= 2:
                rp = ref_place(f, t["args"][1])
                if rp and _is_ref_param(f, rp[0]):
                    if not any(base == rp[0] and f.dominates(wb, b) for wb, base in _ctl_writes(f)):
                        need.setdefault(f.path, {})[rp[0]] = "passes it to recvmsg() without writing msg_controllen first"
    # base: a &mut Vec<u8> parameter used as landing buffer (set_len to its own capacity / as iovec base) without establishing the capacity here
    for f in F.fns.values():
        if not any(strip_generics(callee_name(t)) in RECVMSG or strip_generics(callee_name(t)).endswith("UnixCmsg::recv") for _, t in f.calls()):
            continue
        for b, t in f.calls():
            if strip_generics(callee_name(t)) != "std::vec::Vec::set_len" or "u8" not in " ".join(t.get("generics", [])):
                continue
            rp = ref_place(f, t["args"][0])
            if not rp or not _is_ref_param(f, rp[0]) or "Vec<u8>" not in f.local_ty(rp[0]):
                continue
            if not _capacity_established(f, rp[0], b):
                need.setdefault(f.path, {})[rp[0]] = "uses it as the landing buffer of the first packet without reserving its capacity first"
    # propagate through functions that hand their own parameter on
    for _ in range(6):
        changed = False
        for f in F.fns.values():
            for b, t in f.calls():
                cn = _callee_path(F, t)
                if cn not in need:
                    continue
                for p, why in list(need[cn].items()):
                    if p - 1 >= len(t["args"]):
                        continue
                    rp = ref_place(f, t["args"][p - 1])
                    if rp and _is_ref_param(f, rp[0]) and rp[0] not in need.get(f.path, {}):
                        if "recvmsg" in why and any(base == rp[0] and f.dominates(wb, b) for wb, base in _ctl_writes(f)):
                            continue
                        if "landing" in why and _capacity_established(f, rp[0], b):
                            continue
                        need.setdefault(f.path, {})[rp[0]] = "hands it to %s, which %s" % (cn, why)
                        changed = True
        if not changed:
            break
    return need


def _capacity_established(f, vec_local, before_block):
    """`v.clear(); v.reserve(n)` (or `*v = Vec::with_capacity(n)`) on the same vector dominating the use"""
    clears = [b for b, t in f.calls() if strip_generics(callee_name(t)) in ("std::vec::Vec::clear",) and (ref_place(f, t["args"][0]) or (None,))[0] == vec_local]
    for b, t in f.calls():
        if strip_generics(callee_name(t)) in ("std::vec::Vec::reserve", "std::vec::Vec::reserve_exact") and (ref_place(f, t["args"][0]) or (None,))[0] == vec_local:
            if f.dominates(b, before_block) and any(f.dominates(cb, b) for cb in clears):
                return True
    for b in f.live_blocks():
        for st in f.stmts(b):
            if st["s"] == "assign" and st["lhs"]["l"] == vec_local and st["lhs"].get("p") == ["*"] and f.dominates(b, before_block):
                src = op_local(st["rv"]["a"][0]) if st["rv"]["r"] == "use" else None
                if src is not None and any(d[1] is None and strip_generics(callee_name(d[2])) in CAP_SETTERS for d in f.defs().get(src, [])):
                    return True
    return False


def _callee_path(F, t):
    n = t.get("resolved") or t.get("callee") or ""
    if n in F.fns:
        return n
    s = strip_generics(n)
    for p in F.fns:
        if strip_generics(p) == s:
            return p
    return None


def rule_scratch_fresh(ctx, cfg, F):
    R = ctx.rule("SCRATCH-FRESH", "a control-message header or first-packet landing buffer that a caller hands to the receive path is as its constructor left it at every receive: "
                 "no second receive through the same value (a loop around the receive with the value built outside it) unless the control length is rewritten / the capacity "
                 "re-established first -- recvmsg() stores the delivered control length in the header, and a multi-packet receive takes the buffer")
    need = needs_fresh(F)
    n_sites = 0
    for f in sorted(F.fns.values(), key=lambda x: x.path):
        sites = {}
        for b, t in f.calls():
            nm = strip_generics(callee_name(t))
            cn = _callee_path(F, t)
            req = dict(need.get(cn, {})) if cn else {}
            if nm in RECVMSG and len(t["args"]) >= 2:
                req = {2: "is recvmsg(), which stores the delivered control length in the header"}
            for p, why in req.items():
                if p - 1 >= len(t["args"]):
                    continue
                rp = ref_place(f, t["args"][p - 1])
                if not rp or _is_ref_param(f, rp[0]):
                    continue          # the caller's value: judged where it is owned
                sites.setdefault(b, []).append((rp[0], cn or nm, why))
        if not sites:
            continue
        n_sites += sum(len(v) for v in sites.values())
        objs = {o for v in sites.values() for o, _, _ in v}
        rewrites = {}
        for wb, base in _ctl_writes(f):
            if base in objs:
                rewrites.setdefault(wb, set()).add(base)
        problems = {}

        def step(b, used, env):
            used = set(used)
            for st in f.stmts(b):
                if st["s"] == "assign" and st["lhs"]["l"] in objs and not st["lhs"].get("p"):
                    used.discard(st["lhs"]["l"])
            for o in rewrites.get(b, ()):
                used.discard(o)
            t = f.term(b)
            if t["t"] == "call":
                for o, callee, why in sites.get(b, ()):
                    if o in used:
                        problems.setdefault((o, callee), (b, why))
                    used.add(o)
                if not t["dest"].get("p") and t["dest"]["l"] in objs:
                    used.discard(t["dest"]["l"])
                # a landing buffer cleared and given its capacity again
                nm = strip_generics(callee_name(t))
                if nm in ("std::vec::Vec::reserve", "std::vec::Vec::reserve_exact") and t["args"]:
                    rp = ref_place(f, t["args"][0])
                    if rp and rp[0] in objs and _capacity_established(f, rp[0], f.term(b)["to"] if f.term(b).get("to") is not None else b):
                        used.discard(rp[0])
            return frozenset(used)

        try:
            Explorer(f).walk(0, frozenset(), step)
        except RuntimeError as e:
            R.violate("%s:state-explosion" % f.path, str(e), f.path, f.loc(0), config=cfg)
            continue
        for (o, callee), (b, why) in sorted(problems.items(), key=repr):
            R.violate("%s:reused-across-receives:%s" % (strip_generics(f.path), _obj_name(f, o)),
                      "%s hands `%s` (%s) to %s more than once without rebuilding it: that function %s -- from the second receive on, descriptors beyond the previous "
                      "message's are cut off by the kernel / the packet is read into a buffer of the wrong size" % (f.path, _obj_name(f, o), f.local_ty(o)[:60], callee, why),
                      f.path, f.loc(b), config=cfg)
        if not problems:
            R.ok("%s: every receive through %s gets a freshly built value" % (f.path, ", ".join(sorted(_obj_name(f, o) for o in objs))), f.loc(min(sites)), cfg)
    for p, d in sorted(need.items()):
        for i, why in sorted(d.items()):
            R.instance("%s needs a fresh argument %d: %s" % (p, i, why[:160]), None, cfg)
    n_recvmsg = sum(1 for f in F.fns.values() for _, t in f.calls() if strip_generics(callee_name(t)) in RECVMSG)
    R.count("receive_sites[%s]" % cfg, n_recvmsg)
    R.count("owned_scratch_uses[%s]" % cfg, n_sites)


def _obj_name(f, l):
    return str(f.names.get(l) or "_%d" % l)
