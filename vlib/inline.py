"""Normalisation of the fact base: private single-caller helpers are inlined into their caller.

Why: the rules are all-paths analyses of one function body.  "Extract a helper", "split a long function", "turn the
closure into a named fn" are the commonest behaviour-preserving refactorings, and they would move half of a rule's
anchors into another body.  Inlining (with a stated bound) makes the rules see the same program either way.

Policy (deliberately simple, stated in DESIGN.md section 9):
  a call site `f -> g` is inlined iff
    * g is a function or closure of this crate, g != f, no recursion, depth <= MAX_DEPTH,
    * g is not `pub` (API boundary) and not a trait-impl method,
    * g does not *directly* contain one of the anchor system calls (sendmsg, send, recvmsg): those wrappers keep their
      identity because the rules name them by that role,
    * g has exactly one caller function in the crate (any number of call sites in it),
  and additionally `LocalKey::with(key, c)` is treated as a direct call of the closure / fn item `c` with the
  thread-local's value as its argument (std calls it exactly once).
All original functions stay in the fact base; only the bodies of callers grow.
"""
import copy
import re

from .mir import Fn, callee_name, strip_generics

import json
import os

MAX_DEPTH = 4
_INV = None


def inventory():
    """function paths of the reference tree (tables/known_fns.json).  Functions in the inventory are the vocabulary the
    rules were written in and are never inlined; a private single-caller function that is NOT in the inventory is a helper
    somebody extracted later, and is inlined back into its caller."""
    global _INV
    if _INV is None:
        p = os.path.join(os.path.dirname(os.path.dirname(os.path.abspath(__file__))), "tables", "known_fns.json")
        try:
            _INV = set(json.load(open(p))["functions"])
        except OSError:
            _INV = set()
    return _INV
ANCHOR_SYSCALLS = ("libc::sendmsg", "libc::send", "libc::recvmsg")
WITH = "std::thread::LocalKey::with"


def _direct_calls(f):
    for b, t in f.calls(live_only=False, include_cleanup=False):
        yield b, t


def _callee_fn(F, t):
    for n in (t.get("resolved"), t.get("callee")):
        if n and n in F.fns:
            return F.fns[n]
    if t.get("local") or t.get("resolved_local"):
        n = strip_generics(callee_name(t))
        for g in F.fns.values():
            if strip_generics(g.path) == n:
                return g
    return None


_INV_TRAITS = None


def new_traits(F):
    """crate-local traits the reference tree does not have: their methods are plumbing a refactor introduced, to be looked through"""
    global _INV_TRAITS
    if _INV_TRAITS is None:
        p = os.path.join(os.path.dirname(os.path.dirname(os.path.abspath(__file__))), "tables", "known_fns.json")
        try:
            _INV_TRAITS = set(json.load(open(p)).get("traits", []))
        except OSError:
            _INV_TRAITS = set()
    return set(getattr(F, "traits", None) or []) - _INV_TRAITS


def _ty_unify(pattern, params, concrete):
    """bind the impl's type parameters by matching its self type against a concrete one; lifetimes are ignored.  None when they do not match"""
    norm = lambda x: re.sub(r"'[A-Za-z_][A-Za-z0-9_]*\s*,?\s*", "", x).replace("<>", "").replace(" ", "")
    pat, con = norm(pattern), norm(concrete)
    rx, names = re.escape(pat), []
    for n in params:
        if not re.match(r"^[A-Za-z_][A-Za-z0-9_]*$", n):
            continue
        rx2 = re.sub(r"(?<![A-Za-z0-9_:])%s(?![A-Za-z0-9_])" % re.escape(n), "(?P<%s>.+)" % n, rx, count=1)
        if rx2 != rx:
            names.append(n)
            rx = re.sub(r"(?<![A-Za-z0-9_:\)])%s(?![A-Za-z0-9_])" % re.escape(n), "(?P=%s)" % n, rx2)
    m = re.match("^" + rx + "$", con)
    if not m:
        return None
    return {n: m.group(n) for n in names}


def _trait_dispatch(F, t):
    """`<X as Tr>::m(..)` left unresolved in a generic body (a provided method calling a required one), seen again with X concrete after the
    body was inlined and instantiated: pick the impl of the NEW trait Tr for X.  Returns (fn, bindings of that fn's generic parameters)"""
    if t.get("resolved") or not t.get("callee") or not t.get("generics"):
        return None
    callee = strip_generics(t["callee"])
    if "::" not in callee:
        return None
    tr, meth = callee.rsplit("::", 1)
    if tr not in new_traits(F):
        return None
    selfty = t["generics"][0]
    if re.match(r"^(Self|[A-Z][A-Za-z0-9]?)$", selfty):
        return None                      # still generic
    hits = []
    for i in F.impls:
        if i["trait"] != tr:
            continue
        item = next((m for m in i["items"] if m.rsplit("::", 1)[-1] == meth), None)
        g = F.fns.get(item) if item else F.fns.get(t["callee"])
        if g is None:
            continue
        gp = g.raw.get("gparams") or []
        b = _ty_unify(i["self"], gp, selfty)
        if b is not None:
            hits.append((g, b, item is not None))
    if len(hits) != 1:
        return None
    g, b, own = hits[0]
    if not own:
        b = None                          # the provided method again: its parameters are the call's own (Self, ..)
    return g, b


def _with_target(F, f, t):
    """for `LocalKey::with(key, c)`: (callee fn, 'closure'|'fnitem', operand of c)"""
    if strip_generics(callee_name(t)) != WITH or len(t["args"]) < 2:
        return None
    a = t["args"][1]
    if a["k"] == "c":
        if "closure" in a and a["closure"] in F.fns:
            return F.fns[a["closure"]], "closure", a
        if "fn" in a:
            g = F.fns.get(a["fn"]) or next((x for x in F.fns.values() if strip_generics(x.path) == strip_generics(a["fn"])), None)
            if g is not None:
                return g, "fnitem", a
        return None
    # closure aggregate held in a local: find its (single) definition
    l = a["pl"]["l"] if not a["pl"].get("p") else None
    if l is None:
        return None
    for (b, si, node) in f.defs().get(l, []):
        if si is not None and node["rv"]["r"] == "agg" and node["rv"]["kind"].get("closure") in F.fns:
            return F.fns[node["rv"]["kind"]["closure"]], "closure", a
    return None


INLINE_DROPS = True
CALL_TRAITS = ("std::ops::FnOnce::call_once", "std::ops::FnMut::call_mut", "std::ops::Fn::call")


def _closure_call_target(F, f, t):
    """`FnOnce::call_once(c, args)` where c is (a copy of) a closure of this crate that is not in the inventory"""
    if strip_generics(t.get("callee") or "") not in CALL_TRAITS or not t["args"]:
        return None
    a = t["args"][0]
    seen = set()
    while True:
        if a["k"] == "c":
            if "closure" in a and a["closure"] in F.fns:
                return F.fns[a["closure"]], t["args"][0]
            return None
        l = a["pl"]["l"]
        proj = [e for e in a["pl"].get("p", []) if e != "*"]
        if proj:
            # a closure captured by another closure (`KEY.with(|table| f(&mut table.borrow_mut()))`): `env.i` / `(*env).i` is what the enclosing closure was built with
            if len(proj) != 1 or not isinstance(proj[0], dict) or "f" not in proj[0] or ("env", l) in seen:
                return None
            seen.add(("env", l))
            el, agg = l, None
            for _ in range(32):
                ds = [d for d in f.defs().get(el, []) if d[1] is not None and not f.is_cleanup(d[0])]
                if len(ds) != 1:
                    break
                rv = ds[0][2]["rv"]
                if rv["r"] == "agg" and "closure" in rv["kind"]:
                    agg = rv
                    break
                if rv["r"] in ("use", "cast") and rv["a"][0]["k"] != "c" and not rv["a"][0]["pl"].get("p"):
                    el = rv["a"][0]["pl"]["l"]
                elif rv["r"] in ("ref", "raw") and not rv["pl"].get("p"):
                    el = rv["pl"]["l"]
                else:
                    break
            if agg is None or proj[0]["f"] >= len(agg["a"]):
                return None
            a = agg["a"][proj[0]["f"]]
            continue
        if l in seen:
            return None
        seen.add(l)
        ds = [d for d in f.defs().get(l, []) if d[1] is not None and not f.is_cleanup(d[0])]
        if len(ds) != 1:
            return None
        rv = ds[0][2]["rv"]
        if rv["r"] == "agg" and rv["kind"].get("closure") in F.fns:
            return F.fns[rv["kind"]["closure"]], t["args"][0]
        if rv["r"] in ("use", "cast"):
            a = rv["a"][0]
            continue
        if rv["r"] in ("ref", "raw") and not rv["pl"].get("p"):
            a = {"k": "cp", "pl": rv["pl"]}
            continue
        return None



def _closure_of_local(F, f, operand):
    """crate closure whose aggregate value the operand holds (single definition), or None"""
    if operand["k"] == "c":
        return F.fns.get(operand.get("closure")) if "closure" in operand else None
    l = operand["pl"]["l"] if not operand["pl"].get("p") else None
    seen = set()
    while l is not None and l not in seen:
        seen.add(l)
        ds = [d for d in f.defs().get(l, []) if not f.is_cleanup(d[0])]
        if len(ds) != 1 or ds[0][1] is None:
            return None
        rv = ds[0][2]["rv"]
        if rv["r"] == "agg" and rv["kind"].get("closure") in F.fns:
            return F.fns[rv["kind"]["closure"]]
        if rv["r"] in ("use", "cast") and rv["a"][0]["k"] != "c" and not rv["a"][0]["pl"].get("p"):
            l = rv["a"][0]["pl"]["l"]
            continue
        return None
    return None


def _lower_for_each(F, f, raw, blk, t):
    """`base.map(c0)...for_each(c1)` with crate closures  ->  an explicit loop over `base` that calls the closures (FnMut::call_mut), so that
    the closure bodies are inlined where they run and the one-body rules see an ordinary loop.  Returns True when the block was rewritten."""
    if strip_generics(t.get("callee") or "") != "std::iter::Iterator::for_each" or len(t["args"]) != 2 or t["to"] < 0:
        return False
    stages = []
    last = _closure_of_local(F, f, t["args"][1])
    if last is None or last.path in inventory() or strip_generics(last.path) in inventory():
        return False
    stages.append((last, t["args"][1]))
    base = t["args"][0]
    for _ in range(4):
        if base["k"] == "c" or base["pl"].get("p"):
            break
        ds = [d for d in f.defs().get(base["pl"]["l"], []) if not f.is_cleanup(d[0])]
        if len(ds) != 1 or ds[0][1] is not None:
            break
        node = ds[0][2]
        if strip_generics(node.get("callee") or "") != "std::iter::Iterator::map" or len(node["args"]) != 2:
            break
        c0 = _closure_of_local(F, f, node["args"][1])
        if c0 is None or c0.path in inventory() or strip_generics(c0.path) in inventory():
            return False
        stages.insert(0, (c0, node["args"][1]))
        base = node["args"][0]
    if base["k"] == "c":
        return False
    blocks, locals_ = raw["blocks"], raw["locals"]

    def new_local(ty):
        locals_.append({"i": len(locals_), "t": ty, "adt": ""})
        return len(locals_) - 1
    item_ty = stages[0][0].local_ty(2)
    base_ty = f.local_ty(base["pl"]["l"])
    it = new_local(base_ty)
    opt = new_local("std::option::Option<%s>" % item_ty)
    dsc = new_local("isize")
    refit = new_local("&mut " + base_ty)
    ln = t.get("ln")
    H, A, BODY, EXIT, UNR = len(blocks), len(blocks) + 1, len(blocks) + 2, len(blocks) + 3, len(blocks) + 4
    first_stage = len(blocks) + 5
    src = blk.get("src")
    blocks.append({"b": H, "cleanup": False, "src": src, "st": [{"s": "assign", "lhs": {"l": refit}, "rv": {"r": "ref", "m": "Mut { kind: Default }", "pl": {"l": it}}, "ln": ln, "x": False}],
                   "term": {"t": "call", "callee": "std::iter::Iterator::next", "resolved": "std::iter::Iterator::next", "foreign": False, "local": False, "krate": "core", "resolved_local": False,
                            "generics": [base_ty], "args": [{"k": "mv", "pl": {"l": refit}}], "dest": {"l": opt}, "to": A, "unwind": "Continue", "ln": ln, "x": False, "lowered": "for_each"}})
    blocks.append({"b": A, "cleanup": False, "src": src, "st": [{"s": "assign", "lhs": {"l": dsc}, "rv": {"r": "discr", "pl": {"l": opt}, "adt": "std::option::Option"}, "ln": ln, "x": False}],
                   "term": {"t": "switch", "on": {"k": "mv", "pl": {"l": dsc}}, "arms": [[0, EXIT], [1, BODY]], "otherwise": UNR, "ln": ln}})
    v = new_local(item_ty)
    blocks.append({"b": BODY, "cleanup": False, "src": src,
                   "st": [{"s": "assign", "lhs": {"l": v}, "rv": {"r": "use", "a": [{"k": "mv", "pl": {"l": opt, "p": [{"v": 1, "n": "Some"}, {"f": 0, "n": "0", "t": item_ty}]}}]}, "ln": ln, "x": False}],
                   "term": {"t": "goto", "to": first_stage, "ln": ln}})
    blocks.append({"b": EXIT, "cleanup": False, "src": src, "st": [{"s": "assign", "lhs": copy.deepcopy(t["dest"]), "rv": {"r": "use", "a": [{"k": "c", "t": "()", "s": "()"}]}, "ln": ln, "x": False}],
                   "term": {"t": "goto", "to": t["to"], "ln": ln}})
    blocks.append({"b": UNR, "cleanup": False, "src": src, "st": [], "term": {"t": "unreachable"}})
    for k, (g, cop) in enumerate(stages):
        nb = len(blocks)
        res = new_local(g.local_ty(0))
        tup = new_local("(%s,)" % g.local_ty(2))
        cref = new_local(g.local_ty(1))
        nxt = nb + 1 if k + 1 < len(stages) else H
        blocks.append({"b": nb, "cleanup": False, "src": src,
                       "st": [{"s": "assign", "lhs": {"l": tup}, "rv": {"r": "agg", "kind": {"tuple": True}, "a": [{"k": "mv", "pl": {"l": v}}]}, "ln": ln, "x": False},
                              {"s": "assign", "lhs": {"l": cref}, "rv": {"r": "ref", "m": "Mut { kind: Default }", "pl": copy.deepcopy(cop["pl"])}, "ln": ln, "x": False}],
                       "term": {"t": "call", "callee": "std::ops::FnMut::call_mut", "resolved": "std::ops::FnMut::call_mut", "foreign": False, "local": False, "krate": "core", "resolved_local": False,
                                "generics": [], "args": [{"k": "mv", "pl": {"l": cref}}, {"k": "mv", "pl": {"l": tup}}], "dest": {"l": res}, "to": nxt, "unwind": "Continue", "ln": ln, "x": False,
                                "lowered": "for_each"}})
        v = res
    blk["st"] = blk["st"] + [{"s": "assign", "lhs": {"l": it}, "rv": {"r": "use", "a": [copy.deepcopy(base)]}, "ln": ln, "x": False}]
    blk["term"] = {"t": "goto", "to": H, "ln": ln, "lowered": "for_each"}
    return True



def _lower_enum_eq(F, f, raw, blk, t):
    """`state == Enum::Variant` on a payload-free crate enum (derived PartialEq) is a test of the discriminant: rewritten to a switch on
    `discriminant(state)` that sets the bool, so that branch facts flow through it like through a `match`."""
    nm = strip_generics(t.get("callee") or "")
    if nm not in ("std::cmp::PartialEq::eq", "std::cmp::PartialEq::ne") or len(t["args"]) != 2 or t["to"] < 0:
        return False
    adt = (t.get("generics") or [""])[0]
    a = F.adts.get(adt)
    if not a or len(a["variants"]) < 2 or any(v["fields"] for v in a["variants"]):
        return False

    def single_def(l):
        ds = [d for d in f.defs().get(l, []) if not f.is_cleanup(d[0]) and d[1] is not None and not d[2]["lhs"].get("p")]
        return ds[0][2]["rv"] if len(ds) == 1 else None

    def as_place(op):
        """&x  ->  x"""
        if op.get("k") not in ("cp", "mv") or op["pl"].get("p"):
            return None
        rv = single_def(op["pl"]["l"])
        if rv and rv["r"] == "ref" and "*" not in rv["pl"].get("p", []):
            return rv["pl"]
        return None

    def as_variant(op):
        """&Enum::V (a promoted constant, or a reference to a local built as that variant)  ->  variant index"""
        if op.get("k") not in ("cp", "mv") or op["pl"].get("p"):
            return None
        rv = single_def(op["pl"]["l"])
        if not rv or rv["r"] != "ref":
            return None
        base = rv["pl"]["l"]
        rv2 = single_def(base)
        if rv2 is None:
            return None
        if rv2["r"] == "use" and rv2["a"][0].get("k") == "c" and "pv" in rv2["a"][0]:
            return rv2["a"][0]["pv"]
        if rv2["r"] == "agg" and rv2["kind"].get("adt") == adt:
            return rv2["kind"].get("vi")
        return None
    P, vi = as_place(t["args"][0]), as_variant(t["args"][1])
    if P is None or vi is None or as_variant(t["args"][0]) is not None:
        P2, vi2 = as_place(t["args"][1]), as_variant(t["args"][0])
        if P2 is not None and vi2 is not None:
            P, vi = P2, vi2
        elif P is None or vi is None:
            return False
    blocks, locals_ = raw["blocks"], raw["locals"]
    locals_.append({"i": len(locals_), "t": "isize", "adt": ""})
    dsc = len(locals_) - 1
    ln, src = t.get("ln"), blk.get("src")
    eq = nm.endswith("::eq")
    T, Fb, S = len(blocks), len(blocks) + 1, len(blocks) + 2
    for bi, val in ((T, eq), (Fb, not eq)):
        blocks.append({"b": bi, "cleanup": False, "src": src,
                       "st": [{"s": "assign", "lhs": copy.deepcopy(t["dest"]), "rv": {"r": "use", "a": [{"k": "c", "t": "bool", "v": 1 if val else 0, "s": "const %s" % str(val).lower()}]}, "ln": ln, "x": False}],
                       "term": {"t": "goto", "to": t["to"], "ln": ln}})
    blocks.append({"b": S, "cleanup": False, "src": src, "st": [{"s": "assign", "lhs": {"l": dsc}, "rv": {"r": "discr", "pl": copy.deepcopy(P), "adt": adt}, "ln": ln, "x": False}],
                   "term": {"t": "switch", "on": {"k": "mv", "pl": {"l": dsc}}, "arms": [[vi, T]], "otherwise": Fb, "ln": ln, "lowered": "enum-eq"}})
    blk["term"] = {"t": "goto", "to": S, "ln": ln, "lowered": "enum-eq"}
    return True


def _lower_map_next(F, f, raw, blk, t):
    """`it.next()` where `it` is `base.map(closure)` with a new crate closure (a lazy adaptor built by a helper and consumed by a `for` loop here):
    rewritten to `match base.next() { Some(x) => Some(closure(x)), None => None }`, so that the closure body runs where the loop is."""
    if strip_generics(t.get("callee") or "") != "std::iter::Iterator::next" or len(t["args"]) != 1 or t["to"] < 0 or t.get("lowered"):
        return False
    if "std::iter::Map<" not in (t.get("resolved") or "") + " ".join(t.get("generics") or []):
        return False
    # back from the `&mut it` argument to the map() call
    pl = t["args"][0].get("pl")
    node = None
    for _ in range(24):
        if pl is None or [e for e in pl.get("p", []) if e != "*"]:
            return False
        ds = [d for d in f.defs().get(pl["l"], []) if not f.is_cleanup(d[0]) and not (d[1] is not None and d[2]["lhs"].get("p"))]
        if len(ds) != 1:
            return False
        b0, si, nd = ds[0]
        if si is None:
            nm = strip_generics(nd.get("callee") or "")
            if nm == "std::iter::Iterator::map" and len(nd["args"]) == 2:
                node, map_block = nd, b0
                break
            if nm in ("std::iter::IntoIterator::into_iter",) and nd["args"] and nd["args"][0].get("pl") is not None:
                pl = nd["args"][0]["pl"]
                continue
            return False
        rv = nd["rv"]
        if rv["r"] in ("ref", "raw"):
            pl = rv["pl"]
        elif rv["r"] in ("use", "cast") and rv["a"][0].get("pl") is not None:
            pl = rv["a"][0]["pl"]
        else:
            return False
    if node is None:
        return False
    c0 = _closure_of_local(F, f, node["args"][1])
    if c0 is None or c0.path in inventory() or strip_generics(c0.path) in inventory() or node["args"][0]["k"] == "c" or node["args"][1]["k"] == "c":
        return False
    blocks, locals_ = raw["blocks"], raw["locals"]

    def new_local(ty):
        locals_.append({"i": len(locals_), "t": ty, "adt": ""})
        return len(locals_) - 1
    base = node["args"][0]
    base_ty = f.local_ty(base["pl"]["l"])
    item_ty = c0.local_ty(2)
    out_ty = c0.local_ty(0)
    ln = t.get("ln")
    src = blk.get("src")
    # the base iterator lives on in a local of its own, filled where map() is called
    key = "mapbase@%d" % map_block
    it = raw.setdefault("_lowered_map", {}).get(key)
    if it is None:
        it = new_local(base_ty)
        raw["_lowered_map"][key] = it
        mb = blocks[map_block]
        mb["st"] = mb["st"] + [{"s": "assign", "lhs": {"l": it}, "rv": {"r": "use", "a": [copy.deepcopy(base)]}, "ln": ln, "x": False}]
    opt = new_local("std::option::Option<%s>" % item_ty)
    dsc = new_local("isize")
    refit = new_local("&mut " + base_ty)
    v = new_local(item_ty)
    tup = new_local("(%s,)" % item_ty)
    cref = new_local("&mut " + f.local_ty(node["args"][1]["pl"]["l"]))
    res = new_local(out_ty)
    A, SOME, NONE, UNR, WRAP = len(blocks), len(blocks) + 1, len(blocks) + 2, len(blocks) + 3, len(blocks) + 4
    blocks.append({"b": A, "cleanup": False, "src": src, "st": [{"s": "assign", "lhs": {"l": dsc}, "rv": {"r": "discr", "pl": {"l": opt}, "adt": "std::option::Option"}, "ln": ln, "x": False}],
                   "term": {"t": "switch", "on": {"k": "mv", "pl": {"l": dsc}}, "arms": [[0, NONE], [1, SOME]], "otherwise": UNR, "ln": ln}})
    blocks.append({"b": SOME, "cleanup": False, "src": src,
                   "st": [{"s": "assign", "lhs": {"l": v}, "rv": {"r": "use", "a": [{"k": "mv", "pl": {"l": opt, "p": [{"v": 1, "n": "Some"}, {"f": 0, "n": "0", "t": item_ty}]}}]}, "ln": ln, "x": False},
                          {"s": "assign", "lhs": {"l": tup}, "rv": {"r": "agg", "kind": {"tuple": 1}, "a": [{"k": "mv", "pl": {"l": v}}]}, "ln": ln, "x": False},
                          {"s": "assign", "lhs": {"l": cref}, "rv": {"r": "ref", "m": "Mut { kind: Default }", "pl": copy.deepcopy(node["args"][1]["pl"])}, "ln": ln, "x": False}],
                   "term": {"t": "call", "callee": "std::ops::FnMut::call_mut", "resolved": "std::ops::FnMut::call_mut", "foreign": False, "local": False, "krate": "core", "resolved_local": False,
                            "generics": [], "args": [{"k": "mv", "pl": {"l": cref}}, {"k": "mv", "pl": {"l": tup}}], "dest": {"l": res}, "to": WRAP, "unwind": "Continue", "ln": ln, "x": False, "lowered": "map-next"}})
    blocks.append({"b": NONE, "cleanup": False, "src": src,
                   "st": [{"s": "assign", "lhs": copy.deepcopy(t["dest"]), "rv": {"r": "agg", "kind": {"adt": "std::option::Option", "variant": "None", "vi": 0}, "a": []}, "ln": ln, "x": False}],
                   "term": {"t": "goto", "to": t["to"], "ln": ln}})
    blocks.append({"b": UNR, "cleanup": False, "src": src, "st": [], "term": {"t": "unreachable"}})
    blocks.append({"b": WRAP, "cleanup": False, "src": src,
                   "st": [{"s": "assign", "lhs": copy.deepcopy(t["dest"]), "rv": {"r": "agg", "kind": {"adt": "std::option::Option", "variant": "Some", "vi": 1}, "a": [{"k": "mv", "pl": {"l": res}}]}, "ln": ln, "x": False}],
                   "term": {"t": "goto", "to": t["to"], "ln": ln}})
    blk["st"] = blk["st"] + [{"s": "assign", "lhs": {"l": refit}, "rv": {"r": "ref", "m": "Mut { kind: Default }", "pl": {"l": it}}, "ln": ln, "x": False}]
    blk["term"] = {"t": "call", "callee": "std::iter::Iterator::next", "resolved": "std::iter::Iterator::next", "foreign": False, "local": False, "krate": "core", "resolved_local": False,
                   "generics": [base_ty], "args": [{"k": "mv", "pl": {"l": refit}}], "dest": {"l": opt}, "to": A, "unwind": "Continue", "ln": ln, "x": False, "lowered": "map-next"}
    return True


def _instantiate(graw, t, bind=None):
    """a generic helper is inlined at a concrete call: write the call's type arguments into the copied body (types of locals, the type
    arguments recorded at its own calls, drop types), so that `mem::take::<Vec<T>>` inside `SideTable<T>::take_all` reads `Vec<OsIpcChannel>`"""
    gp = graw.get("gparams") or []
    ga = t.get("generics") or []
    if bind is not None:
        gp, ga = list(bind.keys()), list(bind.values())
    if not gp or len(gp) != len(ga):
        return graw
    sub = [(n, a) for n, a in zip(gp, ga) if re.match(r"^[A-Za-z_][A-Za-z0-9_]*$", n) and n != a]
    if not sub:
        return graw
    pat = re.compile(r"\b(%s)\b" % "|".join(re.escape(n) for n, _ in sub))
    m = dict(sub)

    def fix(x):
        if isinstance(x, str):
            return pat.sub(lambda mo: m[mo.group(1)], x) if pat.search(x) else x
        if isinstance(x, list):
            return [fix(y) for y in x]
        if isinstance(x, dict):
            return {k: (fix(v) if k in ("t", "ty", "generics", "resolved_generics", "static", "adt", "locals", "blocks", "st", "term", "rv", "lhs", "pl", "p", "a", "args", "dest", "kind", "on", "indirect", "cond") else v) for k, v in x.items()}
        return x
    out = dict(graw)
    out["locals"] = fix(graw["locals"])
    out["blocks"] = fix(graw["blocks"])
    return out



def _split_generic_args(ty):
    """'std::result::Result<A<B, C>, D>' -> ['A<B, C>', 'D']"""
    i = ty.find("<")
    if i < 0 or not ty.endswith(">"):
        return []
    inner = ty[i + 1:-1]
    out, depth, cur = [], 0, ""
    for ch in inner:
        if ch in "<([":
            depth += 1
        elif ch in ">)]":
            depth -= 1
        if ch == "," and depth == 0:
            out.append(cur.strip())
            cur = ""
        else:
            cur += ch
    if cur.strip():
        out.append(cur.strip())
    return out


# combinator -> (scrutinee kind, {variant index: action}); actions: ("wrap", variant name) wrap the payload unchanged, ("call-wrap", variant) call the closure on the
# payload and wrap its result, ("call", None) the closure's result is the result, ("payload", None) the payload is the result, ("unit-call-wrap", variant) call the closure
# without argument and wrap, ("unit-call", None), ("none", None) produce None
_COMBINATORS = {
    "std::result::Result::map":            ("result", {0: ("call-wrap", "Ok"), 1: ("wrap", "Err")}),
    "std::result::Result::map_err":        ("result", {0: ("wrap", "Ok"), 1: ("call-wrap", "Err")}),
    "std::result::Result::and_then":       ("result", {0: ("call", None), 1: ("wrap", "Err")}),
    "std::result::Result::unwrap_or_else": ("result", {0: ("payload", None), 1: ("call", None)}),
    "std::result::Result::or_else":        ("result", {0: ("wrap", "Ok"), 1: ("call", None)}),
    "std::option::Option::map":            ("option", {0: ("none", None), 1: ("call-wrap", "Some")}),
    "std::option::Option::and_then":       ("option", {0: ("none", None), 1: ("call", None)}),
    "std::option::Option::unwrap_or_else": ("option", {0: ("unit-call", None), 1: ("payload", None)}),
    "std::option::Option::ok_or_else":     ("option", {0: ("unit-call-wrap", "Err"), 1: ("wrap", "Ok")}),
    "std::option::Option::or_else":        ("option", {0: ("unit-call", None), 1: ("wrap", "Some")}),
    "std::option::Option::is_some_and":    ("option", {0: ("constbool", 0), 1: ("call", None)}),
    "std::result::Result::is_ok_and":      ("result", {0: ("call", None), 1: ("constbool", 0)}),
    "std::result::Result::is_err_and":     ("result", {0: ("constbool", 0), 1: ("call", None)}),
    # three arguments: (x, default, closure)
    "std::result::Result::map_or":         ("result", {0: ("call", None), 1: ("default", None)}),
    "std::option::Option::map_or":         ("option", {0: ("default", None), 1: ("call", None)}),
    # three arguments: (x, closure for the empty / failing case, closure for the value)
    "std::option::Option::map_or_else":    ("option", {0: ("unit-call", None), 1: ("call", None)}),
    "std::result::Result::map_or_else":    ("result", {0: ("call", None), 1: ("call", None)}),
}
_VARIANTS = {"result": ("std::result::Result", {0: "Ok", 1: "Err"}), "option": ("std::option::Option", {0: "None", 1: "Some"})}


def _lower_combinator(F, f, raw, blk, t):
    """`x.map(c)`, `x.map_err(c)`, `x.and_then(c)`, `x.unwrap_or_else(c)`, `o.ok_or_else(c)` ... with c a closure of this crate that is not in the
    inventory  ->  the explicit two-armed match the combinator stands for, calling the closure where it runs.  Returns True when rewritten."""
    name = strip_generics(t.get("callee") or "")
    spec = _COMBINATORS.get(name)
    if spec is None or t["to"] < 0 or t["dest"].get("p"):
        return False
    with_default = name.endswith("::map_or")
    two_closures = name.endswith("::map_or_else")
    if len(t["args"]) != (3 if (with_default or two_closures) else 2):
        return False
    if two_closures:
        return _lower_map_or_else(F, f, raw, blk, t, name, spec)
    if with_default:
        # the closure is the third argument; the rest of this function reads it as the second
        t = dict(t)
        default_op = t["args"][1]
        t["args"] = [t["args"][0], t["args"][2]]
    g = _closure_of_local(F, f, t["args"][1])
    fn_item = False
    if g is None and t["args"][1].get("k") == "c" and t["args"][1].get("fn"):
        # `.map(Type::constructor)`: a function of this crate passed by name
        g = F.fns.get(t["args"][1]["fn"]) or next((h for h in F.fns.values() if strip_generics(h.path) == strip_generics(t["args"][1]["fn"])), None)
        fn_item = g is not None
    if g is None or (not fn_item and (g.path in inventory() or strip_generics(g.path) in inventory()) and not colliding_closure(F, g)):
        return False          # (a function passed by name is called, not looked through: that is the same for a reference function)
    x = t["args"][0]
    if x["k"] == "c" or x["pl"].get("p"):
        return False
    kind, actions = spec
    blocks, locals_ = raw["blocks"], raw["locals"]
    src_ty = f.local_ty(x["pl"]["l"])
    dst_ty = f.local_ty(t["dest"]["l"])
    sargs = _split_generic_args(src_ty)
    dargs = _split_generic_args(dst_ty)
    enum_adt, vnames = _VARIANTS[kind]
    ln = t.get("ln")
    src = blk.get("src")

    def new_local(ty):
        locals_.append({"i": len(locals_), "t": ty, "adt": ""})
        return len(locals_) - 1

    def new_block(st, term):
        blocks.append({"b": len(blocks), "cleanup": False, "src": src, "st": st, "term": term})
        return len(blocks) - 1
    scrut = new_local(src_ty)
    dsc = new_local("isize")
    exit_to = t["to"]
    arm_blocks = {}
    for vi, (act, wrapv) in actions.items():
        has_payload = not (kind == "option" and vi == 0)
        pty = (sargs[vi] if kind == "result" and len(sargs) == 2 else (sargs[0] if sargs else "?")) if has_payload else "()"
        st = []
        pv = None
        if has_payload:
            pv = new_local(pty)
            st.append({"s": "assign", "lhs": {"l": pv}, "rv": {"r": "use", "a": [{"k": "mv", "pl": {"l": scrut, "p": [{"v": vi, "n": vnames[vi]}, {"f": 0, "n": "0", "t": pty}]}}]}, "ln": ln, "x": False})
        dest = copy.deepcopy(t["dest"])

        def wrap_stmt(val_local, variant):
            dadt = "std::result::Result" if variant in ("Ok", "Err") else "std::option::Option"
            dvi = {"Ok": 0, "Err": 1, "None": 0, "Some": 1}[variant]
            return {"s": "assign", "lhs": dest, "rv": {"r": "agg", "kind": {"adt": dadt, "variant": variant, "vi": dvi}, "a": [{"k": "mv", "pl": {"l": val_local}}]}, "ln": ln, "x": False}
        if act == "wrap":
            st.append(wrap_stmt(pv, wrapv))
            arm_blocks[vi] = new_block(st, {"t": "goto", "to": exit_to, "ln": ln})
        elif act == "payload":
            st.append({"s": "assign", "lhs": dest, "rv": {"r": "use", "a": [{"k": "mv", "pl": {"l": pv}}]}, "ln": ln, "x": False})
            arm_blocks[vi] = new_block(st, {"t": "goto", "to": exit_to, "ln": ln})
        elif act == "none":
            st.append({"s": "assign", "lhs": dest, "rv": {"r": "agg", "kind": {"adt": "std::option::Option", "variant": "None", "vi": 0}, "a": []}, "ln": ln, "x": False})
            arm_blocks[vi] = new_block(st, {"t": "goto", "to": exit_to, "ln": ln})
        elif act == "constbool":
            st = [{"s": "assign", "lhs": dest, "rv": {"r": "use", "a": [{"k": "c", "t": "bool", "v": wrapv, "s": "true" if wrapv else "false"}]}, "ln": ln, "x": False}]
            arm_blocks[vi] = new_block(st, {"t": "goto", "to": exit_to, "ln": ln})
        elif act == "default":
            st = [{"s": "assign", "lhs": dest, "rv": {"r": "use", "a": [copy.deepcopy(default_op)]}, "ln": ln, "x": False}]
            arm_blocks[vi] = new_block(st, {"t": "goto", "to": exit_to, "ln": ln})
        else:
            unit_call = act.startswith("unit-")
            res = new_local(g.local_ty(0))
            if unit_call:
                tup = new_local("()")
                st.append({"s": "assign", "lhs": {"l": tup}, "rv": {"r": "agg", "kind": {"tuple": True}, "a": []}, "ln": ln, "x": False})
            else:
                tup = new_local("(%s,)" % pty)
                st.append({"s": "assign", "lhs": {"l": tup}, "rv": {"r": "agg", "kind": {"tuple": True}, "a": [{"k": "mv", "pl": {"l": pv}}]}, "ln": ln, "x": False})
            if act.endswith("wrap"):
                after = new_block([wrap_stmt(res, wrapv)], {"t": "goto", "to": exit_to, "ln": ln})
                call_dest = {"l": res}
            else:
                after = exit_to
                call_dest = dest
            if fn_item:
                arm_blocks[vi] = new_block(st, {"t": "call", "callee": g.path, "resolved": g.path, "foreign": False, "local": True, "krate": "ipc_channel", "resolved_local": True,
                                                "generics": [], "args": ([] if unit_call else [{"k": "mv", "pl": {"l": pv}}]), "dest": call_dest, "to": after,
                                                "unwind": "Continue", "ln": ln, "x": False, "lowered": name})
            else:
                arm_blocks[vi] = new_block(st, {"t": "call", "callee": "std::ops::FnOnce::call_once", "resolved": "std::ops::FnOnce::call_once", "foreign": False, "local": False, "krate": "core",
                                                "resolved_local": False, "generics": [], "args": [copy.deepcopy(t["args"][1]), {"k": "mv", "pl": {"l": tup}}], "dest": call_dest, "to": after,
                                                "unwind": "Continue", "ln": ln, "x": False, "lowered": name})
    unr = new_block([], {"t": "unreachable"})
    blk["st"] = blk["st"] + [{"s": "assign", "lhs": {"l": scrut}, "rv": {"r": "use", "a": [copy.deepcopy(x)]}, "ln": ln, "x": False},
                             {"s": "assign", "lhs": {"l": dsc}, "rv": {"r": "discr", "pl": {"l": scrut}, "adt": enum_adt}, "ln": ln, "x": False}]
    blk["term"] = {"t": "switch", "on": {"k": "mv", "pl": {"l": dsc}}, "arms": [[0, arm_blocks[0]], [1, arm_blocks[1]]], "otherwise": unr, "ln": ln, "lowered": name}
    return True


def _lower_map_or_else(F, f, raw, blk, t, name, spec):
    """`x.map_or_else(d, c)`: d runs for None / with the error, c with the value; both closures new to the tree (or functions passed by name)"""
    kind, actions = spec
    x = t["args"][0]
    if x["k"] == "c" or x["pl"].get("p"):
        return False
    # which argument serves which variant: Option: None -> args[1], Some -> args[2]; Result: Ok -> args[2], Err -> args[1]
    arg_of = {0: 1, 1: 2} if kind == "option" else {0: 2, 1: 1}
    cl = {}
    for vi, ai in arg_of.items():
        a = t["args"][ai]
        g = _closure_of_local(F, f, a)
        fn_item = False
        if g is None and a.get("k") == "c" and a.get("fn"):
            g = F.fns.get(a["fn"]) or next((h for h in F.fns.values() if strip_generics(h.path) == strip_generics(a["fn"])), None)
            fn_item = g is not None
        if g is None:
            return False
        old = not fn_item and (g.path in inventory() or strip_generics(g.path) in inventory()) and not colliding_closure(F, g)
        cl[vi] = (g, fn_item, a, old)
    if all(c[3] for c in cl.values()):
        return False          # both closures are the reference's own: the call stays as it is there
    cl = {vi: c[:3] for vi, c in cl.items()}
    blocks, locals_ = raw["blocks"], raw["locals"]
    src_ty = f.local_ty(x["pl"]["l"])
    sargs = _split_generic_args(src_ty)
    enum_adt, vnames = _VARIANTS[kind]
    ln = t.get("ln")
    src = blk.get("src")

    def new_local(ty):
        locals_.append({"i": len(locals_), "t": ty, "adt": ""})
        return len(locals_) - 1

    def new_block(st, term):
        blocks.append({"b": len(blocks), "cleanup": False, "src": src, "st": st, "term": term})
        return len(blocks) - 1
    scrut = new_local(src_ty)
    dsc = new_local("isize")
    exit_to = t["to"]
    arm_blocks = {}
    for vi, (act, _w) in actions.items():
        g, fn_item, carg = cl[vi]
        has_payload = not (kind == "option" and vi == 0)
        pty = (sargs[vi] if kind == "result" and len(sargs) == 2 else (sargs[0] if sargs else "?")) if has_payload else "()"
        st = []
        if has_payload:
            pv = new_local(pty)
            st.append({"s": "assign", "lhs": {"l": pv}, "rv": {"r": "use", "a": [{"k": "mv", "pl": {"l": scrut, "p": [{"v": vi, "n": vnames[vi]}, {"f": 0, "n": "0", "t": pty}]}}]}, "ln": ln, "x": False})
            tup = new_local("(%s,)" % pty)
            st.append({"s": "assign", "lhs": {"l": tup}, "rv": {"r": "agg", "kind": {"tuple": True}, "a": [{"k": "mv", "pl": {"l": pv}}]}, "ln": ln, "x": False})
        else:
            tup = new_local("()")
            st.append({"s": "assign", "lhs": {"l": tup}, "rv": {"r": "agg", "kind": {"tuple": True}, "a": []}, "ln": ln, "x": False})
        dest = copy.deepcopy(t["dest"])
        if fn_item:
            arm_blocks[vi] = new_block(st, {"t": "call", "callee": g.path, "resolved": g.path, "foreign": False, "local": True, "krate": "ipc_channel", "resolved_local": True,
                                            "generics": [], "args": ([{"k": "mv", "pl": {"l": pv}}] if has_payload else []), "dest": dest, "to": exit_to,
                                            "unwind": "Continue", "ln": ln, "x": False, "lowered": name})
        else:
            arm_blocks[vi] = new_block(st, {"t": "call", "callee": "std::ops::FnOnce::call_once", "resolved": "std::ops::FnOnce::call_once", "foreign": False, "local": False, "krate": "core",
                                            "resolved_local": False, "generics": [], "args": [copy.deepcopy(carg), {"k": "mv", "pl": {"l": tup}}], "dest": dest, "to": exit_to,
                                            "unwind": "Continue", "ln": ln, "x": False, "lowered": name})
    unr = new_block([], {"t": "unreachable"})
    blk["st"] = blk["st"] + [{"s": "assign", "lhs": {"l": scrut}, "rv": {"r": "use", "a": [copy.deepcopy(x)]}, "ln": ln, "x": False},
                             {"s": "assign", "lhs": {"l": dsc}, "rv": {"r": "discr", "pl": {"l": scrut}, "adt": enum_adt}, "ln": ln, "x": False}]
    blk["term"] = {"t": "switch", "on": {"k": "mv", "pl": {"l": dsc}}, "arms": [[0, arm_blocks[0]], [1, arm_blocks[1]]], "otherwise": unr, "ln": ln, "lowered": name}
    return True


def is_anchor(g):
    return any(strip_generics(callee_name(t)) in ANCHOR_SYSCALLS for _, t in g.calls(live_only=False))


_REF_CALLS = None


def reference_calls(config, path):
    """what the function of that name called in the reference tree (tables/known_fns.json, per configuration)"""
    global _REF_CALLS
    if _REF_CALLS is None:
        p = os.path.join(os.path.dirname(os.path.dirname(os.path.abspath(__file__))), "tables", "known_fns.json")
        try:
            _REF_CALLS = json.load(open(p)).get("by_config", {})
        except OSError:
            _REF_CALLS = {}
    e = (_REF_CALLS.get(config) or {}).get("fns", {}).get(path)
    return set(e["calls"]) if e else set()


def colliding_closure(F, g):
    """closures are numbered, not named: `f::{closure#0}` of today's tree may be another closure than the reference's `f::{closure#0}` (one was added in front of it,
    or it replaced it).  True when g is a closure whose path is in the inventory but whose return and parameter types are not those the reference closure had:
    a new helper that happens to carry an old number, to be looked through like any other."""
    if g.kind != "Closure":
        return False
    global _REF_CALLS
    reference_calls(getattr(F, "config", None), g.path)      # loads the table
    ref = (_REF_CALLS.get(getattr(F, "config", None)) or {}).get("fns", {}).get(g.path)
    if not ref:
        return False
    mask = lambda ts: [re.sub(r"\{closure@[^}]*\}", "{closure}", t_) for t_ in ts]
    cur = mask([l["t"] for l in g.raw["locals"][:g.raw["argc"] + 1]])
    return cur != mask(ref.get("sig", []))


def anchor_comes_home(F, f, g):
    """g is a new helper around a packet system call, and f, which calls it, is a reference function that used to make that system call itself
    (`UnixCmsg::recv` with the recvmsg moved into a new `read_packet`): looking through g gives f its reference shape back"""
    if g.kind == "Closure" or g.impl_trait or strip_generics(g.path) in inventory() or g.path in inventory():
        return False
    sys_ = {strip_generics(callee_name(t)) for _, t in g.calls(live_only=False)} & set(ANCHOR_SYSCALLS)
    if not sys_:
        return False
    ref = {strip_generics(c) for c in reference_calls(getattr(F, "config", None), f.path)}
    ref |= {c.replace("platform::unix::", "libc::") for c in ref}
    return bool(ref) and sys_ <= ref


def inlinable(F, g):
    if (strip_generics(g.path) in inventory() or g.path in inventory()) and not colliding_closure(F, g):
        return False
    if g.kind == "Closure":
        return True
    if g.impl_trait and g.impl_trait not in new_traits(F):
        return False
    if is_anchor(g):
        return False
    return True


def callers_map(F):
    cm = {}
    for f in F.fns.values():
        for b, t in _direct_calls(f):
            g = _callee_fn(F, t)
            if g is None:
                w = _with_target(F, f, t)
                g = w[0] if w else None
            if g is not None and g is not f:
                cm.setdefault(g.path, set()).add(f.path)
    return cm


_RET_ALIAS = None      # while one callee is being spliced in: the caller's local that receives its result (the callee's _0 is written there directly)


def _remap_place(pl, lo):
    out = {"l": _RET_ALIAS if (pl["l"] == 0 and _RET_ALIAS is not None) else pl["l"] + lo}
    if pl.get("p"):
        p2 = []
        for e in pl["p"]:
            if isinstance(e, dict) and "i" in e:
                e = dict(e)
                e["i"] = e["i"] + lo
            p2.append(e)
        out["p"] = p2
    return out


def _remap_op(op, lo):
    if op["k"] in ("cp", "mv"):
        o = dict(op)
        o["pl"] = _remap_place(op["pl"], lo)
        return o
    return op


def _remap_rv(rv, lo):
    rv = dict(rv)
    if "a" in rv:
        rv["a"] = [_remap_op(a, lo) for a in rv["a"]]
    if "pl" in rv:
        rv["pl"] = _remap_place(rv["pl"], lo)
    return rv


def _remap_block(blk, lo, bo, ret_dest, ret_target, src):
    nb = {"b": blk["b"] + bo, "cleanup": blk["cleanup"], "st": [], "src": blk.get("src") or src}
    for st in blk["st"]:
        st = dict(st)
        if "lhs" in st:
            st["lhs"] = _remap_place(st["lhs"], lo)
        if "rv" in st:
            st["rv"] = _remap_rv(st["rv"], lo)
        nb["st"].append(st)
    t = dict(blk["term"])
    k = t["t"]
    if k == "goto":
        t["to"] = t["to"] + bo
    elif k == "switch":
        t["on"] = _remap_op(t["on"], lo)
        t["arms"] = [[v, tb + bo] for v, tb in t["arms"]]
        t["otherwise"] = t["otherwise"] + bo
    elif k == "call":
        t["args"] = [_remap_op(a, lo) for a in t["args"]]
        t["dest"] = _remap_place(t["dest"], lo)
        if t["to"] >= 0:
            t["to"] = t["to"] + bo
        if "indirect" in t:
            t["indirect"] = _remap_op(t["indirect"], lo)
    elif k == "drop":
        t["pl"] = _remap_place(t["pl"], lo)
        t["to"] = t["to"] + bo
    elif k == "assert":
        t["cond"] = _remap_op(t["cond"], lo)
        t["to"] = t["to"] + bo
    elif k == "return":
        if _RET_ALIAS is None:
            nb["st"].append({"s": "assign", "lhs": copy.deepcopy(ret_dest), "rv": {"r": "use", "a": [{"k": "mv", "pl": {"l": lo}}]}, "ln": t.get("ln"), "x": False, "inl_ret": True})
        if ret_target is not None and ret_target >= 0:
            t = {"t": "goto", "to": ret_target}
        else:
            t = {"t": "unreachable"}
    nb["term"] = t
    return nb


_INT_TYPES = ("i8", "i16", "i32", "i64", "i128", "isize", "u8", "u16", "u32", "u64", "u128", "usize")


def inline_function(F, f, cm, done, depth=0):
    """returns a raw dict for f with eligible callees inlined (callees are inlined first, recursively)"""
    if f.path in done:
        return done[f.path]
    raw = copy.deepcopy(f.raw)
    done[f.path] = raw       # recursion guard: a cycle sees the un-inlined body
    blocks = raw["blocks"]
    locals_ = raw["locals"]
    names = raw["names"]
    inlined = []
    i = 0
    while i < len(blocks):
        blk = blocks[i]
        i += 1
        t = blk["term"]
        if t["t"] == "call" and INLINE_DROPS and not blk["cleanup"] and strip_generics(t.get("callee") or "") == "std::mem::drop" and len(t["args"]) == 1 \
                and t["args"][0].get("k") == "mv" and not t["args"][0]["pl"].get("p") and t["to"] is not None and t["to"] >= 0:
            # `drop(value)` of a type that has been given a Drop impl the reference does not have: the same as the value going out of scope here
            la = t["args"][0]["pl"]["l"]
            a_ = F.adts.get(locals_[la].get("adt") or "") if la < len(locals_) else None
            dg_ = F.fns.get(a_["drop"]) if a_ and a_.get("drop") else None
            if dg_ is not None and dg_.path != f.path and strip_generics(dg_.path) not in inventory() and dg_.path not in inventory() and not is_anchor(dg_):
                t = {"t": "drop", "pl": {"l": la}, "ty": locals_[la]["t"], "adt": locals_[la].get("adt") or "", "to": t["to"], "unwind": t.get("unwind"), "ln": t.get("ln"), "from_mem_drop": True}
                blk["term"] = t
        if t["t"] == "drop" and INLINE_DROPS and not blk["cleanup"] and not t.get("glue_only") and depth < MAX_DEPTH:
            # dropping a value of a NEW type (its Drop impl is not in the inventory): run the user Drop body here, then the field glue.
            # This is what makes an RAII guard introduced by a refactor visible to rules that look at one body.
            a = F.adts.get(t.get("adt") or "")
            dg = F.fns.get(a["drop"]) if a and a.get("drop") else None
            if dg is not None and dg.path != f.path and strip_generics(dg.path) not in inventory() and dg.path not in inventory() and not is_anchor(dg):
                graw = inline_function(F, dg, cm, done, depth + 1)
                lo = len(locals_)
                for l in graw["locals"]:
                    locals_.append({"i": l["i"] + lo, "t": l["t"], "adt": l["adt"]})
                short = dg.path.split("::")[-1]
                for k, v in graw["names"].items():
                    names[str(int(k) + lo)] = "%s.%s" % (short, v)
                # residual block: the original drop terminator (field glue only)
                rb = len(blocks)
                t2 = dict(t)
                t2["glue_only"] = True
                blocks.append({"b": rb, "cleanup": False, "st": [], "term": t2, "src": blk.get("src")})
                bo = len(blocks)
                src = {"fn": dg.path, "file": dg.file}
                unit = len(locals_)
                locals_.append({"i": unit, "t": "()", "adt": ""})
                for gb in graw["blocks"]:
                    blocks.append(_remap_block(gb, lo, bo, {"l": unit}, rb, src))
                blk["st"] = blk["st"] + [{"s": "assign", "lhs": {"l": lo + 1}, "rv": {"r": "ref", "m": "Mut { kind: Default }", "pl": copy.deepcopy(t["pl"])},
                                          "ln": t.get("ln"), "x": False, "inl_arg": True}]
                blk["term"] = {"t": "goto", "to": bo, "inlined_call": dg.path, "inlined_drop": True, "ln": t.get("ln")}
                inlined.append(dg.path)
            continue
        if t["t"] != "call" or blk["cleanup"]:
            continue
        if strip_generics(t.get("callee") or "") == "std::default::Default::default" and (t.get("generics") or [""])[0] in _INT_TYPES and t.get("to", -1) >= 0:
            # `T::default()` of a generic helper instantiated at an integer type is the constant 0
            blk["st"] = blk["st"] + [{"s": "assign", "lhs": t["dest"], "rv": {"r": "use", "a": [{"k": "c", "t": t["generics"][0], "v": 0, "s": "const 0"}]}, "ln": t.get("ln"), "x": False}]
            blk["term"] = {"t": "goto", "to": t["to"], "ln": t.get("ln"), "folded": "Default::default"}
            continue
        if strip_generics(t.get("callee") or "") in ("std::cmp::PartialEq::eq", "std::cmp::PartialEq::ne") and _lower_enum_eq(F, Fn(raw, F), raw, blk, t):
            inlined.append("<lowered enum ==>")
            continue
        if strip_generics(t.get("callee") or "") == "std::iter::Iterator::next" and not t.get("lowered") and _lower_map_next(F, Fn(raw, F), raw, blk, t):
            inlined.append("<lowered map().next()>")
            i -= 1          # visit the rewritten block again: its successor blocks hold the closure call
            continue
        if t.get("callee") and "for_each" in t["callee"] and _lower_for_each(F, Fn(raw, F), raw, blk, t):
            inlined.append("<lowered for_each>")
            continue
        if (t.get("callee") or "").endswith("bool>::then_some") and len(t["args"]) == 2 and t["to"] is not None and t["to"] >= 0 and not t["dest"].get("p"):
            # `cond.then_some(v)`: Some(v) where cond holds, None where it does not
            ln = t.get("ln")
            some_b, none_b = len(blocks), len(blocks) + 1
            blocks.append({"b": some_b, "cleanup": False, "src": blk.get("src"), "st": [{"s": "assign", "lhs": copy.deepcopy(t["dest"]), "rv": {"r": "agg", "kind": {"adt": "std::option::Option", "variant": "Some", "vi": 1}, "a": [copy.deepcopy(t["args"][1])]}, "ln": ln, "x": False}],
                           "term": {"t": "goto", "to": t["to"], "ln": ln}})
            blocks.append({"b": none_b, "cleanup": False, "src": blk.get("src"), "st": [{"s": "assign", "lhs": copy.deepcopy(t["dest"]), "rv": {"r": "agg", "kind": {"adt": "std::option::Option", "variant": "None", "vi": 0}, "a": []}, "ln": ln, "x": False}],
                           "term": {"t": "goto", "to": t["to"], "ln": ln}})
            blk["term"] = {"t": "switch", "on": copy.deepcopy(t["args"][0]), "arms": [[0, none_b]], "otherwise": some_b, "ln": ln, "lowered": "then_some"}
            inlined.append("<lowered then_some>")
            continue
        if strip_generics(t.get("callee") or "") in _COMBINATORS and _lower_combinator(F, Fn(raw, F), raw, blk, t):
            inlined.append("<lowered %s>" % strip_generics(t["callee"]).split("::")[-1])
            continue
        g = _callee_fn(F, t)
        mode = "call"
        wop = None
        bind = None
        if g is not None and t.get("resolved_generics") and t.get("resolved") == g.path:
            gp_ = g.raw.get("gparams") or []
            if len(gp_) == len(t["resolved_generics"]):
                bind = dict(zip(gp_, t["resolved_generics"]))
        td = _trait_dispatch(F, t) if (g is None or (t.get("callee") == g.path and not t.get("resolved"))) else None
        if td is None and g is not None and not t.get("resolved") and t.get("callee") == g.path and (g.parent or "") in (getattr(F, "traits", None) or []):
            g = None                      # a provided method called on a type not known here: an impl may override it
        if td:
            g, bind = td
            # name the implementation at the call, so that who-calls-whom questions see it even when the body stays out of line
            t["resolved"] = g.path
            t["resolved_local"] = True
            t["dispatched"] = True
        if g is None:
            w = _with_target(F, Fn(raw, F), t) if strip_generics(callee_name(t)) == WITH else None
            if w:
                g, mode, wop = w
                mode = "with-" + mode
        if g is None and strip_generics(callee_name(t)) == WITH and len(t["args"]) >= 2 and t["args"][1]["k"] == "c" and "fn" in t["args"][1]:
            # `KEY.with(RefCell::take)` and friends: a foreign fn item applied to the thread-local cell -- rewrite to the direct call
            a = t["args"][1]
            key_ty = t["args"][0].get("t", "") if t["args"][0]["k"] == "c" else ""
            cell_ty = _tls_type(t, key_ty)
            inner = cell_ty[len("std::cell::RefCell<"):-1] if cell_ty.startswith("std::cell::RefCell<") and cell_ty.endswith(">") else cell_ty
            blk["term"] = {"t": "call", "callee": a["fn"], "resolved": a["fn"], "foreign": False, "local": False, "krate": a["fn"].split("::")[0],
                           "resolved_local": False, "generics": [inner], "args": [{"k": "c", "t": "&" + cell_ty, "static": "tls:" + cell_ty, "s": "tls"}],
                           "dest": t["dest"], "to": t["to"], "unwind": t.get("unwind"), "ln": t.get("ln"), "x": t.get("x", False), "via_with": True}
            continue
        if g is None:
            # a closure parameter invoked through FnOnce/FnMut/Fn: resolvable once the helper that received it is inlined
            cc = _closure_call_target(F, Fn(raw, F), t)
            if cc:
                g, mode, wop = cc[0], "closure-call", cc[1]
        # (a closure handed to a helper and invoked there is inlined whatever its number: `f::{closure#0}` of the reference may be another closure today)
        if g is None or g.path == f.path or not (inlinable(F, g) or (mode == "closure-call" and g.kind == "Closure") or (depth == 0 and anchor_comes_home(F, f, g))):
            continue
        if depth >= MAX_DEPTH:
            continue
        graw = inline_function(F, g, cm, done, depth + 1)
        if mode == "call":
            graw = _instantiate(graw, t, bind)
        lo = len(locals_)
        bo = len(blocks)
        for l in graw["locals"]:
            locals_.append({"i": l["i"] + lo, "t": l["t"], "adt": l["adt"]})
        short = g.path.split("::")[-1]
        for k, v in graw["names"].items():
            names[str(int(k) + lo)] = "%s.%s" % (short, v)
        src = {"fn": g.path, "file": g.file}
        global _RET_ALIAS
        # the helper writes its result straight into the caller's destination (for a tail call: into the caller's own return place), so
        # "what does this function return on that path" reads the same with the helper spliced in
        _RET_ALIAS = t["dest"]["l"] if not t["dest"].get("p") else None
        try:
            for gb in graw["blocks"]:
                blocks.append(_remap_block(gb, lo, bo, t["dest"], t["to"], src))
        finally:
            _RET_ALIAS = None
        # bind parameters
        binds = []
        if mode == "call":
            actuals = list(t["args"])
        elif mode == "closure-call":
            # call_once(closure, (a, b, ..)): closure body params are (env, a, b, ..)
            actuals = [t["args"][0]]
            tup = t["args"][1] if len(t["args"]) > 1 else None
            tup_agg = None
            if tup is not None and tup["k"] in ("cp", "mv") and not tup["pl"].get("p"):
                # the argument tuple is usually built right before the call: bind the parameters to its operands, not to projections of it
                tds = [st_ for bb_ in blocks for st_ in bb_["st"] if st_.get("s") == "assign" and st_["lhs"]["l"] == tup["pl"]["l"] and not st_["lhs"].get("p")]
                if len(tds) == 1 and tds[0]["rv"]["r"] == "agg" and "tuple" in tds[0]["rv"]["kind"]:
                    tup_agg = tds[0]["rv"]["a"]
            for j in range(graw["argc"] - 1):
                if tup_agg is not None and j < len(tup_agg):
                    actuals.append(copy.deepcopy(tup_agg[j]))
                elif tup is not None and tup["k"] in ("cp", "mv"):
                    pl = {"l": tup["pl"]["l"], "p": list(tup["pl"].get("p", [])) + [{"f": j, "n": str(j), "t": ""}]}
                    actuals.append({"k": "mv", "pl": pl})
        elif mode == "with-closure":
            key_ty = t["args"][0].get("t", "") if t["args"][0]["k"] == "c" else ""
            tls = {"k": "c", "t": key_ty, "static": "tls:" + _tls_type(t, key_ty), "s": "tls"}
            actuals = [wop, tls]
        else:
            key_ty = t["args"][0].get("t", "") if t["args"][0]["k"] == "c" else ""
            tls = {"k": "c", "t": key_ty, "static": "tls:" + _tls_type(t, key_ty), "s": "tls"}
            actuals = [tls]
        for j, a in enumerate(actuals):
            if j + 1 > graw["argc"]:
                break
            binds.append({"s": "assign", "lhs": {"l": lo + j + 1}, "rv": {"r": "use", "a": [a]}, "ln": t.get("ln"), "x": False, "inl_arg": True})
        blk["st"] = blk["st"] + binds
        blk["term"] = {"t": "goto", "to": bo, "inlined_call": g.path, "ln": t.get("ln")}
        inlined.append(g.path)
        _fold_constant_switches(blocks, bo, binds)
    raw["inlined"] = sorted(set(raw.get("inlined", []) + inlined))
    return raw


def _fold_constant_switches(blocks, bo, binds):
    """`set_mode(fd, true)`: a helper that was handed a literal decides on it (`if nonblocking { O_NONBLOCK } else { 0 }`); in the spliced copy the
    parameter is that literal, so the decision is made here -- a switch on a parameter (or a plain copy of it) bound to a constant becomes a goto."""
    consts = {}
    for st in binds:
        a = st["rv"]["a"][0]
        if a.get("k") == "c" and isinstance(a.get("v"), int) and a.get("t") in ("bool", "u8", "i32", "u32", "usize", "isize", "u64", "i64"):
            consts[st["lhs"]["l"]] = a["v"]
    if not consts:
        return
    body = blocks[bo:]
    ndefs = {}
    for bl in body:
        for st in bl["st"]:
            if st.get("s") == "assign":
                ndefs[st["lhs"]["l"]] = ndefs.get(st["lhs"]["l"], 0) + 1
        tt = bl["term"]
        if tt["t"] == "call" and "dest" in tt:
            ndefs[tt["dest"]["l"]] = ndefs.get(tt["dest"]["l"], 0) + 1
    consts = {l: v for l, v in consts.items() if not ndefs.get(l)}
    for _ in range(3):
        for bl in body:
            for st in bl["st"]:
                if st.get("s") == "assign" and not st["lhs"].get("p") and st["rv"]["r"] == "use" and ndefs.get(st["lhs"]["l"]) == 1:
                    a = st["rv"]["a"][0]
                    if a.get("k") in ("cp", "mv") and not a["pl"].get("p") and a["pl"]["l"] in consts:
                        consts[st["lhs"]["l"]] = consts[a["pl"]["l"]]
    for bl in body:
        tt = bl["term"]
        if tt["t"] == "switch" and tt["on"].get("k") in ("cp", "mv") and not tt["on"]["pl"].get("p") and tt["on"]["pl"]["l"] in consts:
            v = consts[tt["on"]["pl"]["l"]]
            tgt = next((tb for av, tb in tt["arms"] if av == v), tt["otherwise"])
            bl["term"] = {"t": "goto", "to": tgt, "ln": tt.get("ln"), "folded_switch": True}


def _each_place(raw, fn):
    """apply fn (place dict -> place dict) to every place of the body, in place"""
    def op(o):
        if o.get("k") in ("cp", "mv"):
            o = dict(o)
            o["pl"] = fn(o["pl"])
        return o
    for blk in raw["blocks"]:
        for st in blk["st"]:
            if "lhs" in st:
                st["lhs"] = fn(st["lhs"])
            rv = st.get("rv")
            if rv:
                if "a" in rv:
                    rv["a"] = [op(a) for a in rv["a"]]
                if "pl" in rv:
                    rv["pl"] = fn(rv["pl"])
        t = blk["term"]
        k = t["t"]
        if k == "switch":
            t["on"] = op(t["on"])
        elif k == "call":
            t["args"] = [op(a) for a in t["args"]]
            t["dest"] = fn(t["dest"])
            if "indirect" in t:
                t["indirect"] = op(t["indirect"])
        elif k == "drop":
            t["pl"] = fn(t["pl"])
        elif k == "assert":
            t["cond"] = op(t["cond"])


_INV_ADTS = None


def _new_adt(path):
    global _INV_ADTS
    if _INV_ADTS is None:
        p = os.path.join(os.path.dirname(os.path.dirname(os.path.abspath(__file__))), "tables", "known_fns.json")
        try:
            _INV_ADTS = set(json.load(open(p)).get("adts", []))
        except OSError:
            _INV_ADTS = set()
    return bool(_INV_ADTS) and path not in _INV_ADTS


def _struct_arg_fields(F, f, operand):
    """the operands a struct literal was built from, for a call argument that is that struct or a reference to it: follows copies and
    re-borrows back to the one aggregate assignment.  None when the argument is anything else"""
    defs = f.defs()
    pl = operand.get("pl") if operand.get("k") in ("cp", "mv") else None
    for _ in range(32):
        if pl is None or [e for e in pl.get("p", []) if e != "*"]:
            return None
        ds = [d for d in defs.get(pl["l"], []) if d[1] is not None and not f.is_cleanup(d[0])]
        if len(ds) != 1:
            return None
        rv = ds[0][2]["rv"]
        if rv["r"] == "agg":
            return list(rv["a"])
        if rv["r"] == "use" and rv["a"][0].get("k") in ("cp", "mv"):
            pl = rv["a"][0]["pl"]
        elif rv["r"] == "ref":
            pl = rv["pl"]
        else:
            return None
    return None


def scalarise_struct_params(F, allfns):
    """A refactor may bundle the arguments of a system-call wrapper into a private struct (`FirstFragment { fds, data, len }.transmit(fd)`).  The wrapper stays a function of
    its own for the rules (it is where the system call is), so its signature is put back: a parameter that is (a reference to) a struct the reference tree does not
    have, read only field by field in the body and built by a struct literal at every call, is replaced by one parameter per field.  All or nothing per function."""
    changed = []
    for g in list(allfns.values()):
        if not is_anchor(g) or strip_generics(g.path) in inventory() or g.path in inventory():
            continue
        for i in range(g.argc, 0, -1):
            ty = g.local_ty(i)
            byref = ty.startswith("&")
            adt = g.local_adt(i) if hasattr(g, "local_adt") else ""
            a = F.adts.get(adt)
            if not a or not _new_adt(adt) or len(a["variants"]) != 1:
                continue
            fields = a["variants"][0]["fields"]
            k = len(fields)
            if k == 0:
                continue
            # the body touches the parameter only as (*p).field / p.field
            ok = True
            ftypes = {}

            def probe(pl):
                nonlocal ok
                if pl["l"] == i:
                    pr = pl.get("p", [])
                    want = 2 if byref else 1
                    if len(pr) < want or (byref and pr[0] != "*") or not isinstance(pr[want - 1], dict) or "f" not in pr[want - 1]:
                        ok = False
                    else:
                        ftypes[pr[want - 1]["f"]] = pr[want - 1].get("t", "")
                return pl
            graw = copy.deepcopy(g.raw)
            _each_place(graw, probe)
            if not ok:
                continue
            # every call passes a struct literal
            sites = []
            for f in allfns.values():
                for blk in f.raw["blocks"]:
                    t = blk["term"]
                    if t["t"] == "call" and not blk["cleanup"] and (t.get("resolved") == g.path or (t.get("callee") == g.path and not t.get("resolved"))):
                        ops = _struct_arg_fields(F, f, t["args"][i - 1]) if len(t["args"]) >= i else None
                        if ops is None or len(ops) != k:
                            ok = False
                        sites.append((t, ops))
            if not ok or not sites:
                continue
            shift = k - 1

            def rewrite(pl):
                if pl["l"] == i:
                    pr = pl.get("p", [])
                    want = 2 if byref else 1
                    out = {"l": i + pr[want - 1]["f"]}
                    rest = pr[want:]
                    if rest:
                        out["p"] = rest
                    return out
                pl = dict(pl)
                if pl["l"] > i:
                    pl["l"] += shift
                if pl.get("p"):
                    pl["p"] = [(dict(e, i=e["i"] + shift) if isinstance(e, dict) and "i" in e and e["i"] > i else e) for e in pl["p"]]
                return pl
            _each_place(graw, rewrite)
            new_locals = []
            for l in graw["locals"]:
                if l["i"] < i:
                    new_locals.append(l)
                elif l["i"] == i:
                    for fi, fd_ in enumerate(fields):
                        fty = ftypes.get(fi) or fd_["t"]
                        new_locals.append({"i": i + fi, "t": re.sub(r"'[a-z_]+ ", "", fty), "adt": ""})
                else:
                    new_locals.append({"i": l["i"] + shift, "t": l["t"], "adt": l["adt"]})
            graw["locals"] = new_locals
            names = {}
            for kk, v in graw["names"].items():
                kk = int(kk)
                if kk < i:
                    names[str(kk)] = v
                elif kk > i:
                    names[str(kk + shift)] = v
            for fi, fd_ in enumerate(fields):
                names[str(i + fi)] = fd_["n"]
            graw["names"] = names
            graw["argc"] = g.argc + shift
            graw["scalarised"] = sorted(set(graw.get("scalarised", []) + [adt]))
            for t, ops in sites:
                t["args"] = t["args"][:i - 1] + [dict(o, k="cp") if o.get("k") == "mv" else o for o in ops] + t["args"][i:]
            g2 = Fn(graw, g.facts if hasattr(g, "facts") else None)
            allfns[g.path] = g2
            g = g2
            changed.append("%s(%s)" % (g.path, adt))
    # the callers' Fn objects cache derived data: rebuild those whose calls were rewritten
    return changed


def scalarise_tuple_locals(raw):
    """A tuple built only to be taken apart again (`let (end, result) = match pos { 0 => (a, b), _ => (c, d) }`): when every definition of a tuple-typed temporary
    is a tuple literal and every other mention reads one field, the temporary is replaced by one local per field, each assigned where the literal was built
    (scalar replacement of aggregates).  Returns the number of temporaries replaced."""
    n = 0
    argc = raw.get("argc", 0)
    for loc in list(raw["locals"]):
        l = loc["i"]
        ty = loc["t"]
        if l <= argc or not ty.startswith("(") or ty == "()":
            continue
        defs = []
        for blk in raw["blocks"]:
            for st in blk["st"]:
                if st.get("s") == "assign" and st["lhs"]["l"] == l and not st["lhs"].get("p"):
                    defs.append(st)
        if not defs or any(st["rv"]["r"] != "agg" or "tuple" not in (st["rv"].get("kind") or {}) for st in defs):
            continue
        k = len(defs[0]["rv"]["a"])
        if k == 0 or any(len(st["rv"]["a"]) != k for st in defs):
            continue
        whole = [0]
        ok = [True]
        ftypes = {}

        def probe(pl):
            if pl["l"] == l:
                pr = pl.get("p") or []
                if not pr:
                    whole[0] += 1
                elif not isinstance(pr[0], dict) or "f" not in pr[0] or pr[0]["f"] >= k:
                    ok[0] = False
                elif pr[0].get("t"):
                    ftypes[pr[0]["f"]] = pr[0]["t"]
            for e in pl.get("p") or []:
                if isinstance(e, dict) and e.get("i") == l:
                    ok[0] = False
            return pl
        _each_place(raw, probe)
        if not ok[0] or whole[0] != len(defs):
            continue
        for i in range(k):
            if i not in ftypes:
                for st in defs:
                    a = st["rv"]["a"][i]
                    if a.get("k") == "c" and a.get("t"):
                        ftypes[i] = a["t"]
                    elif a.get("k") in ("cp", "mv") and not a["pl"].get("p") and a["pl"]["l"] < len(raw["locals"]):
                        ftypes[i] = raw["locals"][a["pl"]["l"]]["t"]
        base = len(raw["locals"])
        for i in range(k):
            raw["locals"].append({"i": base + i, "t": re.sub(r"'[a-z_]+ ", "", ftypes.get(i, "?")), "adt": ""})
        for blk in raw["blocks"]:
            out = []
            for st in blk["st"]:
                if any(st is d for d in defs):
                    for i, a in enumerate(st["rv"]["a"]):
                        out.append({"s": "assign", "lhs": {"l": base + i}, "rv": {"r": "use", "a": [a]}, "ln": st.get("ln"), "x": st.get("x", False)})
                else:
                    out.append(st)
            blk["st"] = out

        def rewrite(pl):
            if pl["l"] == l and pl.get("p"):
                out = {"l": base + pl["p"][0]["f"]}
                if pl["p"][1:]:
                    out["p"] = pl["p"][1:]
                return out
            return pl
        _each_place(raw, rewrite)
        n += 1
    return n


def _tls_type(t, key_ty):
    g = t.get("generics", [])
    if g:
        return g[0]
    return key_ty


def thread_decisions(raw):
    """A decision that was stored in a `bool` local and tested at a join (`let ok = a && b(); if !ok { return }`, `matches!` written ahead of its use, the
    result of a combinator closure): the test is moved into each predecessor, where the value is a constant or the result of one particular call -- so that the
    edges out of it carry the facts the rules read (jump threading; the join block stays for the predecessors that do not qualify).  Returns the number of edges threaded."""
    blocks = raw["blocks"]
    n = 0
    # edges through empty forwarding blocks are taken to their end first
    def _is_test(b):
        if not (0 <= b < len(blocks)) or blocks[b]["cleanup"]:
            return False
        tj = blocks[b]["term"]
        if tj["t"] != "switch" or tj["on"].get("k") not in ("cp", "mv") or tj["on"]["pl"].get("p"):
            return False
        r = tj["on"]["pl"]["l"]
        return r < len(raw["locals"]) and raw["locals"][r]["t"] == "bool"

    def _end(b0, seen=()):
        # (only towards the test of a stored decision: an empty block on the way to anything else may be all that tells one edge of a branch from another)
        b = b0
        while 0 <= b < len(blocks) and b not in seen and not blocks[b]["st"] and blocks[b]["term"]["t"] == "goto" and not blocks[b]["cleanup"]:
            seen = seen + (b,)
            b = blocks[b]["term"]["to"]
        return b if _is_test(b) else b0
    for blk in blocks:
        t = blk["term"]
        if blk["cleanup"]:
            continue
        if t["t"] == "goto":
            t["to"] = _end(t["to"])
        elif t["t"] == "switch":
            t["arms"] = [[v, _end(tb)] for v, tb in t["arms"]]
            t["otherwise"] = _end(t["otherwise"])
        elif isinstance(t.get("to"), int) and t["to"] >= 0:
            t["to"] = _end(t["to"])
    preds = {}
    for bi, blk in enumerate(blocks):
        t = blk["term"]
        if t["t"] == "goto":
            preds.setdefault(t["to"], []).append(bi)
        elif t["t"] == "switch":
            for _v, tb in t["arms"]:
                preds.setdefault(tb, []).append(bi)
            preds.setdefault(t["otherwise"], []).append(bi)
        elif t.get("to") is not None and isinstance(t.get("to"), int) and t["to"] >= 0:
            preds.setdefault(t["to"], []).append(bi)
    for ji, J in enumerate(blocks):
        tj = J["term"]
        if J["cleanup"] or tj["t"] != "switch" or tj["on"].get("k") not in ("cp", "mv") or tj["on"]["pl"].get("p"):
            continue
        r = tj["on"]["pl"]["l"]
        if r >= len(raw["locals"]) or raw["locals"][r]["t"] != "bool":
            continue
        # the join may first copy the flag (`_t = _r; switch(_t)`) or negate it
        neg = False
        ok_join = True
        cur = r
        for st in reversed(J["st"]):
            if st.get("s") != "assign" or st["lhs"].get("p"):
                ok_join = False
                break
            rv = st["rv"]
            if st["lhs"]["l"] == cur:
                src = rv["a"][0] if rv["r"] in ("use",) or (rv["r"] == "un" and rv.get("op") == "Not") else None
                if src is None or src.get("k") not in ("cp", "mv") or src["pl"].get("p"):
                    ok_join = False
                    break
                if rv["r"] == "un":
                    neg = not neg
                cur = src["pl"]["l"]
            else:
                ok_join = False
                break
        if not ok_join:
            continue
        flag = cur
        if flag >= len(raw["locals"]) or raw["locals"][flag]["t"] != "bool":
            continue
        # walk the statements in reverse: `cur` above is the local read first in J, i.e. the one predecessors assign
        ps = [p for p in preds.get(ji, []) if not blocks[p]["cleanup"]]
        if len(ps) < 2:
            continue
        arms = {int(v): tb for v, tb in tj["arms"]}
        def target(val):
            val = (not val) if neg else bool(val)
            return arms.get(1 if val else 0, tj["otherwise"])
        for p in ps:
            P = blocks[p]
            if P["term"]["t"] == "call" and P["term"].get("to") == ji and not P["term"]["dest"].get("p") and P["term"]["dest"]["l"] == flag:
                # the flag is the result of a call made in P (`ok = helper(..)`): the call writes a value of its own, which is tested; the flag gets a copy
                nl = len(raw["locals"])
                raw["locals"].append({"i": nl, "t": "bool", "adt": ""})
                nb = len(blocks)
                import copy as _copy
                blocks.append({"b": nb, "cleanup": False, "src": P.get("src"), "st": [{"s": "assign", "lhs": {"l": flag}, "rv": {"r": "use", "a": [{"k": "cp", "pl": {"l": nl}}]}, "ln": P["term"].get("ln"), "x": False}]
                               + _copy.deepcopy(J["st"]),
                               "term": {"t": "switch", "on": {"k": "cp", "pl": {"l": nl}}, "arms": [[0, target(0)]], "otherwise": target(1), "ln": tj.get("ln"), "threaded": True}})
                P["term"] = dict(P["term"], dest={"l": nl}, to=nb)
                n += 1
                continue
            if P["term"]["t"] != "goto":
                continue
            # the last assignment to the flag in P
            last = None
            for st in P["st"]:
                if st.get("s") == "assign" and st["lhs"]["l"] == flag and not st["lhs"].get("p"):
                    last = st
            if last is None:
                continue
            rv = last["rv"]
            if rv["r"] == "use" and rv["a"][0].get("k") == "c" and isinstance(rv["a"][0].get("v"), int):
                P["term"] = {"t": "goto", "to": target(rv["a"][0]["v"]), "ln": P["term"].get("ln"), "threaded": True}
                n += 1
            elif not neg and not J["st"] and last is P["st"][-1] and (
                    (rv["r"] == "use" and rv["a"][0].get("k") in ("cp", "mv") and not rv["a"][0]["pl"].get("p")) or rv["r"] in ("bin", "un")):
                # the flag is a copy of another value computed in P (a call result), or a comparison made in P: test that value here, under a name of its own
                # (the flag has several definitions; the copy has one, so the edges out of P can be read)
                import copy as _copy
                nl = len(raw["locals"])
                raw["locals"].append({"i": nl, "t": "bool", "adt": ""})
                P["st"] = P["st"] + [{"s": "assign", "lhs": {"l": nl}, "rv": _copy.deepcopy(rv) if rv["r"] != "use" else {"r": "use", "a": [{"k": "cp", "pl": {"l": rv["a"][0]["pl"]["l"]}}]}, "ln": last.get("ln"), "x": False}]
                P["term"] = {"t": "switch", "on": {"k": "mv", "pl": {"l": nl}}, "arms": [list(a) for a in tj["arms"]], "otherwise": tj["otherwise"], "ln": tj.get("ln"), "threaded": True}
                n += 1
    return n


class InlinedFacts:
    """A view of a Facts object in which single-caller private helpers are inlined into their callers."""

    def __init__(self, F, inline_drops=True):
        global INLINE_DROPS
        INLINE_DROPS = inline_drops
        self.inline_drops = inline_drops
        self._nodrop = None
        self.raw_facts = F
        self.config = F.config
        self.meta = F.meta
        self.adts = F.adts
        self.impls = F.impls
        self.traits = getattr(F, "traits", [])
        self.consts = F.consts
        cm = callers_map(F)
        done = {}
        allfns = {}
        for p, f in F.fns.items():
            raw = inline_function(F, f, cm, done)
            allfns[p] = Fn(raw, self)
        self.inlined_into = {p: f.raw.get("inlined", []) for p, f in allfns.items() if f.raw.get("inlined")}
        # helpers that were inlined into their only caller are represented there; they are not analysed on their own
        self.consumed = set()
        nt = new_traits(F)
        for lst in self.inlined_into.values():
            for g in lst:
                gf = F.fns.get(g)
                if gf is not None and (gf.kind == "Closure" or "Public" not in (gf.vis or "") or gf.impl_trait == "std::ops::Drop" or gf.impl_trait in nt
                                       or (gf.parent or "") in nt):
                    self.consumed.add(g)
        self.scalarised = scalarise_struct_params(F, allfns)
        threaded = 0
        for f_ in allfns.values():
            threaded += scalarise_tuple_locals(f_.raw)
            threaded += thread_decisions(f_.raw)
        self.threaded = threaded
        if self.scalarised or threaded:
            allfns = {p: Fn(f.raw, self) for p, f in allfns.items()}
        self.fns = {p: f for p, f in allfns.items() if p not in self.consumed}
        self.all_fns = allfns

    def nodrop(self):
        """the same view without Drop bodies spliced in at drop terminators: the typestate rules (FD-PATH, ALLOC-PAIR, ...) work from
        Drop *summaries* (a value moved into an owning type is released there), which inlined drop glue would count a second time"""
        if not self.inline_drops:
            return self
        if self._nodrop is None:
            self._nodrop = InlinedFacts(self.raw_facts, inline_drops=False)
            global INLINE_DROPS
            INLINE_DROPS = True
        return self._nodrop

    # same API as Facts
    def fn(self, path):
        return self.fns.get(path)

    def fns_where(self, pred):
        return [f for f in self.fns.values() if pred(f)]

    def children(self, f):
        return [g for g in self.fns.values() if g.parent == f.path]

    def closure_tree(self, f):
        out = [f]
        for c in self.children(f):
            out.extend(self.closure_tree(c))
        return out

    def impls_of(self, adt_path):
        return [i for i in self.impls if i["self_adt"] == adt_path]

    def has_impl(self, adt_path, trait):
        return any(i["trait"] == trait for i in self.impls_of(adt_path))

    def drop_fn(self, adt_path):
        a = self.adts.get(adt_path)
        if a and a.get("drop"):
            return self.fns.get(a["drop"])
        return None
