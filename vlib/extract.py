"""E1 runner: build the rustc_private driver and extract MIR facts from /repo's
current working tree for one feature configuration.

Nothing here decides a property.  The runner's only obligations are
  * the facts always come from the tree as it is *now* (cache key = hash of the tree),
  * a configuration that does not compile is reported as such (never silently skipped),
  * the cargo freshness trap (wrapper skipped on a warm target dir) cannot produce
    stale or missing facts: the crate's fingerprints are removed first and the fact
    file's existence is asserted afterwards.
"""
import fcntl
import glob
import hashlib
import json
import re
import os
import shutil
import subprocess
import sys
import time

VERIF = os.path.dirname(os.path.dirname(os.path.abspath(__file__)))
REPO = os.environ.get("IPCV_REPO", "/repo")
CACHE = os.environ.get("IPCV_CACHE", os.path.join(VERIF, ".cache"))
DRIVER_DIR = os.path.join(VERIF, "driver")
DRIVER_BIN = os.path.join(DRIVER_DIR, "target", "release", "ipcv-facts")

CONFIGS = {
    "K1": [],
    "K2": ["memfd"],
    "K3": ["force-inprocess"],
    "K4": ["async"],
    "K5": ["async", "force-inprocess"],
    # the remaining combinations of the three Linux-relevant features; analysed by the thorough tier only
    "K6": ["memfd", "async"],
    "K7": ["memfd", "force-inprocess"],
    "K8": ["memfd", "async", "force-inprocess"],
}


class ExtractError(Exception):
    def __init__(self, config, msg, log=""):
        super().__init__(msg)
        self.config = config
        self.log = log


def _env():
    env = dict(os.environ)
    env["CARGO_NET_OFFLINE"] = "true"
    env.pop("RUSTC_WRAPPER", None)
    return env


def sysroot_lib():
    out = subprocess.run(["rustc", "+nightly", "--print", "sysroot"], capture_output=True, text=True, env=_env())
    if out.returncode != 0:
        raise ExtractError("-", "nightly toolchain not available: " + out.stderr)
    return os.path.join(out.stdout.strip(), "lib")


def driver_src_hash():
    h = hashlib.sha256()
    for rel in ("Cargo.toml", "rust-toolchain.toml", "src/main.rs"):
        with open(os.path.join(DRIVER_DIR, rel), "rb") as f:
            h.update(f.read())
    return h.hexdigest()[:16]


def build_driver():
    """Build (or reuse) the fact extractor.  Zero cargo dependencies; ~15 s cold."""
    os.makedirs(CACHE, exist_ok=True)
    stamp = os.path.join(CACHE, "driver.stamp")
    want = driver_src_hash()
    with open(os.path.join(CACHE, "driver.lock"), "w") as lk:
        fcntl.flock(lk, fcntl.LOCK_EX)
        if os.path.exists(DRIVER_BIN) and os.path.exists(stamp) and open(stamp).read().strip() == want:
            return DRIVER_BIN
        r = subprocess.run(
            ["cargo", "+nightly", "build", "--offline", "--release"],
            cwd=DRIVER_DIR, env=_env(), capture_output=True, text=True)
        if r.returncode != 0 or not os.path.exists(DRIVER_BIN):
            raise ExtractError("-", "driver build failed", r.stdout + r.stderr)
        with open(stamp, "w") as f:
            f.write(want)
    return DRIVER_BIN


def tree_hash(repo=None):
    """SHA-256 over every file of the repository that can influence the build."""
    repo = repo or REPO
    h = hashlib.sha256()
    files = []
    for root, dirs, names in os.walk(repo):
        dirs[:] = sorted(d for d in dirs if d not in ("target", ".git"))
        for n in sorted(names):
            files.append(os.path.join(root, n))
    for p in files:
        try:
            with open(p, "rb") as f:
                data = f.read()
        except OSError:
            continue
        h.update(os.path.relpath(p, repo).encode())
        h.update(b"\0")
        h.update(hashlib.sha256(data).digest())
    return h.hexdigest()[:24]


def extract(config, release=False, repo=None, quiet=True, _retry=0):
    """Return (facts_dict, meta).  Raises ExtractError if the configuration does not build."""
    repo = repo or REPO
    feats = CONFIGS[config]
    drv = build_driver()
    th = tree_hash(repo)
    prof = "rel" if release else "dev"
    tag = "%s-%s-%s-%s" % (config, prof, th, driver_src_hash())
    fdir = os.path.join(CACHE, "facts")
    os.makedirs(fdir, exist_ok=True)
    fpath = os.path.join(fdir, tag + ".json")
    epath = os.path.join(fdir, tag + ".err")
    meta = {"config": config, "features": feats, "profile": prof, "tree_hash": th, "cached": False}
    t0 = time.time()
    lockp = os.path.join(CACHE, "extract-%s-%s.lock" % (config, prof))
    with open(lockp, "w") as lk:
        fcntl.flock(lk, fcntl.LOCK_EX)
        if os.path.exists(fpath):
            meta["cached"] = True
        elif os.path.exists(epath):
            try:
                log_ = open(epath).read()
            except OSError:
                log_ = ""
            raise ExtractError(config, "configuration %s does not compile" % config, log_)
        else:
            target = os.path.join(CACHE, "target-%s" % config)
            # cargo freshness trap: force the workspace member through the wrapper again
            for fp in glob.glob(os.path.join(target, "*", ".fingerprint", "ipc-channel-*")):
                shutil.rmtree(fp, ignore_errors=True)
            tmp = fpath + ".tmp.%d" % os.getpid()
            env = _env()
            env["LD_LIBRARY_PATH"] = sysroot_lib() + ":" + env.get("LD_LIBRARY_PATH", "")
            env["RUSTFLAGS"] = "-Zmir-opt-level=0 -Awarnings"
            env["RUSTC_WORKSPACE_WRAPPER"] = drv
            env["CARGO_TARGET_DIR"] = target
            env["IPCV_OUT"] = tmp
            cmd = ["cargo", "+nightly", "check", "--offline", "--lib",
                   "--manifest-path", os.path.join(repo, "Cargo.toml")]
            if release:
                cmd.append("--release")
            if feats:
                cmd += ["--features", ",".join(feats)]
            r = subprocess.run(cmd, env=env, capture_output=True, text=True, cwd=CACHE)
            if r.returncode != 0:
                with open(epath, "w") as f:
                    f.write(r.stdout + r.stderr)
                raise ExtractError(config, "configuration %s does not compile" % config, r.stdout + r.stderr)
            if not os.path.exists(tmp):
                raise ExtractError(config, "fact file missing after cargo check (wrapper skipped?)", r.stdout + r.stderr)
            os.rename(tmp, fpath)
            _prune(fdir, keep=120)
    try:
        with open(fpath) as f:
            facts = json.load(f)
    except FileNotFoundError:
        # another process pruned the cache between our existence check and the read: extract again
        if _retry < 3:
            return extract(config, release=release, repo=repo, quiet=quiet, _retry=_retry + 1)
        raise
    facts, folded = fold_new_modules(facts)
    if folded:
        meta["folded_modules"] = folded
    meta["wall_s"] = round(time.time() - t0, 2)
    meta["fns"] = len(facts["fns"])
    meta["adts"] = len(facts["adts"])
    return facts, meta


_REF_MODS = None


def reference_modules():
    global _REF_MODS
    if _REF_MODS is None:
        try:
            _REF_MODS = set(json.load(open(os.path.join(VERIF, "tables", "known_fns.json"))).get("modules", []))
        except OSError:
            _REF_MODS = set()
    return _REF_MODS


def fold_new_modules(facts):
    """Private regrouping is not behaviour: a module that the reference tree does not have (`mod detail { .. }`, a new
    file `recv.rs`) is folded into its nearest ancestor the reference does have, in every path of the facts, so the rules
    find `platform::unix::recv` wherever the maintainers keep it.  A module is folded only when none of its items would
    collide with an item of the target module (otherwise it is left alone and the anchors report what is missing)."""
    ref = reference_modules()
    mods = facts.get("mods")
    if not ref or not mods:
        return facts, []
    new = sorted((m for m in mods if m not in ref), key=lambda m: -m.count("::"))
    if not new:
        return facts, []
    items = set(f["path"] for f in facts["fns"]) | set(a["path"] for a in facts["adts"]) | set(c["path"] for c in facts.get("consts", []))
    text = json.dumps(facts)
    folded = []
    for m in new:
        parts = m.split("::")
        tgt = ""
        for i in range(len(parts) - 1, 0, -1):
            if "::".join(parts[:i]) in ref:
                tgt = "::".join(parts[:i])
                break
        pre, tpre = m + "::", (tgt + "::" if tgt else "")
        moved = [p for p in items if p.startswith(pre)]
        if any((tpre + p[len(pre):]) in items for p in moved):
            continue
        text = re.sub(r"(?<![A-Za-z0-9_:])" + re.escape(pre), tpre.replace("\\", "\\\\"), text)
        items = set((tpre + p[len(pre):]) if p.startswith(pre) else p for p in items)
        folded.append("%s -> %s" % (m, tgt or "<crate root>"))
    if not folded:
        return facts, []
    return json.loads(text), folded


def _prune(fdir, keep):
    try:
        files = sorted(glob.glob(os.path.join(fdir, "*.json")) + glob.glob(os.path.join(fdir, "*.err")), key=os.path.getmtime)
    except OSError:
        return
    now = time.time()
    for p in files[:-keep]:
        try:
            if now - os.path.getmtime(p) < 900:
                continue            # recent: another run may be about to read it
        except OSError:
            continue
        try:
            os.remove(p)
        except OSError:
            pass


if __name__ == "__main__":
    cfgs = sys.argv[1:] or ["K1", "K2", "K3", "K4", "K5"]
    for c in cfgs:
        try:
            facts, meta = extract(c)
            print(c, meta)
        except ExtractError as e:
            print(c, "ERROR", e)
            print(e.log[-2000:])
