"""E1 runner: build the rustc_private driver and extract MIR facts from /repo's
current working tree for one feature configuration.

Nothing here decides a property.  The runner's only obligations are
  * the facts always come from the tree as it is *now* (cache key = hash of the tree),
  * a configuration that does not compile is reported as such (never silently skipped),
  * the cargo freshness trap (wrapper skipped on a warm target dir) cannot produce
    stale or missing facts: the crate's fingerprints are removed first and the fact
    file's existence is asserted afterwards.
"""
import fcntl
import glob
import hashlib
import json
import re
import os
import shutil
import subprocess
import sys
import time

VERIF = os.path.dirname(os.path.dirname(os.path.abspath(__file__)))
REPO = os.environ.get("IPCV_REPO", "/repo")
CACHE = os.environ.get("IPCV_CACHE", os.path.join(VERIF, ".cache"))
DRIVER_DIR = os.path.join(VERIF, "driver")
DRIVER_BIN = os.path.join(DRIVER_DIR, "target", "release", "ipcv-facts")

CONFIGS = {
    "K1": [],
    "K2": ["memfd"],
    "K3": ["force-inprocess"],
    "K4": ["async"],
    "K5": ["async", "force-inprocess"],
    # the remaining combinations of the three Linux-relevant features; analysed by the thorough tier only
    "K6": ["memfd", "async"],
    "K7": ["memfd", "force-inprocess"],
    "K8": ["memfd", "async", "force-inprocess"],
}


class ExtractError(Exception):
    def __init__(self, config, msg, log=""):
        super().__init__(msg)
        self.config = config
        self.log = log


def _env():
    env = dict(os.environ)
    env["CARGO_NET_OFFLINE"] = "true"
    env.pop("RUSTC_WRAPPER", None)
    return env


def sysroot_lib():
    out = subprocess.run(["rustc", "+nightly", "--print", "sysroot"], capture_output=True, text=True, env=_env())
    if out.returncode != 0:
        raise ExtractError("-", "nightly toolchain not available: " + out.stderr)
    return os.path.join(out.stdout.strip(), "lib")


def driver_src_hash():
    h = hashlib.sha256()
    for rel in ("Cargo.toml", "rust-toolchain.toml", "src/main.rs"):
        with open(os.path.join(DRIVER_DIR, rel), "rb") as f:
            h.update(f.read())
    return h.hexdigest()[:16]


def build_driver():
    """Build (or reuse) the fact extractor.  Zero cargo dependencies; ~15 s cold."""
    os.makedirs(CACHE, exist_ok=True)
    stamp = os.path.join(CACHE, "driver.stamp")
    want = driver_src_hash()
    with open(os.path.join(CACHE, "driver.lock"), "w") as lk:
        fcntl.flock(lk, fcntl.LOCK_EX)
        if os.path.exists(DRIVER_BIN) and os.path.exists(stamp) and open(stamp).read().strip() == want:
            return DRIVER_BIN
        r = subprocess.run(
            ["cargo", "+nightly", "build", "--offline", "--release"],
            cwd=DRIVER_DIR, env=_env(), capture_output=True, text=True)
        if r.returncode != 0 or not os.path.exists(DRIVER_BIN):
            raise ExtractError("-", "driver build failed", r.stdout + r.stderr)
        with open(stamp, "w") as f:
            f.write(want)
    return DRIVER_BIN


def tree_hash(repo=None):
    """SHA-256 over every file of the repository that can influence the build."""
    repo = repo or REPO
    h = hashlib.sha256()
    files = []
    for root, dirs, names in os.walk(repo):
        dirs[:] = sorted(d for d in dirs if d not in ("target", ".git"))
        for n in sorted(names):
            files.append(os.path.join(root, n))
    for p in files:
        try:
            with open(p, "rb") as f:
                data = f.read()
        except OSError:
            continue
        h.update(os.path.relpath(p, repo).encode())
        h.update(b"\0")
        h.update(hashlib.sha256(data).digest())
    return h.hexdigest()[:24]


def extract(config, release=False, repo=None, quiet=True, _retry=0):
    """Return (facts_dict, meta).  Raises ExtractError if the configuration does not build."""
    repo = repo or REPO
    feats = CONFIGS[config]
    drv = build_driver()
    th = tree_hash(repo)
    prof = "rel" if release else "dev"
    tag = "%s-%s-%s-%s" % (config, prof, th, driver_src_hash())
    fdir = os.path.join(CACHE, "facts")
    os.makedirs(fdir, exist_ok=True)
    fpath = os.path.join(fdir, tag + ".json")
    epath = os.path.join(fdir, tag + ".err")
    meta = {"config": config, "features": feats, "profile": prof, "tree_hash": th, "cached": False}
    t0 = time.time()
    # a few build directories per configuration, so that runs on several scratch trees at once (self-test, stacked test) do not queue behind one lock;
    # a single run always gets slot 0 (the one setup.sh warms)
    lk, slot = None, 0
    if not os.path.exists(fpath):
        for sl in range(int(os.environ.get("IPCV_SLOTS", "4"))):
            cand = open(os.path.join(CACHE, "extract-%s-%s%s.lock" % (config, prof, "" if sl == 0 else "-%d" % sl)), "w")
            try:
                fcntl.flock(cand, fcntl.LOCK_EX | fcntl.LOCK_NB)
                lk, slot = cand, sl
                break
            except OSError:
                cand.close()
    if lk is None:
        lk = open(os.path.join(CACHE, "extract-%s-%s.lock" % (config, prof)), "w")
        fcntl.flock(lk, fcntl.LOCK_EX)
        slot = 0
    with lk:
        if os.path.exists(fpath):
            meta["cached"] = True
        elif os.path.exists(epath):
            try:
                log_ = open(epath).read()
            except OSError:
                log_ = ""
            raise ExtractError(config, "configuration %s does not compile" % config, log_)
        else:
            target = os.path.join(CACHE, "target-%s%s" % (config, "" if slot == 0 else "-s%d" % slot))
            # cargo freshness trap: force the workspace member through the wrapper again
            for fp in glob.glob(os.path.join(target, "*", ".fingerprint", "ipc-channel-*")):
                shutil.rmtree(fp, ignore_errors=True)
            tmp = fpath + ".tmp.%d" % os.getpid()
            env = _env()
            env["LD_LIBRARY_PATH"] = sysroot_lib() + ":" + env.get("LD_LIBRARY_PATH", "")
            env["RUSTFLAGS"] = "-Zmir-opt-level=0 -Awarnings"
            env["RUSTC_WORKSPACE_WRAPPER"] = drv
            env["CARGO_TARGET_DIR"] = target
            env["IPCV_OUT"] = tmp
            cmd = ["cargo", "+nightly", "check", "--offline", "--lib",
                   "--manifest-path", os.path.join(repo, "Cargo.toml")]
            if release:
                cmd.append("--release")
            if feats:
                cmd += ["--features", ",".join(feats)]
            r = subprocess.run(cmd, env=env, capture_output=True, text=True, cwd=CACHE)
            if r.returncode != 0:
                with open(epath, "w") as f:
                    f.write(r.stdout + r.stderr)
                raise ExtractError(config, "configuration %s does not compile" % config, r.stdout + r.stderr)
            if not os.path.exists(tmp):
                raise ExtractError(config, "fact file missing after cargo check (wrapper skipped?)", r.stdout + r.stderr)
            os.rename(tmp, fpath)
            _prune(fdir, keep=120)
    try:
        with open(fpath) as f:
            facts = json.load(f)
    except FileNotFoundError:
        # another process pruned the cache between our existence check and the read: extract again
        if _retry < 3:
            return extract(config, release=release, repo=repo, quiet=quiet, _retry=_retry + 1)
        raise
    facts, folded = fold_new_modules(facts)
    if folded:
        meta["folded_modules"] = folded
    facts, renamed = fold_renames(facts, config)
    if renamed:
        meta["renamed_items"] = renamed
    facts, swapped = fold_entry_wrappers(facts, config)
    if swapped:
        meta["entry_wrappers"] = swapped
    facts, plain = fold_plain_structs(facts)
    if plain:
        meta["structs_as_tuples"] = plain
    meta["wall_s"] = round(time.time() - t0, 2)
    meta["fns"] = len(facts["fns"])
    meta["adts"] = len(facts["adts"])
    return facts, meta


_REF_MODS = None


def reference_modules():
    global _REF_MODS
    if _REF_MODS is None:
        try:
            _REF_MODS = set(json.load(open(os.path.join(VERIF, "tables", "known_fns.json"))).get("modules", []))
        except OSError:
            _REF_MODS = set()
    return _REF_MODS


def fold_new_modules(facts):
    """Private regrouping is not behaviour: a module that the reference tree does not have (`mod detail { .. }`, a new
    file `recv.rs`) is folded into its nearest ancestor the reference does have, in every path of the facts, so the rules
    find `platform::unix::recv` wherever the maintainers keep it.  A module is folded only when none of its items would
    collide with an item of the target module (otherwise it is left alone and the anchors report what is missing)."""
    ref = reference_modules()
    mods = facts.get("mods")
    if not ref or not mods:
        return facts, []
    new = sorted((m for m in mods if m not in ref), key=lambda m: -m.count("::"))
    if not new:
        return facts, []
    items = set(f["path"] for f in facts["fns"]) | set(a["path"] for a in facts["adts"]) | set(c["path"] for c in facts.get("consts", []))
    text = json.dumps(facts)
    folded = []
    for m in new:
        parts = m.split("::")
        tgt = ""
        for i in range(len(parts) - 1, 0, -1):
            if "::".join(parts[:i]) in ref:
                tgt = "::".join(parts[:i])
                break
        pre, tpre = m + "::", (tgt + "::" if tgt else "")
        moved = [p for p in items if p.startswith(pre)]
        if any((tpre + p[len(pre):]) in items for p in moved):
            continue
        text = re.sub(r"(?<![A-Za-z0-9_:])" + re.escape(pre), tpre.replace("\\", "\\\\"), text)
        items = set((tpre + p[len(pre):]) if p.startswith(pre) else p for p in items)
        folded.append("%s -> %s" % (m, tgt or "<crate root>"))
    if not folded:
        return facts, []
    return json.loads(text), folded


def fn_signature(f):
    """what identifies a function apart from its name: where it lives, what it takes and returns, what it calls"""
    calls = set()
    for blk in f["blocks"]:
        t = blk["term"]
        if t["t"] == "call" and not blk["cleanup"]:
            n = t.get("resolved") or t.get("callee")
            if n:
                calls.add(re.sub(r"::<[^:]*>", "", n))
    return {"kind": f["kind"], "parent": f.get("parent") or "", "impl_trait": f.get("impl_trait") or "",
            "sig": [l["t"] for l in f["locals"][:f["argc"] + 1]], "calls": sorted(calls)}


def adt_shape(a):
    return {"variants": [{"n": v["n"], "fields": [[fd["n"], fd["t"]] for fd in v["fields"]]} for v in a["variants"]]}


_STD_NAMES = {"Some", "None", "Ok", "Err", "Break", "Continue", "Less", "Equal", "Greater", "Ready", "Pending"}


def _path_sub(text, new, old):
    return re.sub(r"(?<![A-Za-z0-9_:])" + re.escape(new) + r"(?![A-Za-z0-9_])", old.replace("\\", "\\\\"), text)


def fold_renames(facts, config):
    """Renaming a private item is not behaviour.  An item of the reference tree that is gone, and a new item in the same place with the same shape
    (a type: same variants and field types; a function: same parent, parameter and return types -- ties broken by what it calls), are the same item
    under a new name: the reference name is put back in every path of the facts (fields and variants of a matched type likewise, when the new name
    is unique in the crate), so the rules find `platform::unix::recv` or `UnixCmsg.cmsg_buffer` under whatever the maintainers call them today.
    Matches must be one-to-one; anything ambiguous is left alone (and the anchors say what they miss)."""
    try:
        inv = json.load(open(os.path.join(VERIF, "tables", "known_fns.json"))).get("by_config", {}).get(config)
    except OSError:
        inv = None
    if not inv:
        return facts, []
    renamed = []
    for _round in range(4):
        changed = False
        text = None
        # ---- types
        cur_adts = {a["path"]: a for a in facts.get("adts", [])}
        missing = [p for p in inv["adts"] if p not in cur_adts]
        new = [p for p in cur_adts if p not in inv["adts"]]
        if missing and new:
            mask = lambda ty: re.sub("|".join(sorted((re.escape(x) for x in missing + new), key=len, reverse=True)), "?", ty)
            def shape_eq(rs, ca):
                cv = ca["variants"]
                if len(rs["variants"]) != len(cv):
                    return False
                return all(len(rv["fields"]) == len(v["fields"]) and all(mask(rf[1]) == mask(f["t"]) for rf, f in zip(rv["fields"], v["fields"])) for rv, v in zip(rs["variants"], cv))
            for n_ in new:
                cand = [m for m in missing if m.rsplit("::", 1)[0] == n_.rsplit("::", 1)[0] and shape_eq(inv["adts"][m], cur_adts[n_])]
                if len(cand) == 1 and [x for x in new if x.rsplit("::", 1)[0] == cand[0].rsplit("::", 1)[0] and shape_eq(inv["adts"][cand[0]], cur_adts[x])] == [n_]:
                    text = text or json.dumps(facts)
                    text = _path_sub(text, n_, cand[0])
                    renamed.append("type %s -> %s" % (n_, cand[0]))
                    changed = True
        if text is not None:
            facts = json.loads(text)
            text = None
        # ---- fields and variants of types that exist under the reference name (now)
        all_field_names, all_variant_names = {}, {}
        for a in facts.get("adts", []):
            for v in a["variants"]:
                all_variant_names[v["n"]] = all_variant_names.get(v["n"], 0) + 1
                for fd_ in v["fields"]:
                    all_field_names[fd_["n"]] = all_field_names.get(fd_["n"], 0) + 1
        subs = []
        for a in facts.get("adts", []):
            rs = inv["adts"].get(a["path"])
            if not rs or len(rs["variants"]) != len(a["variants"]):
                continue
            for vi, (rv, v) in enumerate(zip(rs["variants"], a["variants"])):
                if rv["n"] != v["n"] and all_variant_names.get(v["n"]) == 1 and v["n"] not in _STD_NAMES:
                    subs.append(("variant", a["path"], vi, v["n"], rv["n"]))
                if len(rv["fields"]) != len(v["fields"]):
                    continue
                for fi, (rf, f) in enumerate(zip(rv["fields"], v["fields"])):
                    if rf[0] != f["n"] and all_field_names.get(f["n"]) == 1 and not f["n"].isdigit():
                        subs.append(("field", a["path"], fi, f["n"], rf[0]))
        if subs:
            text = json.dumps(facts)
            for kind, ap, idx, newn, oldn in subs:
                if kind == "field":
                    text = text.replace('"f": %d, "n": "%s"' % (idx, newn), '"f": %d, "n": "%s"' % (idx, oldn))
                    text = text.replace('{"n": "%s", "t"' % newn, '{"n": "%s", "t"' % oldn)
                else:
                    text = text.replace('"n": "%s"' % newn, '"n": "%s"' % oldn).replace('"variant": "%s"' % newn, '"variant": "%s"' % oldn).replace('"pvariant": "%s"' % newn, '"pvariant": "%s"' % oldn)
                    text = text.replace("%s::%s" % (ap, newn), "%s::%s" % (ap, oldn))
                renamed.append("%s %s.%s -> %s" % (kind, ap, newn, oldn))
            facts = json.loads(text)
            text = None
            changed = True
        # ---- functions
        cur = {f["path"]: fn_signature(f) for f in facts["fns"] if f["kind"] != "Closure"}
        ref = {p_: s_ for p_, s_ in inv["fns"].items() if s_["kind"] != "Closure"}
        missing = [p_ for p_ in ref if p_ not in cur]
        new = [p_ for p_ in cur if p_ not in ref]
        if missing and new:
            def same(rs, cs):
                return rs["kind"] == cs["kind"] and rs["parent"] == cs["parent"] and rs["impl_trait"] == cs["impl_trait"] and rs["sig"] == cs["sig"]
            def jac(a, b):
                a, b = set(a), set(b)
                return len(a & b) / float(len(a | b) or 1)
            pairs = []
            for n_ in new:
                cand = sorted(((jac(ref[m]["calls"], cur[n_]["calls"]), m) for m in missing if same(ref[m], cur[n_])), reverse=True)
                if not cand:
                    continue
                if cand[0][0] < 0.3 and (ref[cand[0][1]]["calls"] or cur[n_]["calls"]):
                    continue          # same place and signature but it does something else: a different function, not a renamed one
                if len(cand) == 1 or cand[0][0] - cand[1][0] >= 0.2:
                    pairs.append((n_, cand[0][1], cand[0][0]))
            taken = {}
            for n_, m, sc in pairs:
                taken.setdefault(m, []).append((sc, n_))
            for m, lst in taken.items():
                lst.sort(reverse=True)
                if len(lst) > 1 and lst[0][0] - lst[1][0] < 0.2:
                    continue
                n_ = lst[0][1]
                text = text or json.dumps(facts)
                text = _path_sub(text, n_, m)
                renamed.append("fn %s -> %s" % (n_, m))
                changed = True
        if text is not None:
            facts = json.loads(text)
            text = None
        # ---- closures that moved with their code: the closure a reference function used to contain is gone, and a new helper function that this reference
        # function calls contains one of the same shape (`route_.. { let cb = forward_to(sender); .. }` with the forwarding closure now written in `forward_to`)
        curc = {f["path"]: f for f in facts["fns"] if f["kind"] == "Closure"}
        refc = {p_: s_ for p_, s_ in inv["fns"].items() if s_["kind"] == "Closure"}
        goneC = [p_ for p_ in refc if p_ not in curc]
        newC = [p_ for p_ in curc if p_ not in refc]
        if goneC and newC:
            csig = lambda sig: [re.sub(r"\{closure@[^}]*\}", "{closure}", x) for x in sig]
            plain = lambda n: re.sub(r"::<[^:]*>", "", n or "")
            byp = {f["path"]: f for f in facts["fns"]}
            def calls_of(f):
                return {plain(b["term"].get("resolved") or b["term"].get("callee")) for b in f["blocks"] if b["term"]["t"] == "call" and not b["cleanup"]}
            pairs = []
            for n_ in newC:
                par = curc[n_].get("parent") or ""
                if par in inv["fns"] or par not in byp:
                    continue          # only closures of functions the reference does not have
                ns = fn_signature(curc[n_])
                cand = []
                for m in goneC:
                    rp = refc[m]["parent"]
                    if rp in byp and plain(par) in {plain(c) for c in calls_of(byp[rp])} and csig(refc[m]["sig"]) == csig(ns["sig"]):
                        a, b = set(refc[m]["calls"]), set(ns["calls"])
                        if len(a & b) / float(len(a | b) or 1) >= 0.5:
                            cand.append(m)
                if len(cand) == 1:
                    pairs.append((n_, cand[0]))
            for n_, m in pairs:
                if sum(1 for x in pairs if x[1] == m) != 1:
                    continue
                text = text or json.dumps(facts)
                text = _path_sub(text, n_, m)
                renamed.append("closure %s -> %s" % (n_, m))
                changed = True
            if text is not None:
                facts = json.loads(text)
                for f in facts["fns"]:
                    if f["kind"] == "Closure" and f["path"] in refc and any(f["path"] == m for _n, m in pairs):
                        f["parent"] = refc[f["path"]]["parent"]
                text = None
        if not changed:
            break
    return facts, renamed


def fold_entry_wrappers(facts, config):
    """`fn recv(fd, mode)` has become `fn recv(fd, mode) { let mut scratch = ..; recv_with(fd, mode, &mut scratch) }`, with the former body in the new
    `recv_with`, so that another caller can hand in its own scratch value.  The reference function is then still the body that does the work, under a
    new name and with parameters added: the names are exchanged in the facts (the new function gets the reference name; the thin wrapper becomes
    `<name>__entry`, an ordinary new helper that is looked through at its call sites).  Only when the wrapper does nothing but prepare arguments:
    one call to one new function that returns the wrapper's own return type, takes the wrapper's parameter types in order plus more, and has another caller."""
    try:
        inv = json.load(open(os.path.join(VERIF, "tables", "known_fns.json"))).get("by_config", {}).get(config)
    except OSError:
        inv = None
    if not inv:
        return facts, []
    done = []
    for _round in range(3):
        byp = {f["path"]: f for f in facts["fns"]}
        plain = lambda n: re.sub(r"::<[^:]*>", "", n or "")
        names = {plain(p): p for p in byp}
        callers = {}
        for f in facts["fns"]:
            for blk in f["blocks"]:
                t = blk["term"]
                if t["t"] == "call" and not blk["cleanup"]:
                    n = names.get(plain(t.get("resolved") or t.get("callee")))
                    if n:
                        callers.setdefault(n, set()).add(f["path"])
        pick = None
        for r in facts["fns"]:
            if r["path"] not in inv["fns"] or r["kind"] == "Closure" or r["path"].endswith("__entry"):
                continue
            live = [b for b in r["blocks"] if not b["cleanup"]]
            if len(live) > 16:
                continue
            new_calls = []
            for blk in live:
                t = blk["term"]
                if t["t"] == "call":
                    n = names.get(plain(t.get("resolved") or t.get("callee")))
                    if n and n not in inv["fns"] and byp[n]["kind"] != "Closure" and n != r["path"]:
                        new_calls.append((n, t))
            if len(new_calls) != 1:
                continue
            gname, t = new_calls[0]
            g = byp[gname]
            rsig = [l["t"] for l in r["locals"][:r["argc"] + 1]]
            gsig = [l["t"] for l in g["locals"][:g["argc"] + 1]]
            if gsig[0] != rsig[0] or g["argc"] <= r["argc"] or (g.get("parent") or "") != (r.get("parent") or ""):
                continue
            # the wrapper's parameter types, in order, among the new function's; what is added must be scratch handed in by reference (`&mut buffer`),
            # not a mode or flag chosen by the wrapper (`recv_with(Wait::Forever)` is a dispatcher shared by several entry points, looked through as usual)
            extra, want = [], list(rsig[1:])
            for ty in gsig[1:]:
                if want and ty == want[0]:
                    want.pop(0)
                else:
                    extra.append(ty)
            if want or not extra or not all(ty.startswith("&mut ") for ty in extra):
                continue
            if t["dest"].get("p") or len(callers.get(gname, ())) < 2:
                continue          # a helper with this one caller is simply looked through
            pick = (r["path"], gname)
            break
        if not pick:
            break
        rp, gp = pick
        text = json.dumps(facts)
        text = _path_sub(text, rp, "\x00ENTRY\x00")
        text = _path_sub(text, gp, rp)
        text = text.replace("\x00ENTRY\x00", rp + "__entry")
        facts = json.loads(text)
        done.append("%s is now the entry wrapper of %s" % (rp, gp))
    return facts, done


def fold_plain_structs(facts):
    """A struct the reference tree does not have, without Drop, generics or trait impls, is a named tuple a refactor introduced to carry values together
    (`Mapping { address, length }` instead of `(address, length)`, a context handed from one phase to the next): it is rewritten to the tuple of its
    fields -- struct literals become tuple literals, its name in type strings becomes the tuple type -- so the rules see the same plain values as before."""
    try:
        known = set(json.load(open(os.path.join(VERIF, "tables", "known_fns.json"))).get("adts", []))
    except OSError:
        known = set()
    if not known:
        return facts, []
    done = []
    for _round in range(4):
        cand = None
        text = None
        for a in facts.get("adts", []):
            p_ = a["path"]
            if p_ in known or len(a["variants"]) != 1 or not a["variants"][0]["fields"] or a.get("drop"):
                continue
            if any(i.get("self_adt") == p_ and i.get("trait") for i in facts.get("impls", [])):
                continue
            text = text or json.dumps(facts)
            if re.search(r"(?<![A-Za-z0-9_:])" + re.escape(p_) + r"<", text):
                continue          # generic (lifetime or type parameters): left to the other mechanisms
            # field types must not mention another candidate that is still a struct (inner ones are done first by the rounds)
            cand = a
            break
        if cand is None:
            break
        p_ = cand["path"]
        ftys = [fd_["t"] for fd_ in cand["variants"][0]["fields"]]
        tup = "(%s%s)" % (", ".join(ftys), "," if len(ftys) == 1 else "")
        vname = cand["variants"][0]["n"]
        text = text.replace(json.dumps({"adt": p_, "variant": vname, "vi": 0}), json.dumps({"tuple": 1}))
        text = text.replace('"adt": %s' % json.dumps(p_), '"adt": ""')
        text = re.sub(r"(?<![A-Za-z0-9_:])" + re.escape(p_) + r"(?![A-Za-z0-9_:<])", tup.replace("\\", "\\\\"), text)
        facts = json.loads(text)
        facts["adts"] = [a for a in facts["adts"] if a["path"] != p_ and a["path"] != tup]
        done.append("%s = %s" % (p_, tup))
    return facts, done


def _prune(fdir, keep):
    try:
        files = sorted(glob.glob(os.path.join(fdir, "*.json")) + glob.glob(os.path.join(fdir, "*.err")), key=os.path.getmtime)
    except OSError:
        return
    now = time.time()
    for p in files[:-keep]:
        try:
            if now - os.path.getmtime(p) < 900:
                continue            # recent: another run may be about to read it
        except OSError:
            continue
        try:
            os.remove(p)
        except OSError:
            pass


if __name__ == "__main__":
    cfgs = sys.argv[1:] or ["K1", "K2", "K3", "K4", "K5"]
    for c in cfgs:
        try:
            facts, meta = extract(c)
            print(c, meta)
        except ExtractError as e:
            print(c, "ERROR", e)
            print(e.log[-2000:])
