#!/usr/bin/env python3
"""Self-tests of the checkers on scratch copies of /repo (never /repo itself).

  tools/selftest.py                 all seeds and refactors
  tools/selftest.py --prop C11      only those relevant to one property
Seeds (seeded/<id>/patch.diff): every property listed in meta.json `detected_by` must report a violation again.
Refactors (selftest/refactors/*.patch): behaviour-preserving edits; every check must stay silent.
Prints one line per case; exit 1 if a case does not behave as recorded."""
import glob, json, os, re, shutil, subprocess, sys, tempfile
VERIF = os.path.dirname(os.path.dirname(os.path.abspath(__file__)))
ALL = ["C%02d" % i for i in range(1, 21)]


def scratch_copy(repo="/repo"):
    d = tempfile.mkdtemp(prefix="ipcv-selftest-")
    subprocess.run(["rsync", "-a", "--exclude", "target", "--exclude", ".git", repo + "/", d + "/"], check=True)
    return d


def run_checks(repo, props, evdir):
    env = dict(os.environ, IPCV_REPO=repo, IPCV_EVIDENCE_DIR=evdir)
    out = {}
    for p in props:
        r = subprocess.run([os.path.join(VERIF, "check"), p], capture_output=True, text=True, env=env)
        keys = re.findall(r"^VIOLATION property=\S+ replay=\S+ rule=\S+ key=(.*)$", r.stdout, re.M)
        out[p] = keys
    return out


def case(patch, props):
    d = scratch_copy()
    ev = tempfile.mkdtemp(prefix="ipcv-selftest-ev-")
    try:
        r = subprocess.run(["patch", "-p1", "-s", "-i", patch], cwd=d, capture_output=True, text=True)
        if r.returncode != 0:
            return None, "patch does not apply (the tree changed): " + (r.stdout + r.stderr).strip()[:120]
        return run_checks(d, props, ev), None
    finally:
        shutil.rmtree(d, ignore_errors=True)
        shutil.rmtree(ev, ignore_errors=True)


def main():
    only = sys.argv[sys.argv.index("--prop") + 1] if "--prop" in sys.argv else None
    results = []
    bad = 0
    for meta_p in sorted(glob.glob(os.path.join(VERIF, "seeded", "*", "meta.json"))):
        meta = json.load(open(meta_p))
        want = meta.get("detected_by", {})
        props = [p for p in want if (only is None or p == only)]
        if not props:
            continue
        got, err = case(os.path.join(os.path.dirname(meta_p), "patch.diff"), props)
        if err:
            results.append({"case": meta["id"], "kind": "seed", "outcome": "skipped", "why": err})
            print("SKIP  seed %-8s %s" % (meta["id"], err))
            continue
        for p in props:
            ok = bool(got[p])
            bad += 0 if ok else 1
            results.append({"case": meta["id"], "kind": "seed", "property": p, "outcome": "detected" if ok else "MISSED", "keys": got[p][:3]})
            print("%s seed %-8s %s -> %s" % ("ok   " if ok else "FAIL ", meta["id"], p, (got[p] or ["(silent)"])[0][:120]))
    # positive controls: one small edit per rule, the named rule must report
    for patch in sorted(glob.glob(os.path.join(VERIF, "selftest", "mutants", "*.patch"))):
        name = os.path.basename(patch)[:-6]
        spec = json.load(open(patch[:-6] + ".json"))
        props = [p for p in spec["expect"] if only is None or p == only]
        if not props:
            continue
        d = scratch_copy()
        ev = tempfile.mkdtemp(prefix="ipcv-selftest-ev-")
        try:
            r = subprocess.run(["patch", "-p1", "-s", "-i", patch], cwd=d, capture_output=True, text=True)
            if r.returncode != 0:
                results.append({"case": name, "kind": "control", "outcome": "skipped", "why": "patch does not apply"})
                print("SKIP  control %-34s patch does not apply (the tree changed)" % name)
                continue
            env = dict(os.environ, IPCV_REPO=d, IPCV_EVIDENCE_DIR=ev)
            for p in props:
                rr = subprocess.run([os.path.join(VERIF, "check"), p], capture_output=True, text=True, env=env)
                rules = set(re.findall(r"^VIOLATION property=\S+ replay=\S+ rule=(\S+)", rr.stdout, re.M))
                compile_err = bool(re.search(r"configuration \S+ does not compile|default configuration does not compile", rr.stdout))
                want = set(spec["expect"][p])
                ok = want <= rules and not compile_err
                bad += 0 if ok else 1
                results.append({"case": name, "kind": "control", "property": p, "outcome": "detected" if ok else ("DOES-NOT-COMPILE" if compile_err else "MISSED"), "rules": sorted(rules)})
                print("%s control %-34s %s want %s got %s%s" % ("ok   " if ok else "FAIL ", name, p, sorted(want), sorted(rules), " (mutant does not compile)" if compile_err else ""))
        finally:
            shutil.rmtree(d, ignore_errors=True)
            shutil.rmtree(ev, ignore_errors=True)
    for patch in sorted(glob.glob(os.path.join(VERIF, "selftest", "refactors", "*.patch"))):
        name = os.path.basename(patch)[:-6]
        desc = open(patch[:-6] + ".txt").read().strip()
        props = re.findall(r"C\d\d", desc.split(":")[0]) or ALL
        if only is not None:
            if only not in props:
                continue
            props = [only]
        got, err = case(patch, props)
        if err:
            results.append({"case": name, "kind": "refactor", "outcome": "skipped", "why": err})
            print("SKIP  refactor %-28s %s" % (name, err))
            continue
        for p in props:
            ok = not got[p]
            bad += 0 if ok else 1
            results.append({"case": name, "kind": "refactor", "property": p, "outcome": "silent" if ok else "FALSE-ALARM", "keys": got[p][:3]})
            print("%s refactor %-28s %s -> %s" % ("ok   " if ok else "FAIL ", name, p, (got[p] or ["silent"])[0][:120]))
    if "--json" in sys.argv:
        json.dump(results, open(sys.argv[sys.argv.index("--json") + 1], "w"), indent=1)
    return 1 if bad else 0


if __name__ == "__main__":
    sys.exit(main())
