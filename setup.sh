#!/bin/sh
# Build the fact extractor and warm the per-configuration dependency caches (offline).
set -e
cd "$(dirname "$0")"
export CARGO_NET_OFFLINE=true
python3 - <<'PY'
import sys
sys.path.insert(0, '.')
from vlib import extract
extract.build_driver()
for c in ("K1", "K2", "K3", "K4", "K5"):
    try:
        _, meta = extract.extract(c)
        print("warmed", c, meta)
    except extract.ExtractError as e:
        print("configuration", c, "unavailable:", e)
PY
