"""Thorough tier: (1) the same rules over the release profile (debug assertions off), (2) rustc-decided
compile-fail witnesses with compiling twins, (3) the self-test corpus for this property (seeded mutants must be
reported again, behaviour-preserving refactors must stay silent) on scratch copies of /repo."""
import json
import os
import re
import subprocess
import sys
import tempfile

from vlib import extract, report

WITNESSES = {
    "C02": ["W02ReceiverNotClone", "W02BytesReceiverNotClone"],
    "C03": ["W02ReceiverNotClone"],
    "C04": ["W16DecodeOnce"],
    "C06": ["W06SetOwnsReceiver"],
    "C08": ["W08AcceptOnce"],
    "C14": ["W14AttachmentsByValue"],
    "C16": ["W16DecodeOnce"],
}


def run(ctx, fn):
    # ---- 1. release profile
    ctx2 = report.Ctx(ctx.prop, ctx.tier, release=True)
    try:
        fn(ctx2)
    except Exception as e:
        ctx.rule("INTERNAL").violate("checker-crash-release:%s" % type(e).__name__, "checker crashed on the release profile: %r" % (e,))
    have = {f.key for f in ctx.findings}
    for f in ctx2.findings:
        if f.key not in have:
            f.msg = "[release profile only] " + f.msg
            ctx.findings.append(f)
    rel = {}
    for name, r in ctx2.rules.items():
        rel[name] = {"obligations": r.obligations, "discharged": r.discharged, "counts": r.counts}
        # count the release-profile obligations as additional coverage
        rr = ctx.rule(name, r.text)
        rr.obligations += r.obligations
        rr.discharged += r.discharged
        for i in r.instances:
            i2 = dict(i)
            i2["profile"] = "release"
            rr.instances.append(i2)
    ctx.extra["release_profile"] = {"rules": rel, "configurations": ctx2.config_meta, "unavailable": {k: v[0] for k, v in ctx2.unavailable.items()}}
    # ---- 2. witnesses
    names = WITNESSES.get(ctx.prop, [])
    if names and extract.REPO == "/repo":
        R = ctx.rule("WITNESS", "rustc rejects the witness program with the stated error code and accepts its twin that differs only in the offending line (cargo +nightly test --doc)")
        wdir = os.path.join(extract.VERIF, "witness")
        try:
            with open("/repo/Cargo.lock") as src, open(os.path.join(wdir, "Cargo.lock"), "w") as dst:
                dst.write(src.read())
        except OSError:
            pass
        env = dict(os.environ, CARGO_NET_OFFLINE="true", CARGO_TARGET_DIR=os.path.join(extract.CACHE, "target-witness"))
        r = subprocess.run(["cargo", "+nightly", "test", "--doc", "--offline"], cwd=wdir, env=env, capture_output=True, text=True)
        out = r.stdout + r.stderr
        res = re.findall(r"^test src/lib.rs - (\w+) \(line \d+\) - (compile fail|compile) \.\.\. (\w+)", out, re.M)
        seen = {}
        for name, kind, verdict in res:
            seen.setdefault(name, {})[kind] = verdict
        for n in names:
            s = seen.get(n, {})
            if s.get("compile fail") == "ok" and s.get("compile") == "ok":
                R.ok("%s: rejected by rustc, twin compiles" % n, "witness/src/lib.rs", "K1")
            elif s.get("compile") != "ok":
                R.violate("%s:twin-does-not-compile" % n, "the compiling twin of witness %s does not compile any more: the witness is void (API changed?)" % n, n, "witness/src/lib.rs", config="K1")
            else:
                R.violate("%s:accepted-by-rustc" % n, "rustc now ACCEPTS the program of witness %s: the type-level guarantee it encodes is gone" % n, n, "witness/src/lib.rs", config="K1")
        R.count("witnesses", len(names))
        ctx.extra["witness_output_tail"] = out[-1500:]
    # ---- 3. self-tests (diagnostic: never a VIOLATION of the property)
    if extract.REPO == "/repo" and not os.environ.get("IPCV_NO_SELFTEST"):
        tmp = tempfile.NamedTemporaryFile(suffix=".json", delete=False)
        tmp.close()
        env = dict(os.environ, IPCV_NO_SELFTEST="1")
        env.pop("VERIF_TIER", None)
        r = subprocess.run([sys.executable, os.path.join(extract.VERIF, "tools", "selftest.py"), "--prop", ctx.prop, "--cap", "24", "-j", "8", "--json", tmp.name], capture_output=True, text=True, env=env)
        try:
            results = json.load(open(tmp.name))
        except Exception:
            results = []
        os.unlink(tmp.name)
        bad = [x for x in results if x.get("outcome") in ("MISSED", "FALSE-ALARM")]
        ctx.extra["selftest"] = {"cases": results, "failed": len(bad)}
        print("selftest: %d cases for %s, %d not as recorded" % (len(results), ctx.prop, len(bad)))
        for x in bad:
            print("SELFTEST-NOTE: %s %s -> %s %s" % (x["kind"], x["case"], x["outcome"], x.get("keys")))
