#!/bin/sh
# usage: tools/confirm_seed.sh <worktree> <mutant dir> <demo test name> [cargo features]
# confirms in the scratch worktree: suite passes with the mutant; demo fails with it; demo passes without it
WT="$1"; M="$2"; DEMO="$3"; FEAT="$4"
cd "$WT" || exit 2
git checkout -q -- . ; mkdir -p tests; cp "$M/demo.rs" "tests/$DEMO.rs"
FF=""; [ -n "$FEAT" ] && FF="--features $FEAT"
export CARGO_NET_OFFLINE=true
echo "== original: demo"; timeout 600 cargo test --offline $FF --test "$DEMO" 2>&1 | grep -E "^test result|panicked|FAILED|error(\[|:)" | head -5
git apply "$M/patch.diff" || { echo "PATCH DOES NOT APPLY"; exit 3; }
echo "== mutant: suite"; timeout 900 cargo test --offline --lib 2>&1 | grep -E "^test result|FAILED|failed" | head -5
echo "== mutant: demo"; timeout 600 cargo test --offline $FF --test "$DEMO" 2>&1 | grep -E "^test result|panicked|FAILED|error(\[|:)" | head -6
git checkout -q -- . ; rm -f "tests/$DEMO.rs"
