"""Receiver-side rules: ERR-MAP, ZERO-READ (C03); NB-PAIR, MODE-TABLE, FOLLOWUP-BLOCKING, TIMEOUT-ARM (C10);
TRUNC-ERR, CLOSED-ORIGIN (C12)."""
from vlib.flow import (Explorer, Expr, Tracer, edge_label, expr_str, path_summaries, relation_of_label, chain_calls, segment_summaries)
from vlib.mir import callee_name, op_const, op_local, op_place, strip_generics
from rules.fd import const_eval
from rules.send import _root_local

F_SETFL, O_NONBLOCK, EAGAIN = 4, 2048, 11
CLOSED_VARIANTS = {"ChannelClosed", "ChannelClosedError"}
WOULDBLOCK_VARIANTS = {"ChannelEmpty"}


def recvmsg_fn(F):
    c = [f for f in F.fns.values() if any(strip_generics(callee_name(t)) == "libc::recvmsg" for _, t in f.calls())]
    return c[0] if len(c) == 1 else None


def platform_error_adt(F):
    for p in F.adts:
        if p in ("platform::unix::UnixError", "platform::inprocess::ChannelError"):
            return p
    return None


# --------------------------------------------------------------------------- ERR-MAP

def rule_disc_origin(ctx, cfg, F):
    R = ctx.rule("DISC-ORIGIN", "IpcError::Disconnected is made in one kind of place only: the conversion of the platform error, on its closed variant (ERR-MAP decides which edge). No other error -- "
                 "a decode failure, a short payload, an I/O kind -- is turned into `the channel is gone`")
    err = platform_error_adt(F)
    n = 0
    for f in sorted(F.fns.values(), key=lambda x: x.path):
        for b in f.live_blocks():
            if f.is_cleanup(b):
                continue
            for si, st in enumerate(f.stmts(b)):
                made = st["s"] == "assign" and st["rv"]["r"] == "agg" and st["rv"]["kind"].get("adt") == "ipc::IpcError" and st["rv"]["kind"].get("variant") == "Disconnected"
                made = made or (st["s"] == "assign" and st["rv"]["r"] == "use" and st["rv"]["a"][0].get("k") == "c" and st["rv"]["a"][0].get("pvariant") == "Disconnected" and "IpcError" in (st["rv"]["a"][0].get("t") or ""))
                if not made:
                    continue
                n += 1
                if f.impl_trait == "std::convert::From" and err is not None and f.argc >= 1 and f.local_ty(1) == err:
                    R.ok("%s: Disconnected made from the platform error" % f.path, f.loc(b, si), cfg)
                else:
                    R.violate("%s:disconnected-made-elsewhere" % strip_generics(f.path), "%s constructs IpcError::Disconnected, but it does not convert the platform's closed-channel error: something else is reported as a vanished peer" % f.path,
                              f.path, f.loc(b, si), config=cfg)
    R.count("disconnected_sites[%s]" % cfg, n)


def rule_recv_conv(ctx, cfg, F):
    R = ctx.rule("RECV-CONV", "in every ipc-layer function that receives from the platform receiver, the platform error reaches the caller through its conversion into the ipc error type "
                 "(the one that turns the closed-channel error into Disconnected), never by way of io::Error wrapped afterwards: `IpcError::Io(err.into())` reports a finished channel as an I/O error")
    err = platform_error_adt(F)
    n = 0
    for f in sorted(F.fns.values(), key=lambda x: x.path):
        if not (f.path.startswith("ipc::") or f.path.startswith("<ipc::")) or err is None:
            continue
        if not any(strip_generics(callee_name(t)).endswith(("::OsIpcReceiver::recv", "::OsIpcReceiver::try_recv", "::OsIpcReceiver::try_recv_timeout")) for _, t in f.calls()):
            continue
        n += 1
        bad = None
        for b, t in f.calls():
            g = " ".join(t.get("generics") or []) + " " + " ".join(t.get("resolved_generics") or []) + " " + (t.get("resolved") or "")
            nm = strip_generics(t.get("callee") or "")
            if err in g and (nm.endswith("::from") or nm.endswith("::into")) and "std::io::Error" in g and "ipc::" not in g.replace(err, ""):
                bad = b
        if bad is not None:
            R.violate("%s:platform-error-through-io-error" % strip_generics(f.path), "%s converts the platform receive error into std::io::Error (and wraps that): the closed-channel error is no longer "
                      "classified as Disconnected" % f.path, f.path, f.loc(bad), config=cfg)
        else:
            R.ok("%s: receive errors go through the ipc error conversion" % f.path, f.loc(0), cfg)
    R.count("receiving_fns[%s]" % cfg, n)


def rule_try_conv(ctx, cfg, F):
    R = ctx.rule("TRY-CONV", "in every ipc-layer function that polls the platform receiver (try_recv / try_recv_timeout) the platform error reaches the caller through the conversion into TryRecvError "
                 "(the one that classifies would-block as Empty), never through the conversion into IpcError wrapped afterwards")
    err = platform_error_adt(F)
    n = 0
    for f in sorted(F.fns.values(), key=lambda x: x.path):
        if not (f.path.startswith("ipc::") or f.path.startswith("<ipc::")) or err is None:
            continue
        polls = [b for b, t in f.calls() if strip_generics(callee_name(t)).endswith(("::OsIpcReceiver::try_recv", "::OsIpcReceiver::try_recv_timeout"))]
        if not polls:
            continue
        n += 1
        good, bad = [], []
        for b, t in f.calls():
            g = " ".join(t.get("generics") or []) + " " + " ".join(t.get("resolved_generics") or [])
            if err not in g:
                continue
            nm = strip_generics(t.get("callee") or "")
            if not (nm.endswith("::from") or nm.endswith("::into") or nm.endswith("from_residual") or nm.endswith("::map_err")):
                continue
            if "ipc::TryRecvError" in g:
                good.append(b)
            elif "ipc::IpcError" in g:
                bad.append(b)
        if bad:
            R.violate("%s:poll-error-through-IpcError" % strip_generics(f.path), "%s converts the platform error of a polling receive into IpcError: would-block is then reported as an I/O error instead of Empty" % f.path,
                      f.path, f.loc(bad[0]), config=cfg)
        elif not good:
            R.violate("%s:poll-error-unconverted" % strip_generics(f.path), "%s polls the platform receiver but no conversion of its error into TryRecvError was found" % f.path, f.path, f.loc(polls[0]), config=cfg)
        else:
            R.ok("%s: the platform error goes through the conversion into TryRecvError" % f.path, f.loc(good[0]), cfg)
    R.count("polling_fns[%s]" % cfg, n)


def rule_err_map(ctx, cfg, F):
    R = ctx.rule("ERR-MAP", "in the conversions of the platform error into IpcError / TryRecvError: Disconnected is constructed exactly on the "
                 "closed variant, TryRecvError::Empty exactly on the would-block class (EAGAIN/EWOULDBLOCK or the in-process empty variant), "
                 "and neither class reaches the other's constructor")
    err = platform_error_adt(F)
    n = 0
    for f in sorted(F.fns.values(), key=lambda x: x.path):
        if f.impl_trait != "std::convert::From" or err is None:
            continue
        if f.local_ty(1) != err:
            continue
        target = f.local_ty(0)
        if target not in ("ipc::IpcError", "ipc::TryRecvError"):
            continue
        n += 1

        def edge_fact(b, s, labs):
            for lab in labs:
                if lab["kind"] in ("variant", "variant_not") and lab.get("adt") == err and lab.get("variant"):
                    for v in lab["variant"].split("|"):
                        yield ("variant", v, lab["kind"] == "variant" or "|" not in lab["variant"])
                elif lab["kind"] == "cmp" and lab["op"] in ("Eq", "Ne"):
                    c = op_const(lab["b"]) if op_const(lab["b"]) is not None else op_const(lab["a"])
                    if c is not None:
                        yield ("code", c, lab["truth"] if lab["op"] == "Eq" else not lab["truth"])
                elif lab["kind"] == "callbool" and lab["callee"].endswith("::contains") and lab["truth"] and lab["args"]:
                    # `[EAGAIN, EWOULDBLOCK].contains(&code)`: the code is one of the constants of the array literal
                    la = op_local(lab["args"][0])
                    for _ in range(6):
                        ds_ = [d for d in f.defs().get(la, []) if not f.is_cleanup(d[0])] if la is not None else []
                        if len(ds_) != 1 or ds_[0][1] is None:
                            break
                        rv_ = ds_[0][2]["rv"]
                        if rv_["r"] == "use" and rv_["a"][0].get("k") == "c" and isinstance(rv_["a"][0].get("pa"), list):
                            # the array literal was promoted to a constant: the extractor records its elements
                            for c_ in rv_["a"][0]["pa"]:
                                yield ("code", c_, True)
                            break
                        if rv_["r"] == "agg" and "array" in rv_["kind"]:
                            for a_ in rv_["a"]:
                                if op_const(a_) is not None:
                                    yield ("code", op_const(a_), True)
                            break
                        la = rv_["pl"]["l"] if rv_["r"] in ("ref", "raw") else (op_local(rv_["a"][0]) if rv_["r"] in ("use", "cast") else None)
                elif lab["kind"] == "callbool" and lab["callee"].endswith("::channel_is_closed"):
                    # the error type's own closed predicate (its body is checked to test the closed variant)
                    if lab["truth"]:
                        yield ("variant", "ChannelClosed", True)
                elif lab["kind"] == "val" and lab["value"] == EAGAIN:
                    names = [e.get("n") for e in lab["place"].get("p", []) if isinstance(e, dict) and "v" in e]
                    if "Errno" in names:
                        yield ("code", EAGAIN, True)

        def block_fact(b):
            for st in f.stmts(b):
                if st["s"] == "assign" and st["rv"]["r"] == "agg":
                    k = st["rv"]["kind"]
                    if k.get("adt") in ("ipc::IpcError", "ipc::TryRecvError"):
                        yield ("ctor", "%s::%s" % (k["adt"].split("::")[-1], k["variant"]))

        bad = False
        paths = path_summaries(f, edge_fact, block_fact)
        for facts, rb, path in paths:
            variants = {x[1] for x in facts if x[0] == "variant" and x[2]}
            codes_true = {x[1] for x in facts if x[0] == "code" and x[2]}
            ctors = {x[1] for x in facts if x[0] == "ctor"}
            closed = bool(variants & CLOSED_VARIANTS)
            wouldblock = bool(variants & WOULDBLOCK_VARIANTS) or ("Errno" in variants and EAGAIN in codes_true)
            disc = "IpcError::Disconnected" in ctors
            empty = "TryRecvError::Empty" in ctors
            desc = "variant=%s codes=%s -> %s" % (sorted(variants), sorted(codes_true), sorted(ctors))
            if disc and not closed:
                bad = True
                R.violate("%s:disconnected-on-non-closed:%s" % (_fn_key(f), "+".join(sorted(variants)) or "any"),
                          "%s constructs Disconnected on a path that is not the closed variant (%s): an idle or failing channel would be reported as disconnected" % (f.path, desc),
                          f.path, f.loc(rb), path="bb" + "->bb".join(map(str, path)), config=cfg)
            if closed and not disc:
                bad = True
                R.violate("%s:closed-not-disconnected" % _fn_key(f), "%s maps the closed variant to something other than Disconnected (%s)" % (f.path, desc),
                          f.path, f.loc(rb), config=cfg)
            if empty and not wouldblock:
                bad = True
                R.violate("%s:empty-on-non-wouldblock:%s" % (_fn_key(f), "+".join(sorted(variants)) or "any"),
                          "%s constructs Empty outside the would-block class (%s)" % (f.path, desc), f.path, f.loc(rb), config=cfg)
            if wouldblock and target == "ipc::TryRecvError" and not empty:
                bad = True
                R.violate("%s:wouldblock-not-empty" % _fn_key(f), "%s maps the would-block class to something other than Empty (%s)" % (f.path, desc), f.path, f.loc(rb), config=cfg)
        # the would-block class must be reachable at all in the TryRecvError conversion
        if target == "ipc::TryRecvError" and not any("TryRecvError::Empty" in {x[1] for x in facts if x[0] == "ctor"} for facts, _, _ in paths):
            bad = True
            R.violate("%s:no-empty-edge" % _fn_key(f), "%s never constructs Empty: a connected idle channel cannot be reported as empty" % f.path, f.path, f.loc(0), config=cfg)
        if not bad:
            R.ok("%s: %d paths, Disconnected <=> closed%s" % (f.path, len(paths), ", Empty <=> would-block" if target.endswith("TryRecvError") else ""), f.loc(0), cfg)
    R.count("conversions[%s]" % cfg, n)


def _fn_key(f):
    return "%s->%s" % (f.local_ty(1).split("::")[-1], f.local_ty(0).split("::")[-1])


def rule_inproc_classes(ctx, cfg, F):
    R = ctx.rule("ERR-CLASS-INPROC", "in-process receive variants construct the closed variant only on crossbeam's disconnected edges and the empty variant only on its empty/timeout edges")
    n = 0
    for f in sorted(F.fns.values(), key=lambda x: x.path):
        if not f.path.startswith("platform::inprocess::OsIpcReceiver::") or f.path.split("::")[-1] not in ("recv", "try_recv", "try_recv_timeout"):
            continue
        n += 1

        def edge_fact(b, s, labs):
            for lab in labs:
                if lab["kind"] in ("variant", "variant_not") and lab.get("variant") and lab.get("adt", "").startswith("crossbeam_channel::"):
                    for v in lab["variant"].split("|"):
                        yield ("cb", v)
                if lab["kind"] in ("variant", "variant_not") and lab.get("adt") == "std::result::Result" and lab.get("variant"):
                    yield ("res", lab["variant"])
                if lab["kind"] == "callbool" and "crossbeam_channel" in lab["callee"]:
                    # the error's own predicates: `e.is_timeout()`, `e.is_disconnected()`, `e.is_empty()` (two-variant errors: not one is the other)
                    short = lab["callee"].split("::")[-1]
                    pos = {"is_timeout": "Timeout", "is_disconnected": "Disconnected", "is_empty": "Empty"}.get(short)
                    if pos:
                        other = "Disconnected" if pos in ("Timeout", "Empty") else ("Timeout" if "RecvTimeoutError" in lab["callee"] else "Empty")
                        yield ("cb", pos if lab["truth"] else other)

        def block_fact(b):
            for st in f.stmts(b):
                if st["s"] == "assign" and st["rv"]["r"] == "agg" and st["rv"]["kind"].get("adt") == "platform::inprocess::ChannelError":
                    yield ("ctor", st["rv"]["kind"]["variant"])
        bad = False
        for facts, rb, path in path_summaries(f, edge_fact, block_fact):
            cb = {x[1] for x in facts if x[0] == "cb"}
            ctors = {x[1] for x in facts if x[0] == "ctor"}
            res = {x[1] for x in facts if x[0] == "res"}
            plain_recv = f.path.endswith("::recv")
            if "ChannelClosedError" in ctors and not (("Disconnected" in cb) or (plain_recv and "Err" in res)):
                bad = True
                R.violate("%s:closed-on-wrong-edge" % f.path, "%s reports closed on an edge that is not crossbeam's disconnection (%s)" % (f.path, sorted(cb)), f.path, f.loc(rb), config=cfg)
            if "ChannelEmpty" in ctors and not (cb & {"Empty", "Timeout"}):
                bad = True
                R.violate("%s:empty-on-wrong-edge" % f.path, "%s reports empty on an edge that is not crossbeam's Empty/Timeout (%s)" % (f.path, sorted(cb)), f.path, f.loc(rb), config=cfg)
            if "Disconnected" in cb and "ChannelClosedError" not in ctors:
                bad = True
                R.violate("%s:disconnected-not-closed" % f.path, "%s maps crossbeam's Disconnected to %s" % (f.path, sorted(ctors)), f.path, f.loc(rb), config=cfg)
            if cb & {"Empty", "Timeout"} and "ChannelEmpty" not in ctors:
                bad = True
                R.violate("%s:empty-not-empty" % f.path, "%s maps crossbeam's Empty/Timeout to %s" % (f.path, sorted(ctors)), f.path, f.loc(rb), config=cfg)
        if not bad:
            R.ok("%s: error classes follow crossbeam's" % f.path, f.loc(0), cfg)
    R.count("receive_variants[%s]" % cfg, n)


# --------------------------------------------------------------------------- ZERO-READ / TIMEOUT-ARM

def _result_relations(f, call_block):
    """explore from a libc call; yields per return path the relation of the call's result to 0 and the constructors seen"""
    t = f.term(call_block)
    res_local = t["dest"]["l"]
    tr = Tracer(f)

    def is_res(op):
        return any(r.kind == "call" and r.block == call_block for r in tr.roots_of_operand(op))

    def edge_fact(b, s, labs):
        for lab in labs:
            rel = relation_of_label(f, lab)
            if rel:
                a, c, rs = rel
                ca, cc = _const_of(f, tr, a), _const_of(f, tr, c)
                if is_res(a) and cc == 0 and len(rs) == 1:
                    yield ("rel", next(iter(rs)))
                elif is_res(c) and ca == 0 and len(rs) == 1:
                    yield ("rel", {"lt": "gt", "gt": "lt", "eq": "eq"}[next(iter(rs))])
                elif is_res(a) and cc == 0:
                    yield ("relset", tuple(sorted(rs)))

    def block_fact(b):
        for st in f.stmts(b):
            if st["s"] == "assign" and st["rv"]["r"] == "agg":
                k = st["rv"]["kind"]
                if k.get("adt"):
                    yield ("ctor", "%s::%s" % (k["adt"].split("::")[-1], k["variant"]), tuple(op_const(a) for a in st["rv"]["a"]))
        tt = f.term(b)
        if tt["t"] == "call":
            yield ("call", strip_generics(callee_name(tt)))
    out = []
    for facts, rb, path in path_summaries(f, edge_fact, block_fact, start=t["to"]):
        # an if/else chain establishes a relation by exclusion (`!= 0` and `>= 0`  =>  `> 0`)
        rels = {x[1] for x in facts if x[0] == "rel"}
        if not rels:
            poss = {"lt", "eq", "gt"}
            for x in facts:
                if x[0] == "relset":
                    poss &= set(x[1])
            if len(poss) == 1:
                facts = frozenset(facts) | {("rel", next(iter(poss)))}
        out.append((facts, rb, path))
    return out


def _const_of(f, tr, op):
    c = op_const(op)
    if c is not None:
        return c
    if op.get("k") == "c" and "pv" in op:
        return op["pv"]
    for r in tr.roots_of_operand(op):
        if r.kind == "const" and isinstance(r.id, int):
            return r.id
    return None


def rule_zero_read(ctx, cfg, F):
    R = ctx.rule("ZERO-READ", "in the function that calls recvmsg: result == 0 constructs the closed variant, result < 0 constructs Errno(last), result > 0 reaches Ok")
    f = recvmsg_fn(F)
    if not f:
        R.violate("anchor-missing:recvmsg", "no unique function calls libc::recvmsg", config=cfg)
        return
    for b, t in f.calls_to("libc::recvmsg"):
        R.count("recvmsg_sites[%s]" % cfg)
        seen = {}
        for facts, rb, path in _result_relations(f, b):
            rels = {x[1] for x in facts if x[0] == "rel"}
            ctors = {x[1] for x in facts if x[0] == "ctor"}
            calls = {x[1] for x in facts if x[0] == "call"}
            for r in rels:
                seen.setdefault(r, []).append((ctors, calls))
        problems = []
        if "eq" not in seen:
            problems.append(("zero-not-distinguished", "the zero-length result is not a distinguished edge: a closed channel is not recognised"))
        else:
            if not all(any(c.endswith("Error::ChannelClosed") or c.endswith("::ChannelClosed") for c in ctors) for ctors, _ in seen["eq"]):
                problems.append(("zero-not-closed", "recvmsg == 0 does not construct the closed variant on every path"))
        for r in ("lt", "gt"):
            for ctors, calls in seen.get(r, []):
                if any(c.endswith("::ChannelClosed") for c in ctors):
                    problems.append(("closed-on-%s" % r, "the closed variant is constructed although recvmsg returned %s 0" % ("<" if r == "lt" else ">")))
        if "gt" in seen and not all("Result::Ok" in ctors for ctors, _ in seen["gt"] if not any(c.endswith("UnixError::Errno") for c in ctors)):
            problems.append(("positive-not-ok", "a positive recvmsg result does not reach Ok"))
        if "lt" in seen and not all(any(c.endswith("UnixError::last") for c in calls) for _, calls in seen["lt"]):
            problems.append(("negative-not-errno", "a negative recvmsg result does not produce Errno(last)"))
        for k, msg in problems:
            R.violate("%s:%s" % (f.path, k), msg, f.path, f.loc(b), config=cfg)
        if not problems:
            R.ok("recvmsg result: ==0 -> closed, <0 -> Errno(last), >0 -> Ok", f.loc(b), cfg)



READ_CALLS = ("libc::recv", "libc::recvmsg", "libc::read", "libc::recvfrom")


def rule_errno_fresh(ctx, cfg, F):
    R = ctx.rule("ERRNO-FRESH", "after a read-type system call (recv, recvmsg) errno is consulted (UnixError::last) only on paths where the call is known to have "
                 "returned a negative value: a zero-length read (end of stream) leaves errno stale, so classifying it through errno turns 'the peer is gone' into "
                 "whatever error happened last on this thread (EAGAIN => 'nothing more to read', 0 => a bogus I/O error)")
    n = 0
    for f in sorted(F.fns.values(), key=lambda x: x.path):
        if not f.path.startswith("platform::unix"):
            continue
        reads = [b for b, t in f.calls() if strip_generics(callee_name(t)) in READ_CALLS]
        if not reads:
            continue
        tr = Tracer(f)
        for cb in reads:
            t = f.term(cb)
            n += 1

            def is_res(op, cb=cb):
                return any(r.kind == "call" and r.block == cb for r in tr.roots_of_operand(op))

            def edge_fact(b, s, labs):
                for lab in labs:
                    rel = relation_of_label(f, lab)
                    if rel:
                        a, c, rs = rel
                        ca, cc = _const_of(f, tr, a), _const_of(f, tr, c)
                        if is_res(a) and cc == 0:
                            yield ("rel", tuple(sorted(rs)))
                        elif is_res(c) and ca == 0:
                            yield ("rel", tuple(sorted({"lt": "gt", "gt": "lt", "eq": "eq"}[x] for x in rs)))

            def block_fact(b):
                tt = f.term(b)
                if tt["t"] == "call" and strip_generics(callee_name(tt)).endswith("UnixError::last"):
                    yield ("errno", b)
            bad = None
            # a later system call owns errno from then on: segments end at the next foreign call
            later = {b for b, t2 in f.calls() if (strip_generics(callee_name(t2)).startswith("libc::") or t2.get("foreign")) and b != cb} | set(reads)
            for facts, endb in segment_summaries(f, t["to"], later, edge_fact, block_fact):
                errno_blocks = [x[1] for x in facts if x[0] == "errno"]
                if not errno_blocks:
                    continue
                poss = {"lt", "eq", "gt"}
                for x in facts:
                    if x[0] == "rel":
                        poss &= set(x[1])
                if not poss:
                    continue        # contradictory facts: an infeasible combination
                if poss != {"lt"}:
                    bad = (errno_blocks[0], poss)
                    break
            name = strip_generics(callee_name(t)).split("::")[-1]
            if bad:
                R.violate("%s:%s:errno-read-without-negative-result" % (f.path, name),
                          "errno is read after %s on a path where the call may have returned %s: a zero-length read does not set errno" % (name, "/".join(sorted({"eq": "0", "gt": "> 0", "lt": "< 0"}[x] for x in bad[1]))),
                          f.path, f.loc(bad[0]), config=cfg)
            else:
                R.ok("%s in %s: errno is read only after a negative result" % (name, f.path), f.loc(cb), cfg)
    R.count("read_sites[%s]" % cfg, n)


def rule_timeout_arm(ctx, cfg, F):
    R = ctx.rule("TIMEOUT-ARM", "the timed receive polls with a timeout derived from the caller's duration; poll == 0 constructs Errno(EAGAIN) (=> Empty), poll < 0 constructs Errno(last)")
    f = recvmsg_fn(F)
    if not f:
        return
    tr = Tracer(f)
    n = 0
    # the wait must work for every descriptor number: select()'s fd_set has FD_SETSIZE bits, and FD_SET on a larger descriptor writes outside it
    for h in F.fns.values():
        if h.file.endswith("test.rs"):
            continue
        trh = None
        for b, t in h.calls():
            if strip_generics(callee_name(t)) in ("libc::FD_SET", "libc::FD_ISSET", "libc::FD_CLR"):
                trh = trh or Tracer(h)
                bounded = False
                for s_ in h.live_blocks():
                    if h.term(s_)["t"] != "switch" or not h.dominates(s_, b):
                        continue
                    for tgt in h.succ(s_):
                        if not (tgt == b or h.dominates(tgt, b)):
                            continue
                        for lab in edge_label(h, s_, tgt):
                            if lab["kind"] == "cmp" and ((lab["op"] == "Lt" and lab["truth"]) or (lab["op"] == "Ge" and not lab["truth"])) and \
                                    trh.roots_of_operand(lab["a"]) & trh.roots_of_operand(t["args"][0]):
                                bounded = True
                if not bounded:
                    R.violate("%s:fd-set-without-bound" % strip_generics(h.path), "%s puts a descriptor into an fd_set (%s) without first checking it against FD_SETSIZE: a process with more than 1024 "
                              "open descriptors gets an out-of-bounds write (or an abort) from a timed receive, where poll() has no such limit" % (h.path, strip_generics(callee_name(t))), h.path, h.loc(b), config=cfg)
    for b, t in f.calls_to("libc::poll"):
        n += 1
        roots = tr.roots_of_operand(t["args"][2])
        from_dur = any(r.kind == "call" and r.id == "std::time::Duration::as_millis" for r in roots) or any(r.kind == "param" for r in roots)
        if not from_dur:
            R.violate("%s:poll-timeout-not-from-duration" % f.path, "poll's timeout operand does not derive from the caller's duration", f.path, f.loc(b), config=cfg)
        else:
            # as_millis must be applied to the mode's payload (a parameter)
            ok = False
            for r in roots:
                if r.kind == "call" and r.id == "std::time::Duration::as_millis":
                    at = f.term(r.block)
                    ok = any(x.kind == "param" for x in tr.roots_of_operand(at["args"][0]))
            # ... through a conversion that cannot wrap: as_millis() is a u128, and a plain `as c_int` turns 2^32 ms into 0 ms and 2^32+20 ms into 20 ms
            wraps = None
            seen_, work_ = set(), [op_local(t["args"][2])]
            while work_ and len(seen_) < 60:
                l_ = work_.pop()
                if l_ is None or l_ in seen_:
                    continue
                seen_.add(l_)
                for (db, si, node) in f.defs().get(l_, []):
                    if f.is_cleanup(db):
                        continue
                    if si is None:
                        if strip_generics(callee_name(node)) == "std::time::Duration::as_millis":
                            continue
                        work_ += [op_local(a) for a in node["args"]]
                        continue
                    rv = node["rv"]
                    if rv["r"] == "cast" and rv["a"] and op_local(rv["a"][0]) is not None and f.local_ty(op_local(rv["a"][0])) in ("u128", "u64", "i64", "usize") and f.local_ty(l_) in ("i32", "u32", "i16", "u16"):
                        wraps = (db, f.local_ty(op_local(rv["a"][0])), f.local_ty(l_))
                    work_ += [op_local(a) for a in rv.get("a", [])]
            if wraps:
                ok = False
                R.violate("%s:poll-timeout-truncated" % f.path, "the timeout handed to poll is the duration's milliseconds cut down with `as` (%s -> %s): a long timeout wraps to a short (or zero) one and the "
                          "timed receive reports Empty long before the requested time" % (wraps[1], wraps[2]), f.path, f.loc(wraps[0]), config=cfg)
            elif ok:
                R.ok("poll timeout derives from the Timeout(duration) parameter", f.loc(b), cfg)
            elif not wraps:
                R.violate("%s:poll-timeout-not-from-duration" % f.path, "poll's timeout is not computed from the duration parameter", f.path, f.loc(b), config=cfg)
        seen = {}
        for facts, rb, path in _result_relations(f, b):
            rels = {x[1] for x in facts if x[0] == "rel"}
            for r in rels:
                seen.setdefault(r, []).append(facts)
        zero_ok = "eq" in seen and all(any(x[0] == "ctor" and x[1].endswith("UnixError::Errno") and EAGAIN in x[2] for x in facts) for facts in seen["eq"])
        if zero_ok:
            R.ok("poll == 0 -> Errno(EAGAIN)", f.loc(b), cfg)
        else:
            R.violate("%s:poll-zero-not-eagain" % f.path, "the poll-timed-out edge does not construct Errno(EAGAIN): an expired wait would not be reported as Empty", f.path, f.loc(b), config=cfg)
        # poll < 0: the OS error as it is -- in particular never dressed up as would-block (an interrupted wait is not an expired one)
        lt = seen.get("lt", [])
        lt_ok = bool(lt) and all(any(x[0] == "call" and (x[1].endswith("UnixError::last") or x[1].endswith("io::Error::last_os_error")) for x in facts) and
                                 not any(x[0] == "ctor" and x[1].endswith("UnixError::Errno") and (EAGAIN in x[2] or EWOULDBLOCK in x[2]) for x in facts) for facts in lt)
        if lt_ok:
            R.ok("poll < 0 -> Errno(last), unchanged", f.loc(b), cfg)
        else:
            R.violate("%s:poll-error-not-passed-on" % f.path, "the failed-poll edge does not return UnixError::last() as it is (a failure such as EINTR must not be reported as an expired wait / Empty)", f.path, f.loc(b), config=cfg)
        # poll > 0 must go on to recvmsg
        if "gt" in seen and all(any(x[0] == "call" and x[1] == "libc::recvmsg" for x in facts) for facts in seen["gt"]):
            R.ok("poll > 0 -> recvmsg", f.loc(b), cfg)
        else:
            R.violate("%s:poll-ready-no-read" % f.path, "a ready poll does not proceed to recvmsg", f.path, f.loc(b), config=cfg)
    R.count("poll_sites[%s]" % cfg, n)


# --------------------------------------------------------------------------- NB-PAIR

def _bit_of(e, mask):
    """is the bit `mask` set in the value of this expression?  1 / 0 when that follows from constants and the bitwise operators, None when it depends on a run-time value"""
    c = const_eval(e)
    if c is not None:
        return 1 if c & mask else 0
    if e[0] == "bin" and e[1] in ("BitAnd", "BitOr"):
        a, b = _bit_of(e[2], mask), _bit_of(e[3], mask)
        if e[1] == "BitAnd":
            return 0 if (a == 0 or b == 0) else (1 if a == 1 and b == 1 else None)
        return 1 if (a == 1 or b == 1) else (0 if a == 0 and b == 0 else None)
    if e[0] == "un" and e[1] == "Not":
        a = _bit_of(e[2], mask)
        return None if a is None else 1 - a
    return None


def rule_nb_pair(ctx, cfg, F):
    R = ctx.rule("NB-PAIR", "every feasible normal path from a successful fcntl(fd, F_SETFL, O_NONBLOCK) to a return passes through fcntl(fd, F_SETFL, flags "
                 "without O_NONBLOCK) on the same descriptor: a non-blocking receive never leaves the descriptor non-blocking")
    n = 0
    for f in sorted(F.fns.values(), key=lambda x: x.path):
        sites = list(f.calls_to("libc::fcntl"))
        if not sites:
            continue
        ex_ = Expr(f)
        tr = Tracer(f)
        setters, restorers = {}, {}
        for b, t in sites:
            cmd = const_eval(ex_.of_operand(t["args"][1]))
            flags = const_eval(ex_.of_operand(t["args"][2])) if len(t["args"]) > 2 else None
            if cmd != F_SETFL:
                continue
            n += 1
            fdroots = frozenset(r.key() for r in tr.roots_of_operand(t["args"][0]))
            bit = (1 if flags & O_NONBLOCK else 0) if flags is not None else (_bit_of(ex_.of_operand(t["args"][2]), O_NONBLOCK) if len(t["args"]) > 2 else None)
            # flags computed from F_GETFL: `old & !O_NONBLOCK` certainly clears the bit, `old | O_NONBLOCK` certainly sets it; anything else may leave it set
            if bit == 0:
                restorers[b] = fdroots
            else:
                setters[b] = fdroots
        # a descriptor created non-blocking (SOCK_NONBLOCK) starts in that mode
        for b, t in f.calls():
            nm_ = strip_generics(callee_name(t))
            ai = {"libc::socket": 1, "libc::socketpair": 1, "libc::accept4": 3}.get(nm_)
            if ai is not None and len(t["args"]) > ai and _bit_of(ex_.of_operand(t["args"][ai]), O_NONBLOCK) != 0 and not t["dest"].get("p"):
                n += 1
                setters[b] = frozenset(r.key() for r in tr.roots(t["dest"]["l"]))
        if not setters:
            continue
        ex = Explorer(f)
        leaks = {}

        closers = {b: frozenset(r.key() for r in tr.roots_of_operand(t["args"][0])) for b, t in f.calls_to("libc::close")}

        def step(b, st, env):
            if b in setters:
                return ("set", b)
            if b in restorers and st[0] in ("set", "setok") and restorers[b] == setters[st[1]]:
                return ("clear", None)
            if b in closers and st[0] in ("set", "setok") and closers[b] == setters[st[1]]:
                return ("clear", None)          # the descriptor is gone: its mode no longer matters
            if f.term(b)["t"] == "return" and st[0] in ("set", "setok"):
                return ("LEAK", st[1])
            return st

        def edge(b, s, labs, st, env):
            if st[0] == "set" and b == st[1]:
                return st
            if st[0] == "set":
                # the test of the setter's own result: failure edge means the mode was not changed
                sb = st[1]
                res = f.term(sb)["dest"]["l"]
                for lab in labs:
                    if lab["kind"] == "cmp":
                        a = op_local(lab["a"])
                        if a is not None and any(r.kind == "call" and r.block == sb for r in tr.roots_of_operand(lab["a"])) and op_const(lab["b"]) == 0:
                            failed = (lab["op"] == "Lt" and lab["truth"]) or (lab["op"] == "Ge" and not lab["truth"]) or (lab["op"] == "Ne" and lab["truth"]) or (lab["op"] == "Eq" and not lab["truth"])
                            return ("clear", None) if failed else ("setok", sb)
            return st

        created = {b for b in setters if strip_generics(callee_name(f.term(b))) in ("libc::socket", "libc::socketpair", "libc::accept4")}

        def at_return(b, st, path):
            if st[0] == "LEAK":
                if st[1] in created:
                    # a descriptor made here matters only where it is handed to the caller: on an Err exit its owner is dropped with it
                    last = None
                    for pb in path:
                        for s_ in f.stmts(pb):
                            if s_["s"] == "assign" and s_["lhs"]["l"] == 0 and not s_["lhs"].get("p") and s_["rv"]["r"] == "agg":
                                last = s_["rv"]["kind"].get("variant")
                        tt = f.term(pb)
                        if tt["t"] == "call" and tt["dest"]["l"] == 0 and "from_residual" in strip_generics(tt.get("callee") or ""):
                            last = "Err"
                    if last == "Err":
                        return
                leaks.setdefault(st[1], path)
        ex.walk(0, ("clear", None), step, at_return=at_return, edge=edge)
        for sb in setters:
            if sb in leaks:
                p = leaks[sb]
                R.violate("%s:nonblocking-not-restored:%s" % (f.path, _exit_calls(f, p)),
                          "a path returns with O_NONBLOCK still set on the descriptor (exit via %s): a later blocking receive fails with EAGAIN instead of blocking" % _exit_calls(f, p),
                          f.path, f.loc(sb), path="bb" + "->bb".join(map(str, p[-14:])), config=cfg)
            else:
                R.ok("%s: O_NONBLOCK set at %s is cleared on every feasible path to return" % (f.path, f.loc(sb)), f.loc(sb), cfg)
    R.count("setfl_sites[%s]" % cfg, n)



MSG_DONTWAIT = 0x40


def rule_nb_mode(ctx, cfg, F):
    R = ctx.rule("NB-MODE", "at the recvmsg call the read is non-blocking exactly on the paths that serve BlockingMode::Nonblocking: either O_NONBLOCK was set on the descriptor "
                 "(fcntl F_SETFL succeeded) or the flags operand carries MSG_DONTWAIT there; on the Blocking and Timeout paths neither holds (a blocking receive must block, "
                 "a timed one has already been told by poll that data is there)")
    f = recvmsg_fn(F)
    if not f:
        R.violate("anchor-missing:recvmsg", "no unique function calls libc::recvmsg", config=cfg)
        return
    ex_ = Expr(f)
    tr = Tracer(f)
    sites = [b for b, t in f.calls_to("libc::recvmsg")]
    setters, clearers = set(), set()
    for b, t in f.calls_to("libc::fcntl"):
        cmd = const_eval(ex_.of_operand(t["args"][1]))
        fl = const_eval(ex_.of_operand(t["args"][2])) if len(t["args"]) > 2 else None
        if cmd == F_SETFL and fl is not None:
            (setters if fl & O_NONBLOCK else clearers).add(b)
    # locals the flags operand is computed from
    flag_locals = set()
    for b in sites:
        a = f.term(b)["args"][2]
        work = [op_local(a)] if op_local(a) is not None else []
        while work:
            l = work.pop()
            if l in flag_locals or l is None:
                continue
            flag_locals.add(l)
            for (db, si, node) in f.defs().get(l, []):
                if si is not None:
                    for o in node["rv"].get("a", []):
                        if op_local(o) is not None:
                            work.append(op_local(o))
    explorer = Explorer(f)
    seen = {}

    def valof(vals, o):
        c = op_const(o)
        if c is None and o.get("k") == "c" and "pv" in o:
            c = o["pv"]
        if c is not None:
            return c
        l = op_local(o)
        return dict(vals).get(l) if l is not None and not o["pl"].get("p") else None

    def step(b, st, env):
        mode, nb, vals = st
        d = dict(vals)
        for s_ in f.stmts(b):
            if s_["s"] != "assign" or s_["lhs"].get("p") or s_["lhs"]["l"] not in flag_locals:
                continue
            rv = s_["rv"]
            v = None
            if rv["r"] in ("use", "cast"):
                v = valof(tuple(d.items()), rv["a"][0])
            elif rv["r"] == "bin" and rv["op"] in ("BitOr", "BitAnd", "BitXor"):
                x, y = valof(tuple(d.items()), rv["a"][0]), valof(tuple(d.items()), rv["a"][1])
                if x is not None and y is not None:
                    v = {"BitOr": x | y, "BitAnd": x & y, "BitXor": x ^ y}[rv["op"]]
            d[s_["lhs"]["l"]] = v
        vals = tuple(sorted(d.items()))
        if b in sites:
            fv = valof(vals, f.term(b)["args"][2])
            seen.setdefault((next(iter(mode)) if mode is not None and len(mode) == 1 else None, nb, fv), b)
            return None
        if b in setters:
            nb = "pending:%d" % b
        elif b in clearers:
            nb = False
        return (mode, nb, vals)

    def edge(b, s, labs, st, env):
        mode, nb, vals = st
        for lab in labs:
            if lab["kind"] in ("variant", "variant_not") and (lab.get("adt") or "").endswith("BlockingMode") and lab.get("variant"):
                # what the mode can still be: a `matches!` followed by an `if let` narrows it in two steps
                poss = frozenset(lab["variant"].split("|"))
                mode = poss if mode is None else ((mode & poss) or poss)
            if isinstance(nb, str) and lab["kind"] == "cmp" and op_const(lab["b"]) == 0:
                sb = int(nb.split(":")[1])
                if any(r.kind == "call" and r.block == sb for r in tr.roots_of_operand(lab["a"])):
                    failed = (lab["op"] == "Lt" and lab["truth"]) or (lab["op"] == "Ge" and not lab["truth"]) or (lab["op"] == "Ne" and lab["truth"]) or (lab["op"] == "Eq" and not lab["truth"])
                    nb = False if failed else True
        return (mode, nb, vals)

    explorer.walk(0, (None, False, ()), step, edge=edge)
    R.count("recvmsg_paths[%s]" % cfg, len(seen))
    modes_seen = set()
    for (mode, nb, fv), b in sorted(seen.items(), key=repr):
        modes_seen.add(mode)
        if fv is None:
            R.violate("%s:recvmsg-flags-unresolved" % f.path, "the flags operand of recvmsg is not a resolvable constant on the path serving %s" % mode, f.path, f.loc(b), config=cfg)
            continue
        effective = bool(nb) or bool(fv & MSG_DONTWAIT)
        if mode == "Nonblocking" and not effective:
            R.violate("%s:nonblocking-path-blocks" % f.path, "on the path serving BlockingMode::Nonblocking the read is blocking (O_NONBLOCK not set, flags %#x without MSG_DONTWAIT): try_recv would block" % fv,
                      f.path, f.loc(b), config=cfg)
        elif mode in ("Blocking", "Timeout") and effective:
            R.violate("%s:%s-path-nonblocking" % (f.path, mode.lower()), "on the path serving BlockingMode::%s the read is non-blocking (%s): a blocking receive would fail with EAGAIN instead of blocking" % (
                mode, "O_NONBLOCK set" if nb else "flags %#x carry MSG_DONTWAIT" % fv), f.path, f.loc(b), config=cfg)
        elif mode is None:
            R.violate("%s:mode-not-distinguished" % f.path, "recvmsg is reached on a path that does not distinguish the blocking mode", f.path, f.loc(b), config=cfg)
        else:
            R.ok("mode %s: %s read (flags %#x%s)" % (mode, "non-blocking" if effective else "blocking", fv, ", O_NONBLOCK set" if nb else ""), f.loc(b), cfg)
    if "Nonblocking" not in modes_seen:
        R.violate("%s:no-nonblocking-path" % f.path, "no path serving BlockingMode::Nonblocking reaches recvmsg", f.path, config=cfg)


def _exit_calls(f, path):
    calls = []
    for b in path:
        t = f.term(b)
        if t["t"] == "call":
            n = strip_generics(callee_name(t))
            if n.startswith("libc::"):
                calls.append(n.split("::")[-1])
    return "after-" + (calls[-1] if calls else "entry")


# --------------------------------------------------------------------------- MODE-TABLE / FOLLOWUP-BLOCKING

RECV_NAMES = ("recv", "try_recv", "try_recv_timeout")


def _feasible_pass(f, targets):
    """(blocks on feasible paths from the entry, does every feasible path to a return pass one of `targets`) -- branch facts followed, so the arms of a
    `match mode` that an inlined helper carries for its other callers do not count"""
    ex = Explorer(f)
    feas = set()
    miss = []
    targets = set(targets)

    def step(b, st, env):
        feas.add(b)
        return True if b in targets else st

    def at_return(b, st, path):
        if not st:
            miss.append(path)
    try:
        ex.walk(0, False, step, at_return=at_return)
    except RuntimeError:
        return set(f.live_blocks()), True
    return feas, not miss


def rule_mode_table(ctx, cfg, F):
    R = ctx.rule("MODE-TABLE", "each of recv / try_recv / try_recv_timeout, at the ipc layer and at the platform layer, calls its own counterpart one layer down: "
                 "blocking, non-blocking and timeout(d) with d the caller's parameter")
    n = 0
    unix = any(p.startswith("platform::unix::") for p in F.fns)
    for f in sorted(F.fns.values(), key=lambda x: x.path):
        short = f.path.split("::")[-1]
        if short not in RECV_NAMES or f.kind == "Closure":
            continue
        base = strip_generics(f.path)
        tr = Tracer(f)
        if base.startswith("ipc::IpcReceiver::") or base.startswith("ipc::IpcBytesReceiver::"):
            n += 1
            want = "::OsIpcReceiver::" + short
            calls = [(b, t) for b, t in f.calls() if strip_generics(callee_name(t)).startswith("platform::") and "::OsIpcReceiver::" in strip_generics(callee_name(t))]
            good = [c for c in calls if strip_generics(callee_name(c[1])).endswith(want)]
            if len(calls) == 1 and good:
                ok = True
                if short == "try_recv_timeout":
                    ok = any(r.kind == "param" and r.id == 2 for r in tr.roots_of_operand(good[0][1]["args"][1]))
                if ok:
                    R.ok("%s -> %s" % (base, strip_generics(callee_name(good[0][1]))), f.loc(good[0][0]), cfg)
                else:
                    R.violate("%s:timeout-not-callers" % base, "%s does not pass its own duration down" % base, f.path, f.loc(good[0][0]), config=cfg)
            else:
                R.violate("%s:wrong-platform-call" % base, "%s calls %s instead of exactly %s" % (base, [strip_generics(callee_name(c[1])) for c in calls], want), f.path, f.loc(0), config=cfg)
        elif base.startswith("platform::unix::OsIpcReceiver::"):
            n += 1
            want = {"recv": "Blocking", "try_recv": "Nonblocking", "try_recv_timeout": "Timeout"}[short]
            calls = [(b, t) for b, t in f.calls() if strip_generics(callee_name(t)) == "platform::unix::recv"]
            if len(calls) != 1:
                R.violate("%s:no-recv-call" % base, "%s does not call the platform recv exactly once" % base, f.path, f.loc(0), config=cfg)
                continue
            b, t = calls[0]
            modes = {r.id.split("::")[-1] for r in tr.roots_of_operand(t["args"][1]) if r.kind == "agg"}
            fd_ok = any(r.kind == "param" and r.id == 1 for r in tr.roots_of_operand(t["args"][0]))
            dur_ok = True
            if want == "Timeout":
                dur_ok = any(r.kind == "param" and r.id == 2 for r in tr.roots_of_operand(t["args"][1], (("f", 0, ""),)))
            if modes == {want} and fd_ok and dur_ok:
                R.ok("%s passes BlockingMode::%s%s on its own descriptor" % (base, want, "(duration)" if want == "Timeout" else ""), f.loc(b), cfg)
            else:
                R.violate("%s:wrong-mode" % base, "%s passes mode %s (own descriptor: %s, caller's duration: %s); expected %s" % (base, sorted(modes), fd_ok, dur_ok, want), f.path, f.loc(b), config=cfg)
        elif base.startswith("platform::inprocess::OsIpcReceiver::"):
            n += 1
            want = {"recv": "crossbeam_channel::Receiver::recv", "try_recv": "crossbeam_channel::Receiver::try_recv", "try_recv_timeout": "crossbeam_channel::Receiver::recv_timeout"}[short]
            RECEIVES = ("recv", "try_recv", "recv_timeout", "recv_deadline", "iter", "try_iter")
            allc = [(b, t) for b, t in f.calls() if strip_generics(callee_name(t)).startswith("crossbeam_channel::Receiver::") and strip_generics(callee_name(t)).split("::")[-1] in RECEIVES]
            feas, every = _feasible_pass(f, [b for b, t in allc if strip_generics(callee_name(t)) == want])
            calls = [(b, t) for b, t in allc if b in feas]
            if len(calls) == 1 and strip_generics(callee_name(calls[0][1])) == want and not every:
                R.violate("%s:returns-without-receiving" % base, "%s has a path that returns without calling %s: an answer is made up from something other than the receive itself" % (base, want.split("::")[-1]),
                          f.path, f.loc(calls[0][0]), config=cfg)
            elif len(calls) == 1 and strip_generics(callee_name(calls[0][1])) == want:
                ok = True
                if short == "try_recv_timeout":
                    ok = any(r.kind == "param" and r.id == 2 for r in tr.roots_of_operand(calls[0][1]["args"][1]))
                if ok:
                    R.ok("%s -> %s" % (base, want), f.loc(calls[0][0]), cfg)
                else:
                    R.violate("%s:timeout-not-callers" % base, "%s does not pass its own duration to recv_timeout" % base, f.path, f.loc(calls[0][0]), config=cfg)
            else:
                R.violate("%s:wrong-crossbeam-call" % base, "%s calls %s; expected exactly %s" % (base, [strip_generics(callee_name(c[1])) for c in calls], want), f.path, f.loc(0), config=cfg)
    R.count("entry_points[%s]" % cfg, n)


def rule_followup_blocking(ctx, cfg, F):
    R = ctx.rule("FOLLOWUP-BLOCKING", "follow-up fragments are read with flags 0 from a descriptor that never reaches fcntl in that function: once a message is started it is finished")
    n = 0
    for f in sorted(F.fns.values(), key=lambda x: x.path):
        sites = list(f.calls_to("libc::recv"))
        if not sites:
            continue
        tr = Tracer(f)
        fcntl_roots = set()
        for b, t in f.calls_to("libc::fcntl"):
            fcntl_roots |= {r.key() for r in tr.roots_of_operand(t["args"][0])}
        for b, t in sites:
            n += 1
            flags = op_const(t["args"][3])
            fdroots = {r.key() for r in tr.roots_of_operand(t["args"][0])}
            if flags != 0:
                R.violate("%s:followup-flags" % f.path, "follow-up read uses flags %s (must be 0: blocking)" % flags, f.path, f.loc(b), config=cfg)
            elif fdroots & fcntl_roots:
                R.violate("%s:followup-fd-nonblocking" % f.path, "the follow-up descriptor is also passed to fcntl in this function", f.path, f.loc(b), config=cfg)
            else:
                R.ok("%s: follow-up read is blocking (flags 0, descriptor never passed to fcntl)" % f.path, f.loc(b), cfg)
    R.count("followup_reads[%s]" % cfg, n)
    # one receive call reads one message in the caller's mode: the receive function does not start over on the channel's own socket with a mode of its own choosing
    # (a "carry on with the next message" after an aborted one, read blocking, makes try_recv and a whole receiver set wait for a sender that may never send)
    for f in sorted(F.fns.values(), key=lambda x: x.path):
        if not any(strip_generics(callee_name(t)) == "libc::recv" for _, t in f.calls()) or not f.path.startswith("platform::unix"):
            continue
        mode_param = next((i for i in range(1, f.argc + 1) if "BlockingMode" in f.local_ty(i)), None)
        if mode_param is None:
            continue
        tr = Tracer(f)
        for b, t in f.calls():
            if strip_generics(callee_name(t)) == strip_generics(f.path) and len(t["args"]) >= 2:
                rs = tr.roots_of_operand(t["args"][mode_param - 1])
                if not (rs and all(r.kind == "param" and r.id == mode_param for r in rs)):
                    R.violate("%s:restart-in-other-mode" % f.path, "%s calls itself to read the next message with a blocking mode that is not the caller's: a non-blocking or timed receive (and select()) "
                              "then blocks until some sender happens to send" % f.path, f.path, f.loc(b), config=cfg)


# --------------------------------------------------------------------------- C12

def reassembly_fn(F):
    c = [f for f in F.fns.values() if any(strip_generics(callee_name(t)) == "libc::recv" for _, t in f.calls())]
    return c[0] if len(c) == 1 else None



def rule_msg_commit(ctx, cfg, F):
    R = ctx.rule("MSG-COMMIT", "once the first packet of a message has been read, the receive can fail only because a follow-up read itself returned 0 or < 0: every Err return "
                 "reachable after the first-packet read either passes the first read's own error on unchanged or lies behind an edge `follow-up read result == 0 / < 0`. "
                 "No timeout, mode test or other early exit abandons a message that has been started (the rest of it would be lost and the sender's send would fail)")
    g = reassembly_fn(F)
    rf = recvmsg_fn(F)
    if not g or not rf:
        R.violate("anchor-missing:reassembly", "no unique reassembly / recvmsg function", config=cfg)
        return
    tr = Tracer(g)
    first = [b for b, t in g.calls() if strip_generics(callee_name(t)) in (strip_generics(rf.path), "libc::recvmsg")]
    if g is rf:
        first = [b for b, t in g.calls_to("libc::recvmsg")]
    if len(first) != 1:
        R.violate("anchor-missing:first-packet-read", "expected one first-packet read in %s, found %d" % (g.path, len(first)), g.path, config=cfg)
        return
    cb0 = first[0]
    after_first = g.reachable(g.term(cb0)["to"]) | {cb0}
    # the return place and the locals whose value is moved into it whole (the result of an inlined phase helper returned as the tail expression)
    from rules.send import _place_class
    ret_locals = {l for (l, p_) in _place_class(g, {(0, ())}) if not p_ and g.local_ty(l) == g.local_ty(0)}
    recv_blocks = {b for b, t in g.calls_to("libc::recv")}
    ex = Explorer(g)
    bad = {}
    n_err = [0]

    def classify_ret(b):
        """how block b defines the return place: 'ok', 'err-first' (first read's error passed on), 'err-other', or None"""
        out = None
        for st in g.stmts(b):
            if st["s"] == "assign" and st["lhs"]["l"] in ret_locals and not st["lhs"].get("p") and st["rv"]["r"] == "agg" and (st["rv"]["kind"].get("adt") or "") == "std::result::Result":
                v = st["rv"]["kind"].get("variant")
                out = "ok" if v == "Ok" else "err-other"
        t = g.term(b)
        if t["t"] == "call" and t["dest"]["l"] in ret_locals and not t["dest"].get("p") and "from_residual" in strip_generics(t.get("callee") or callee_name(t)):
            # (an error produced before the first read -- the control buffer could not be allocated -- returned there and then: when a helper
            # funnels both through one `?`, only what can still be produced after the first read counts here)
            roots = [r for r in tr.roots_of_operand(t["args"][0]) if r.block is None or r.block in after_first]
            calls = {r.block for r in roots if r.kind == "call"}
            out = "err-first" if roots and calls == {cb0} and all(r.kind == "call" for r in roots) else "err-other"
        return out

    def step(b, st, env):
        last, rel_ok, ret = st
        if b in recv_blocks:
            last, rel_ok = b, False
        k = classify_ret(b)
        if k:
            ret = k
        return (last, rel_ok, ret)

    def edge(b, s, labs, st, env):
        last, rel_ok, ret = st
        if last is not None:
            for lab in labs:
                rel = relation_of_label(g, lab)
                if rel:
                    a, c, rs = rel
                    if any(r.kind == "call" and r.block == last for r in tr.roots_of_operand(a)) and _const_of(g, tr, c) == 0 and rs <= {"eq", "lt"}:
                        rel_ok = True
        return (last, rel_ok, ret)

    def at_return(b, st, path):
        last, rel_ok, ret = st
        if ret in ("err-other",):
            n_err[0] += 1
            if not rel_ok:
                bad.setdefault(_exit_calls(g, path) or "direct", path)

    ex.walk(g.term(cb0)["to"], (None, False, None), step, at_return=at_return, edge=edge)
    R.count("error_exits[%s]" % cfg, n_err[0])
    if bad:
        for k, path in sorted(bad.items()):
            R.violate("%s:message-abandoned:%s" % (g.path, k), "an Err return is reachable after the first packet was read without a follow-up read having returned 0 or < 0 (exit via %s): "
                      "a message that was started is abandoned" % k, g.path, g.loc(path[-1]), path="bb" + "->bb".join(map(str, path[-14:])), config=cfg)
    else:
        R.ok("%s: every error exit after the first-packet read is behind a failed follow-up read (%d exits)" % (g.path, n_err[0]), g.loc(cb0), cfg)


def rule_trunc_err(ctx, cfg, F):
    R = ctx.rule("TRUNC-ERR", "in the reassembly function no Ok return is reachable from a follow-up read that returned 0 or < 0, and every Ok return is "
                 "preceded by an edge establishing received length >= announced total (equality on the fast path, failed `len < total` on the loop exit)")
    f = reassembly_fn(F)
    if not f:
        R.violate("anchor-missing:reassembly", "no unique function calls libc::recv", config=cfg)
        return
    tr = Tracer(f)
    recv_blocks = {b for b, t in f.calls_to("libc::recv")}
    ex = Explorer(f)
    problems = {}
    n_ok = [0]
    # the payload buffer: Vec<u8> locals
    bufs = {i for i, l in enumerate(f.locals) if l["t"] == "std::vec::Vec<u8>"}

    def is_len_of_buf(op):
        for r in tr.roots_of_operand(op):
            if r.kind == "call" and r.id in ("std::vec::Vec::len",):
                lt = f.term(r.block)
                if _root_local(f, tr, lt["args"][0]) in bufs:
                    return True
                if (lt.get("generics") or [""])[0] == "u8":
                    return True         # the payload buffer held in a struct field (`self.data.len()`)
        return False

    def is_recv_res(op):
        return any(r.kind == "call" and r.block in recv_blocks for r in tr.roots_of_operand(op))

    def step(b, st, env):
        rel, complete, okc = st
        if b in recv_blocks:
            rel, complete = "pending", False
        t = f.term(b)
        if t["t"] == "call" and strip_generics(callee_name(t)) == "std::vec::Vec::set_len":
            complete = False
        for s in f.stmts(b):
            if s["s"] == "assign" and s["lhs"]["l"] == 0 and not s["lhs"].get("p") and s["rv"]["r"] == "agg":
                okc = s["rv"]["kind"].get("variant") == "Ok"
        if t["t"] == "return" and okc:
            n_ok[0] += 1
            if rel in ("lt", "eq", "le"):
                return ("BAD-short", rel, okc)
            if not complete:
                return ("BAD-incomplete", rel, okc)
        return (rel, complete, okc)

    def edge(b, s, labs, st, env):
        rel, complete, okc = st
        if isinstance(rel, str) and rel.startswith("BAD"):
            return st
        for lab in labs:
            r = relation_of_label(f, lab)
            if not r:
                continue
            a, c, rs = r
            tr_c = _const_of(f, tr, c)
            if is_recv_res(a) and tr_c == 0:
                if rs == {"gt"}:
                    rel = "gt"
                elif rs <= {"lt", "eq"}:
                    rel = "eq" if rs == {"eq"} else ("lt" if rs == {"lt"} else "le")
            # completeness: len(buf) vs total
            if is_len_of_buf(a) and not is_len_of_buf(c) and op_const(c) is None:
                if rs <= {"eq", "gt"}:
                    complete = True
            elif is_len_of_buf(c) and not is_len_of_buf(a) and op_const(a) is None:
                if rs <= {"eq", "lt"}:
                    complete = True
        return (rel, complete, okc)

    def at_return(b, st, path):
        if isinstance(st[0], str) and st[0].startswith("BAD"):
            problems.setdefault(st[0], (path, st[1]))
    ex.walk(0, (None, False, False), step, at_return=at_return, edge=edge)
    if "BAD-short" in problems:
        p, rel = problems["BAD-short"]
        R.violate("%s:ok-after-short-read" % f.path, "an Ok return is reachable after a follow-up read that returned %s: a shortened payload would be presented as a complete message" % {"eq": "0", "lt": "< 0", "le": "<= 0"}[rel],
                  f.path, f.loc(p[-1]), path="bb" + "->bb".join(map(str, p[-14:])), config=cfg)
    if "BAD-incomplete" in problems:
        p, rel = problems["BAD-incomplete"]
        R.violate("%s:ok-without-length-check" % f.path, "an Ok return is reachable without an edge establishing that the received length reached the announced total",
                  f.path, f.loc(p[-1]), path="bb" + "->bb".join(map(str, p[-14:])), config=cfg)
    if not problems:
        R.ok("%s: no Ok after a short/failed follow-up read; every Ok follows a length >= total edge" % f.path, f.loc(0), cfg)
    R.count("followup_reads[%s]" % cfg, len(recv_blocks))


def rule_closed_origin(ctx, cfg, F):
    R = ctx.rule("CLOSED-ORIGIN", "the closed variant is constructed only on the zero-length edge of a read on the function's own channel descriptor "
                 "(its parameter), never on a read from a per-message descriptor")
    err = platform_error_adt(F)
    n = 0
    for f in sorted(F.fns.values(), key=lambda x: x.path):
        if not f.path.startswith("platform::unix"):
            continue
        if f.impl_trait in ("std::convert::From",):
            continue   # conversions between error types, not origins
        ctor_blocks = []
        for b in sorted(f.live_blocks()):
            if f.is_cleanup(b):
                continue
            for si, st in enumerate(f.stmts(b)):
                if st["s"] == "assign" and st["rv"]["r"] == "agg" and st["rv"]["kind"].get("adt") == err and st["rv"]["kind"].get("variant") in CLOSED_VARIANTS:
                    ctor_blocks.append((b, si))
        if not ctor_blocks:
            continue
        tr = Tracer(f)
        reads = [(b, t) for b, t in f.calls() if strip_generics(callee_name(t)) in ("libc::recvmsg", "libc::recv", "libc::read")]
        for (cb, si) in ctor_blocks:
            n += 1
            # which read's zero edge dominates this construction?
            doms = [(b, t) for b, t in reads if f.dominates(b, cb)]
            if not doms:
                R.violate("%s:closed-without-read" % f.path, "the closed variant is constructed with no read dominating it", f.path, f.loc(cb, si), config=cfg)
                continue
            b, t = max(doms, key=lambda bt: len(f.dominators()[bt[0]]))
            own = any(r.kind == "param" and not r.field_names() for r in tr.roots_of_operand(t["args"][0]))
            callee = strip_generics(callee_name(t)).split("::")[-1]
            if own:
                R.ok("%s: closed constructed after %s on the function's own descriptor parameter" % (f.path, callee), f.loc(cb, si), cfg)
            else:
                R.violate("%s:libc::%s==0" % (f.path, callee),
                          "the closed variant is constructed on a zero-length read from a per-message descriptor (%s on %s): if a sender dies in the middle of a multi-fragment "
                          "message the receiver reports the whole channel as closed although other senders may survive" % (callee, sorted(map(repr, tr.roots_of_operand(t["args"][0])))[:2]),
                          f.path, f.loc(cb, si), config=cfg)
    # the other wrong classification of the same edge: a per-message descriptor's end-of-stream reported as an I/O error value.
    # The receiver set passes I/O errors up as the failure of select() itself, and the router treats that as fatal for every route.
    for f in sorted(F.fns.values(), key=lambda x: x.path):
        if not f.path.startswith("platform::unix"):
            continue
        tr = Tracer(f)
        for b, t in f.calls_to("libc::recv"):
            if any(r.kind == "param" and not r.field_names() for r in tr.roots_of_operand(t["args"][0])):
                continue
            for facts, rb, path in _result_relations(f, b):
                rels = {x[1] for x in facts if x[0] == "rel"}
                if rels != {"eq"}:
                    continue
                ctors = {x[1] for x in facts if x[0] == "ctor"}
                if any(c.endswith("UnixError::Errno") or c.endswith("::Errno") for c in ctors) and not any(c.split("::")[-1] in CLOSED_VARIANTS for c in ctors):
                    R.violate("%s:libc::recv==0:as-io-error" % f.path, "the end of a per-message descriptor's stream (sender died mid-message) is reported as an I/O error value: "
                              "a receiver set returns it as the failure of select() and the router stops serving every route", f.path, f.loc(rb), config=cfg)
                    break
    R.count("closed_constructions[%s]" % cfg, n)


def rule_recv_keeps_fd(ctx, cfg, F):
    R = ctx.rule("RECV-KEEPS-FD", "receiving does not give the descriptor away: the receive methods of the platform receiver (recv, try_recv, try_recv_timeout), which take `&self`, neither move the "
                 "descriptor out of the receiver (consume_fd / Cell::take / replace / set on its fd) nor close it -- a receiver that has reported 'disconnected' or 'empty' is the same "
                 "receiver afterwards and keeps giving the same answer")
    n = 0
    for name in ("recv", "try_recv", "try_recv_timeout"):
        f = F.fns.get("platform::unix::OsIpcReceiver::" + name)
        if not f:
            continue
        n += 1
        tr = Tracer(f)
        bad = None
        for b, t in f.calls():
            nm = strip_generics(callee_name(t))
            if nm.endswith("OsIpcReceiver::consume_fd") or nm in ("libc::close",):
                bad = (b, nm)
            if nm in ("std::cell::Cell::set", "std::cell::Cell::replace", "std::cell::Cell::take", "std::mem::replace", "std::mem::take") and t["args"]:
                if any(r.kind == "param" and r.id == 1 and r.field_names()[:1] == ("fd",) for r in tr.roots_of_operand(t["args"][0])):
                    bad = (b, nm)
        if bad:
            R.violate("%s:receive-gives-descriptor-away" % f.path, "%s (a `&self` receive) calls %s on the receiver's descriptor: after a receive that reported the channel closed the receiver holds no "
                      "descriptor any more, and the next receive fails with EBADF instead of reporting disconnection again" % (f.path, bad[1]), f.path, f.loc(bad[0]), config=cfg)
        else:
            R.ok("%s leaves the receiver's descriptor where it is" % f.path, f.loc(0), cfg)
    R.count("receive_methods[%s]" % cfg, n)
