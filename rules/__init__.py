"""Property registry: property id -> (function(ctx), level text)."""
import importlib

PROPS = ["C%02d" % i for i in range(1, 21)]


def get(prop):
    mod = importlib.import_module("rules.props")
    return getattr(mod, "check_" + prop), getattr(mod, "LEVEL")[prop]
