#![feature(rustc_private)]
extern crate rustc_abi;
extern crate rustc_driver;
extern crate rustc_hir;
extern crate rustc_interface;
extern crate rustc_middle;
extern crate rustc_span;

use rustc_driver::Compilation;
use rustc_hir::def::DefKind;
use rustc_hir::def_id::DefId;
use rustc_middle::mir::{self, Body, Operand, Place, ProjectionElem, Rvalue, StatementKind, TerminatorKind, AggregateKind, Const};
use rustc_middle::ty::{self, Instance, Ty, TyCtxt, TypingEnv};
use std::fmt::Write as _;

fn js(s: &str) -> String {
    let mut o = String::with_capacity(s.len() + 2);
    o.push('"');
    for c in s.chars() {
        match c {
            '"' => o.push_str("\\\""),
            '\\' => o.push_str("\\\\"),
            '\n' => o.push_str("\\n"),
            '\t' => o.push_str("\\t"),
            c if (c as u32) < 0x20 => { let _ = write!(o, "\\u{:04x}", c as u32); }
            c => o.push(c),
        }
    }
    o.push('"');
    o
}

struct Cx<'tcx> { tcx: TyCtxt<'tcx>, owner: DefId }

impl<'tcx> Cx<'tcx> {
    fn ty_adt_path(&self, t: Ty<'tcx>) -> String {
        match t.peel_refs().kind() {
            ty::Adt(d, _) => self.tcx.def_path_str(d.did()),
            _ => String::new(),
        }
    }
    fn place(&self, body: &Body<'tcx>, p: &Place<'tcx>) -> String {
        let mut s = format!("{{\"l\":{}", p.local.as_u32());
        if !p.projection.is_empty() {
            s.push_str(",\"p\":[");
            let mut cur = mir::PlaceTy::from_ty(body.local_decls[p.local].ty);
            for (i, e) in p.projection.iter().enumerate() {
                if i > 0 { s.push(','); }
                match e {
                    ProjectionElem::Deref => s.push_str("\"*\""),
                    ProjectionElem::Field(f, fty) => {
                        let mut name = String::new();
                        if let ty::Adt(d, _) = cur.ty.kind() {
                            let v = match cur.variant_index { Some(v) => d.variant(v), None if d.is_struct() || d.is_union() => d.non_enum_variant(), None => d.variant(rustc_abi::VariantIdx::from_u32(0)) };
                            if let Some(fd) = v.fields.get(f) { name = fd.name.to_string(); }
                        }
                        let _ = write!(s, "{{\"f\":{},\"n\":{},\"t\":{}}}", f.as_u32(), js(&name), js(&fty.to_string()));
                    }
                    ProjectionElem::Downcast(name, vi) => { let _ = write!(s, "{{\"v\":{},\"n\":{}}}", vi.as_u32(), js(&name.map(|n| n.to_string()).unwrap_or_default())); }
                    ProjectionElem::Index(l) => { let _ = write!(s, "{{\"i\":{}}}", l.as_u32()); }
                    ProjectionElem::ConstantIndex { offset, from_end, .. } => { let _ = write!(s, "{{\"ci\":{},\"e\":{}}}", offset, from_end); }
                    other => { let _ = write!(s, "{{\"o\":{}}}", js(&format!("{:?}", other))); }
                }
                cur = cur.projection_ty(self.tcx, e);
            }
            s.push(']');
        }
        s.push('}');
        s
    }
    fn konst(&self, c: &mir::ConstOperand<'tcx>) -> String {
        let ty = c.const_.ty();
        let mut s = format!("{{\"k\":\"c\",\"t\":{}", js(&ty.to_string()));
        match ty.kind() {
            ty::FnDef(did, _) => { let _ = write!(s, ",\"fn\":{}", js(&self.tcx.def_path_str(*did))); }
            ty::Closure(did, _) => { let _ = write!(s, ",\"closure\":{}", js(&self.tcx.def_path_str(*did))); }
            _ => {}
        }
        let env = TypingEnv::post_analysis(self.tcx, self.owner);
        if ty.is_integral() || ty.is_bool() || ty.is_char() {
            if let Some(v) = c.const_.try_eval_scalar_int(self.tcx, env) {
                let size = v.size();
                let bits = v.to_bits(size);
                let val: i128 = if ty.is_signed() { size.sign_extend(bits) as i128 } else { bits as i128 };
                let _ = write!(s, ",\"v\":{}", val);
            }
        }
        if let ty::Ref(_, inner, _) = ty.kind() {
            let is_c_like_enum = matches!(inner.kind(), ty::Adt(d, _) if d.is_enum() && d.variants().iter().all(|v| v.fields.is_empty()));
            if inner.is_integral() || inner.is_bool() || is_c_like_enum {
                if let Ok(v) = c.const_.eval(self.tcx, env, c.span) {
                    if let mir::ConstValue::Scalar(rustc_middle::mir::interpret::Scalar::Ptr(ptr, _)) = v {
                        let (prov, off) = ptr.into_raw_parts();
                        if let Some(rustc_middle::mir::interpret::GlobalAlloc::Memory(a)) = self.tcx.try_get_global_alloc(prov.alloc_id()) {
                            let alloc = a.inner();
                            if let Ok(layout) = self.tcx.layout_of(env.as_query_input(*inner)) {
                                let size = layout.size.bytes() as usize;
                                let start = off.bytes() as usize;
                                if start + size <= alloc.len() {
                                    let bytes = alloc.inspect_with_uninit_and_ptr_outside_interpreter(start..start + size);
                                    let mut raw: u128 = 0;
                                    for (i, b) in bytes.iter().enumerate() { raw |= (*b as u128) << (8 * i); }
                                    let val: i128 = if inner.is_signed() { rustc_abi::Size::from_bytes(size as u64).sign_extend(raw) as i128 } else { raw as i128 };
                                    let _ = write!(s, ",\"pv\":{}", val);
                                    if let ty::Adt(d, _) = inner.kind() {
                                        if d.is_enum() {
                                            for (vi, discr) in d.discriminants(self.tcx) {
                                                if discr.val == raw { let _ = write!(s, ",\"pvariant\":{}", js(&d.variant(vi).name.to_string())); }
                                            }
                                        }
                                    }
                                }
                            }
                        }
                    }
                }
            }
        }
        // a promoted array of integers (`[EAGAIN, EWOULDBLOCK].contains(&code)`): its elements
        if let ty::Ref(_, inner, _) = ty.kind() {
            if let ty::Array(elem, len) = inner.kind() {
                if elem.is_integral() {
                    if let (Some(n), Ok(v)) = (len.try_to_target_usize(self.tcx), c.const_.eval(self.tcx, env, c.span)) {
                        if let mir::ConstValue::Scalar(rustc_middle::mir::interpret::Scalar::Ptr(ptr, _)) = v {
                            let (prov, off) = ptr.into_raw_parts();
                            if let Some(rustc_middle::mir::interpret::GlobalAlloc::Memory(a)) = self.tcx.try_get_global_alloc(prov.alloc_id()) {
                                let alloc = a.inner();
                                if let Ok(layout) = self.tcx.layout_of(env.as_query_input(*elem)) {
                                    let size = layout.size.bytes() as usize;
                                    let start = off.bytes() as usize;
                                    let n = n as usize;
                                    if n <= 64 && size > 0 && start + size * n <= alloc.len() {
                                        let mut items: Vec<String> = Vec::new();
                                        for k in 0..n {
                                            let bytes = alloc.inspect_with_uninit_and_ptr_outside_interpreter(start + k * size..start + (k + 1) * size);
                                            let mut raw: u128 = 0;
                                            for (i, b) in bytes.iter().enumerate() { raw |= (*b as u128) << (8 * i); }
                                            let val: i128 = if elem.is_signed() { rustc_abi::Size::from_bytes(size as u64).sign_extend(raw) as i128 } else { raw as i128 };
                                            items.push(val.to_string());
                                        }
                                        let _ = write!(s, ",\"pa\":[{}]", items.join(","));
                                    }
                                }
                            }
                        }
                    }
                }
            }
        }
        if let Const::Unevaluated(u, _) = c.const_ { let _ = write!(s, ",\"path\":{}", js(&self.tcx.def_path_str(u.def))); }
        if let Const::Val(..) = c.const_ {
            // static refs show up as pointers to allocs
            if let Some(did) = c.check_static_ptr(self.tcx) { let _ = write!(s, ",\"static\":{}", js(&self.tcx.def_path_str(did))); }
        }
        let _ = write!(s, ",\"s\":{}", js(&format!("{}", c.const_)));
        s.push('}');
        s
    }
    fn operand(&self, body: &Body<'tcx>, o: &Operand<'tcx>) -> String {
        match o {
            Operand::Copy(p) => format!("{{\"k\":\"cp\",\"pl\":{}}}", self.place(body, p)),
            Operand::Move(p) => format!("{{\"k\":\"mv\",\"pl\":{}}}", self.place(body, p)),
            Operand::Constant(c) => self.konst(c),
            #[allow(unreachable_patterns)]
            _ => format!("{{\"k\":\"?\",\"s\":{}}}", js(&format!("{:?}", o))),
        }
    }
    fn rvalue(&self, body: &Body<'tcx>, r: &Rvalue<'tcx>) -> String {
        match r {
            Rvalue::Use(o, ..) => format!("{{\"r\":\"use\",\"a\":[{}]}}", self.operand(body, o)),
            Rvalue::Ref(_, bk, p) => format!("{{\"r\":\"ref\",\"m\":{},\"pl\":{}}}", js(&format!("{:?}", bk)), self.place(body, p)),
            Rvalue::RawPtr(k, p) => format!("{{\"r\":\"raw\",\"m\":{},\"pl\":{}}}", js(&format!("{:?}", k)), self.place(body, p)),
            Rvalue::BinaryOp(op, ab) => format!("{{\"r\":\"bin\",\"op\":{},\"a\":[{},{}]}}", js(&format!("{:?}", op)), self.operand(body, &ab.0), self.operand(body, &ab.1)),
            Rvalue::UnaryOp(op, a) => format!("{{\"r\":\"un\",\"op\":{},\"a\":[{}]}}", js(&format!("{:?}", op)), self.operand(body, a)),
            Rvalue::Cast(k, a, t) => format!("{{\"r\":\"cast\",\"ck\":{},\"a\":[{}],\"t\":{}}}", js(&format!("{:?}", k)), self.operand(body, a), js(&t.to_string())),
            Rvalue::Discriminant(p) => format!("{{\"r\":\"discr\",\"pl\":{},\"adt\":{}}}", self.place(body, p), js(&self.ty_adt_path(p.ty(&body.local_decls, self.tcx).ty))),
            Rvalue::Aggregate(k, ops) => {
                let kind = match &**k {
                    AggregateKind::Adt(did, vi, ..) => { let d = self.tcx.adt_def(*did); format!("{{\"adt\":{},\"variant\":{},\"vi\":{}}}", js(&self.tcx.def_path_str(*did)), js(&d.variant(*vi).name.to_string()), vi.as_u32()) }
                    AggregateKind::Closure(did, _) => format!("{{\"closure\":{}}}", js(&self.tcx.def_path_str(*did))),
                    AggregateKind::Tuple => "{\"tuple\":1}".to_string(),
                    AggregateKind::Array(_) => "{\"array\":1}".to_string(),
                    other => format!("{{\"other\":{}}}", js(&format!("{:?}", other))),
                };
                let a: Vec<String> = ops.iter().map(|o| self.operand(body, o)).collect();
                format!("{{\"r\":\"agg\",\"kind\":{},\"a\":[{}]}}", kind, a.join(","))
            }
            Rvalue::ThreadLocalRef(did) => format!("{{\"r\":\"tls\",\"path\":{}}}", js(&self.tcx.def_path_str(*did))),
            Rvalue::CopyForDeref(p) => format!("{{\"r\":\"use\",\"a\":[{{\"k\":\"cp\",\"pl\":{}}}]}}", self.place(body, p)),
            Rvalue::Repeat(o, _) => format!("{{\"r\":\"repeat\",\"a\":[{}]}}", self.operand(body, o)),
            other => format!("{{\"r\":\"other\",\"s\":{}}}", js(&format!("{:?}", other))),
        }
    }
    fn line(&self, sp: rustc_span::Span) -> (String, usize, bool) {
        let sm = self.tcx.sess.source_map();
        let lo = sm.lookup_char_pos(sp.lo());
        (format!("{}", lo.file.name.prefer_local_unconditionally()), lo.line, sp.from_expansion())
    }
    fn body(&self, did: DefId, body: &Body<'tcx>) -> String {
        let tcx = self.tcx;
        let mut s = String::new();
        let (file, line, _) = self.line(body.span);
        let _ = write!(s, "{{\"path\":{},\"kind\":{},\"file\":{},\"line\":{},\"argc\":{}", js(&tcx.def_path_str(did)), js(&format!("{:?}", tcx.def_kind(did))), js(&file), line, body.arg_count);
        if matches!(tcx.def_kind(did), DefKind::Fn | DefKind::AssocFn) {
            let sig = tcx.fn_sig(did).instantiate_identity().skip_norm_wip();
            let _ = write!(s, ",\"vis\":{},\"unsafe\":{}", js(&format!("{:?}", tcx.visibility(did))), !sig.safety().is_safe());
        }
        {
            let sm = tcx.sess.source_map();
            let hi = sm.lookup_char_pos(body.span.hi());
            let _ = write!(s, ",\"line_end\":{}", hi.line);
        }
        if matches!(tcx.def_kind(did), DefKind::Fn | DefKind::AssocFn) {
            // names of the generic parameters in the order call sites list their arguments (parent generics first)
            let g = tcx.generics_of(did);
            let names: Vec<String> = (0..g.count()).map(|i| js(&g.param_at(i, tcx).name.to_string())).collect();
            let _ = write!(s, ",\"gparams\":[{}]", names.join(","));
        }
        if let Some(p) = tcx.opt_parent(did) { let _ = write!(s, ",\"parent\":{}", js(&tcx.def_path_str(p))); }
        if let Some(imp) = tcx.impl_of_assoc(did) {
            let _ = write!(s, ",\"impl_self\":{}", js(&tcx.type_of(imp).instantiate_identity().skip_norm_wip().to_string()));
            if let Some(tr) = tcx.impl_opt_trait_ref(imp) { let _ = write!(s, ",\"impl_trait\":{}", js(&tcx.def_path_str(tr.skip_binder().def_id))); }
        }
        s.push_str(",\"locals\":[");
        for (i, (l, d)) in body.local_decls.iter_enumerated().enumerate() {
            if i > 0 { s.push(','); }
            let _ = write!(s, "{{\"i\":{},\"t\":{},\"adt\":{}}}", l.as_u32(), js(&d.ty.to_string()), js(&self.ty_adt_path(d.ty)));
        }
        s.push_str("],\"names\":{");
        let mut first = true;
        for v in &body.var_debug_info {
            if let mir::VarDebugInfoContents::Place(p) = v.value { if p.projection.is_empty() { if !first { s.push(','); } first = false; let _ = write!(s, "{}:{}", js(&p.local.as_u32().to_string()), js(&v.name.to_string())); } }
        }
        s.push_str("},\"blocks\":[");
        for (bi, (bb, data)) in body.basic_blocks.iter_enumerated().enumerate() {
            if bi > 0 { s.push(','); }
            let _ = write!(s, "{{\"b\":{},\"cleanup\":{},\"st\":[", bb.as_u32(), data.is_cleanup);
            let mut firsts = true;
            for st in &data.statements {
                let (_, ln, exp) = self.line(st.source_info.span);
                let txt = match &st.kind {
                    StatementKind::Assign(b) => format!("{{\"s\":\"assign\",\"lhs\":{},\"rv\":{},\"ln\":{},\"x\":{}}}", self.place(body, &b.0), self.rvalue(body, &b.1), ln, exp),
                    StatementKind::SetDiscriminant { place, variant_index } => format!("{{\"s\":\"setdiscr\",\"lhs\":{},\"vi\":{},\"ln\":{}}}", self.place(body, place), variant_index.as_u32(), ln),
                    StatementKind::StorageLive(_) | StatementKind::StorageDead(_) | StatementKind::Nop | StatementKind::FakeRead(..) | StatementKind::AscribeUserType(..) | StatementKind::Coverage(..) | StatementKind::PlaceMention(..) | StatementKind::ConstEvalCounter | StatementKind::BackwardIncompatibleDropHint { .. } => continue,
                    other => format!("{{\"s\":\"other\",\"txt\":{},\"ln\":{}}}", js(&format!("{:?}", other)), ln),
                };
                if !firsts { s.push(','); } firsts = false;
                s.push_str(&txt);
            }
            s.push_str("],\"term\":");
            let term = data.terminator();
            let (_, ln, exp) = self.line(term.source_info.span);
            let t = match &term.kind {
                TerminatorKind::Goto { target } => format!("{{\"t\":\"goto\",\"to\":{}}}", target.as_u32()),
                TerminatorKind::SwitchInt { discr, targets } => {
                    let arms: Vec<String> = targets.iter().map(|(v, b)| format!("[{},{}]", v, b.as_u32())).collect();
                    format!("{{\"t\":\"switch\",\"on\":{},\"arms\":[{}],\"otherwise\":{},\"ln\":{}}}", self.operand(body, discr), arms.join(","), targets.otherwise().as_u32(), ln)
                }
                TerminatorKind::Call { func, args, destination, target, unwind, .. } => {
                    let fty = func.ty(&body.local_decls, tcx);
                    let mut c = String::from("{\"t\":\"call\"");
                    if let ty::FnDef(cdid, cargs) = fty.kind() {
                        let env = TypingEnv::post_analysis(tcx, did);
                        let res = Instance::try_resolve(tcx, env, *cdid, cargs).ok().flatten();
                        let _ = write!(c, ",\"callee\":{},\"foreign\":{},\"local\":{},\"krate\":{}", js(&tcx.def_path_str(*cdid)), tcx.is_foreign_item(*cdid), cdid.is_local(), js(tcx.crate_name(cdid.krate).as_str()));
                        if let Some(i) = res {
                            let _ = write!(c, ",\"resolved\":{},\"resolved_local\":{}", js(&tcx.def_path_str(i.def_id())), i.def_id().is_local());
                            if i.def_id() != *cdid {
                                // a trait call resolved to an impl method: that method's own type arguments (the impl's parameters first)
                                let ra: Vec<String> = i.args.iter().map(|a| js(&a.to_string())).collect();
                                let _ = write!(c, ",\"resolved_generics\":[{}]", ra.join(","));
                            }
                        }
                        let ga: Vec<String> = cargs.iter().map(|a| js(&a.to_string())).collect();
                        let _ = write!(c, ",\"generics\":[{}]", ga.join(","));
                    } else {
                        let _ = write!(c, ",\"indirect\":{}", self.operand(body, func));
                    }
                    let a: Vec<String> = args.iter().map(|a| self.operand(body, &a.node)).collect();
                    let _ = write!(c, ",\"args\":[{}],\"dest\":{},\"to\":{},\"unwind\":{},\"ln\":{},\"x\":{}}}", a.join(","), self.place(body, destination), target.map(|t| t.as_u32() as i64).unwrap_or(-1), js(&format!("{:?}", unwind)), ln, exp);
                    c
                }
                TerminatorKind::Drop { place, target, unwind, .. } => format!("{{\"t\":\"drop\",\"pl\":{},\"ty\":{},\"adt\":{},\"to\":{},\"unwind\":{},\"ln\":{}}}", self.place(body, place), js(&place.ty(&body.local_decls, tcx).ty.to_string()), js(&self.ty_adt_path(place.ty(&body.local_decls, tcx).ty)), target.as_u32(), js(&format!("{:?}", unwind)), ln),
                TerminatorKind::Assert { cond, expected, msg, target, .. } => format!("{{\"t\":\"assert\",\"cond\":{},\"expected\":{},\"msg\":{},\"to\":{},\"ln\":{}}}", self.operand(body, cond), expected, js(&format!("{:?}", msg).chars().take(40).collect::<String>()), target.as_u32(), ln),
                TerminatorKind::Return => format!("{{\"t\":\"return\",\"ln\":{}}}", ln),
                TerminatorKind::Unreachable => "{\"t\":\"unreachable\"}".to_string(),
                TerminatorKind::UnwindResume => "{\"t\":\"resume\"}".to_string(),
                other => format!("{{\"t\":\"other\",\"txt\":{}}}", js(&format!("{:?}", other).chars().take(80).collect::<String>())),
            };
            s.push_str(&t);
            s.push('}');
        }
        s.push_str("]}");
        s
    }
}

struct Cb;
impl rustc_driver::Callbacks for Cb {
    fn after_analysis<'tcx>(&mut self, _c: &rustc_interface::interface::Compiler, tcx: TyCtxt<'tcx>) -> Compilation {
        let krate = tcx.crate_name(rustc_span::def_id::LOCAL_CRATE);
        if krate.as_str() != "ipc_channel" { return Compilation::Continue; }
        let out = match std::env::var("IPCV_OUT") { Ok(o) => o, Err(_) => return Compilation::Continue };
        let mut doc = String::from("{\"fns\":[");
        let mut first = true;
        for ldid in tcx.mir_keys(()) {
            let did = ldid.to_def_id();
            let kind = tcx.def_kind(did);
            if !matches!(kind, DefKind::Fn | DefKind::AssocFn | DefKind::Closure) { continue; }
            let body = tcx.optimized_mir(did);
            let cx = Cx { tcx, owner: did };
            if !first { doc.push(','); } first = false;
            doc.push_str(&cx.body(did, body));
        }
        doc.push_str("],\"adts\":[");
        let mut first = true;
        for id in tcx.hir_free_items() {
            let did = id.owner_id.to_def_id();
            if !matches!(tcx.def_kind(did), DefKind::Struct | DefKind::Enum | DefKind::Union) { continue; }
            let adt = tcx.adt_def(did);
            if !first { doc.push(','); } first = false;
            let _ = write!(doc, "{{\"path\":{},\"variants\":[", js(&tcx.def_path_str(did)));
            for (vi, v) in adt.variants().iter_enumerated() {
                if vi.as_u32() > 0 { doc.push(','); }
                let fs: Vec<String> = v.fields.iter().map(|f| format!("{{\"n\":{},\"t\":{}}}", js(&f.name.to_string()), js(&tcx.type_of(f.did).instantiate_identity().skip_norm_wip().to_string()))).collect();
                let _ = write!(doc, "{{\"n\":{},\"fields\":[{}]}}", js(&v.name.to_string()), fs.join(","));
            }
            let dtor = adt.destructor(tcx).map(|d| tcx.def_path_str(d.did)).unwrap_or_default();
            let _ = write!(doc, "],\"drop\":{}}}", js(&dtor));
        }
        doc.push_str("],\"impls\":[");
        let mut first = true;
        for id in tcx.hir_free_items() {
            let did = id.owner_id.to_def_id();
            if !matches!(tcx.def_kind(did), DefKind::Impl { .. }) { continue; }
            let self_ty = tcx.type_of(did).instantiate_identity().skip_norm_wip();
            let tr = tcx.impl_opt_trait_ref(did).map(|t| tcx.def_path_str(t.skip_binder().def_id)).unwrap_or_default();
            let (file, line, exp) = { let sp = tcx.def_span(did); let sm = tcx.sess.source_map(); let lo = sm.lookup_char_pos(sp.lo()); (format!("{}", lo.file.name.prefer_local_unconditionally()), lo.line, sp.from_expansion()) };
            let methods: Vec<String> = tcx.associated_item_def_ids(did).iter().map(|m| js(&tcx.def_path_str(*m))).collect();
            if !first { doc.push(','); } first = false;
            let _ = write!(doc, "{{\"self\":{},\"self_adt\":{},\"trait\":{},\"file\":{},\"line\":{},\"x\":{},\"items\":[{}]}}", js(&self_ty.to_string()), js(&match self_ty.kind() { ty::Adt(d, _) => tcx.def_path_str(d.did()), _ => String::new() }), js(&tr), js(&file), line, exp, methods.join(","));
        }
        doc.push_str("],\"consts\":[");
        let mut first = true;
        for id in tcx.hir_free_items() {
            let did = id.owner_id.to_def_id();
            let kind = tcx.def_kind(did);
            if !matches!(kind, DefKind::Const { .. } | DefKind::Static { .. }) { continue; }
            let t = tcx.type_of(did).instantiate_identity().skip_norm_wip();
            let mut val = String::from("null");
            if matches!(kind, DefKind::Const { .. }) && (t.is_integral() || t.is_bool()) {
                if let Ok(v) = tcx.const_eval_poly(did) {
                    if let Some(sc) = v.try_to_scalar_int() {
                        let size = sc.size();
                        let bits = sc.to_bits(size);
                        let x: i128 = if t.is_signed() { size.sign_extend(bits) as i128 } else { bits as i128 };
                        val = x.to_string();
                    }
                }
            }
            if !first { doc.push(','); } first = false;
            let _ = write!(doc, "{{\"path\":{},\"kind\":{},\"t\":{},\"v\":{}}}", js(&tcx.def_path_str(did)), js(&format!("{:?}", kind)), js(&t.to_string()), val);
        }
        doc.push_str("],\"traits\":[");
        let mut first = true;
        for id in tcx.hir_free_items() {
            let did = id.owner_id.to_def_id();
            if !matches!(tcx.def_kind(did), DefKind::Trait) { continue; }
            if !first { doc.push(','); } first = false;
            doc.push_str(&js(&tcx.def_path_str(did)));
        }
        doc.push_str("],\"mods\":[");
        let mut first = true;
        for id in tcx.hir_free_items() {
            let did = id.owner_id.to_def_id();
            if !matches!(tcx.def_kind(did), DefKind::Mod) { continue; }
            if !first { doc.push(','); } first = false;
            doc.push_str(&js(&tcx.def_path_str(did)));
        }
        doc.push_str("]}");
        std::fs::write(&out, doc).expect("write facts");
        Compilation::Continue
    }
}

fn main() {
    let mut args: Vec<String> = std::env::args().collect();
    args.remove(1);
    rustc_driver::run_compiler(&args, &mut Cb);
}
