"""C19: BUILD-ALL, SURFACE-PARITY (ERR-MAP parity is rules/recv.py evaluated per backend)."""
import re
from vlib.mir import strip_generics

EXPORTED = ["OsIpcChannel", "OsIpcOneShotServer", "OsIpcReceiver", "OsIpcReceiverSet", "OsIpcSelectionResult", "OsIpcSender", "OsIpcSharedMemory", "OsOpaqueIpcChannel"]
TRAITS = ("std::clone::Clone", "std::cmp::PartialEq", "std::fmt::Debug", "std::ops::Deref", "std::marker::Send", "std::marker::Sync", "std::ops::Drop")


def rule_build_all(ctx, configs):
    R = ctx.rule("BUILD-ALL", "every Linux feature configuration (default, memfd, force-inprocess, async, async+force-inprocess; thorough tier: all eight combinations of memfd/async/force-inprocess) type-checks against the same ipc/router/asynch layers")
    for c in configs:
        try:
            F = ctx.F(c)
            R.ok("%s type-checks (%d function bodies)" % (c, len(F.fns)), None, c)
        except Exception:
            msg, log = ctx.unavailable.get(c, ("?", ""))
            first = next((l for l in log.splitlines() if l.startswith("error")), msg)
            R.violate("%s:does-not-compile" % c, "configuration %s does not compile: %s" % (c, first[:200]), config=c)
    R.count("configurations", len(configs))


def _norm(t, backend):
    t = t.replace("platform::%s::" % backend, "P::")
    t = re.sub(r"P::(UnixError|ChannelError)", "P::Error", t)
    t = t.replace("&mut ", "&")
    return t


def surface(F, backend):
    out = {}
    for p, f in F.fns.items():
        if f.kind != "AssocFn" and f.kind != "Fn":
            continue
        if not p.startswith("platform::%s::" % backend) or f.impl_trait:
            continue
        if "Public" not in f.vis and f.vis not in ("pub",):
            continue
        parts = p[len("platform::%s::" % backend):].split("::")
        if len(parts) == 2 and parts[0] in EXPORTED:
            key = "%s::%s" % (parts[0], parts[1])
        elif len(parts) == 1 and parts[0] == "channel":
            key = "channel"
        else:
            continue
        params = []
        for i in range(1, f.argc + 1):
            t = f.local_ty(i)
            params.append("ref" if t.startswith("&") else "val")
        ret = _norm(f.local_ty(0), backend)
        out[key] = (tuple(params), ret)
    return out


def rule_surface_parity(ctx, Fa, Fb):
    R = ctx.rule("SURFACE-PARITY", "the OS transport and the in-process transport export the same public platform surface: same function names, same parameter count and by-value / by-reference "
                 "passing (reference mutability ignored), same result shape, and each exported type implements the same subset of {Clone, PartialEq, Debug, Deref, Send, Sync, Drop-free API}")
    sa, sb = surface(Fa, "unix"), surface(Fb, "inprocess")
    R.count("unix_functions", len(sa))
    R.count("inprocess_functions", len(sb))
    for k in sorted(set(sa) | set(sb)):
        if k not in sa or k not in sb:
            R.violate("%s:missing-on-%s" % (k, "unix" if k not in sa else "inprocess"), "public function %s exists on one transport only: code written against one backend does not compile against the other" % k, k, config="K1/K3")
        elif sa[k][0] != sb[k][0]:
            R.violate("%s:parameter-passing" % k, "%s takes %s on unix and %s in-process" % (k, sa[k][0], sb[k][0]), k, config="K1/K3")
        elif sa[k][1] != sb[k][1]:
            R.violate("%s:result-shape" % k, "%s returns %s on unix and %s in-process" % (k, sa[k][1], sb[k][1]), k, config="K1/K3")
        else:
            R.ok("%s%s -> %s" % (k, list(sa[k][0]), sa[k][1][:60]), None, "K1/K3")
    for ty in EXPORTED:
        ia = {i["trait"] for i in Fa.impls_of("platform::unix::" + ty) if i["trait"] in TRAITS and i["trait"] != "std::ops::Drop"}
        ib = {i["trait"] for i in Fb.impls_of("platform::inprocess::" + ty) if i["trait"] in TRAITS and i["trait"] != "std::ops::Drop"}
        if ("platform::unix::" + ty) not in Fa.adts or ("platform::inprocess::" + ty) not in Fb.adts:
            R.violate("%s:type-missing" % ty, "exported type %s is missing on one transport" % ty, ty, config="K1/K3")
        elif ia != ib:
            R.violate("%s:trait-set" % ty, "%s implements %s on unix but %s in-process" % (ty, sorted(ia), sorted(ib)), ty, config="K1/K3")
        else:
            R.ok("%s: %s" % (ty, sorted(x.split("::")[-1] for x in ia)), None, "K1/K3")
    R.count("exported_types", len(EXPORTED))
