"""C14: TLS-RESTORE -- per-thread side tables hold their entry contents at every normal
return of every function that exchanges them, and are message-private while user
(de)serialisation code runs."""
from vlib.flow import Explorer, Tracer, chain_calls
from vlib.mir import callee_name, op_local, op_place, strip_generics

EXCHANGE = ("std::mem::take", "std::mem::replace", "std::mem::swap", "std::cell::RefCell::take", "std::cell::RefCell::replace", "std::cell::RefCell::swap")
_CANON = {"std::cell::RefCell::take": "std::mem::take", "std::cell::RefCell::replace": "std::mem::replace", "std::cell::RefCell::swap": "std::mem::swap"}
USER_CODE = ("bincode::serialize_into", "bincode::serialize", "bincode::deserialize", "bincode::deserialize_from",
             "bincode::serialized_size", "serde::Serialize::serialize", "serde::Deserialize::deserialize")
SIDE_ELEMS = ("OsIpcChannel", "OsIpcSharedMemory", "OsOpaqueIpcChannel")
TABLE_MUTATORS = ("std::vec::Vec::clear", "std::vec::Vec::truncate", "std::vec::Vec::append", "std::vec::Vec::extend", "std::iter::Extend::extend", "std::vec::Vec::extend_from_slice",
                  "std::vec::Vec::drain", "std::vec::Vec::push", "std::vec::Vec::insert", "std::vec::Vec::retain", "std::vec::Vec::split_off")


def side_table_exchange(t):
    name = strip_generics(callee_name(t))
    if name not in EXCHANGE:
        return None
    g = " ".join(t.get("generics", []))
    # a list of attachments, or a newtype around one (`ReceivedHandles<OsOpaqueIpcChannel>`): recognised by the element type;
    # whether the operand is a per-thread table is decided separately (cell_key: reached through RefCell::borrow_mut / a RefCell)
    g0 = (t.get("generics") or [""])[0]
    if any(e in g for e in SIDE_ELEMS) and ("Vec<" in g or ("<" in g0 and not g0.startswith("std::") and not g0.startswith("core::") and not g0.startswith("alloc::"))):
        return _CANON.get(name, name)
    return None


def cell_key(fn, tr, operand):
    """identity of the storage an exchange operand designates: (root key, is_table)"""
    roots = tr.roots_of_operand(operand)
    if len(roots) != 1:
        return None, False
    r = next(iter(roots))
    is_table = "std::cell::RefCell::borrow_mut" in chain_calls(fn, operand)
    l = op_local(operand)
    if l is not None and "RefCell<" in fn.local_ty(l):
        is_table = True      # RefCell::take / replace / swap operate on the table cell itself
    if operand.get("k") == "c" and str(operand.get("static", "")).startswith("tls:"):
        is_table = True      # `KEY.with(RefCell::take)`: applied to the thread-local cell directly
    return (r.kind, r.id, r.field_idx()), is_table


def rule_tls_restore(ctx, cfg, F):
    R = ctx.rule("TLS-RESTORE", "in every function that exchanges (mem::take/replace/swap) the contents of a per-thread attachment "
                 "table, each such table holds its entry contents again at every normal return, and is not the entry contents "
                 "while bincode/serde user code runs (nested sends and receives are self-contained)")
    n_sites = 0
    n_user = 0
    for f in sorted(F.fns.values(), key=lambda x: x.path):
        sites = [(b, t) for b, t in f.calls() if side_table_exchange(t)]
        user_blocks = [b for b, t in f.calls() if strip_generics(callee_name(t)) in USER_CODE or strip_generics(t.get("callee") or "") in USER_CODE]
        # a message-level function (it runs the serializer / decoder) that writes a table in place instead of exchanging it
        inplace = []
        # (only a function that drives a whole message -- it calls bincode -- not the per-attachment serializers, which push by design)
        drives_message = any(strip_generics(callee_name(t)).startswith("bincode::") or strip_generics(t.get("callee") or "").startswith("bincode::") for _, t in f.calls())
        if user_blocks and drives_message and not f.impl_trait:
            tr0 = Tracer(f)
            for b, t in f.calls():
                nm = strip_generics(callee_name(t))
                if nm in TABLE_MUTATORS and t["args"] and "Vec<" in " ".join(t.get("generics", [])) + f.local_ty(op_local(t["args"][0]) or 0) and \
                        any(e in " ".join(t.get("generics", [])) + f.local_ty(op_local(t["args"][0]) or 0) for e in SIDE_ELEMS):
                    k, is_t = cell_key(f, tr0, t["args"][0])
                    if k and is_t:
                        inplace.append((b, nm, k))
            for b in f.live_blocks():
                for st in f.stmts(b):
                    if st["s"] == "assign" and st["lhs"].get("p") == ["*"] and "Vec<" in f.local_ty(st["lhs"]["l"]) and any(e in f.local_ty(st["lhs"]["l"]) for e in SIDE_ELEMS):
                        k, is_t = cell_key(f, tr0, {"k": "cp", "pl": {"l": st["lhs"]["l"]}})
                        if k and is_t:
                            inplace.append((b, "store", k))
        if not sites and not inplace:
            continue
        n_sites += len(sites) + len(inplace)
        tr = Tracer(f)
        ex = Explorer(f)
        tables = {}
        for b, nm, k in inplace:
            tables[k] = True
        mut_at = {}
        for b, nm, k in inplace:
            if nm != "store":
                mut_at[b] = (nm, k)
        for b, t in sites:
            for a in t["args"][:2 if side_table_exchange(t) == "std::mem::swap" else 1]:
                k, is_t = cell_key(f, tr, a)
                if k and is_t:
                    tables[k] = True
        n_user += len(user_blocks)
        fresh = [0]
        problems = {}

        def val(state, key):
            return dict(state).get(key, ("E", key) if key[0] != "L" else ("U", key))

        def setv(state, key, v):
            d = dict(state)
            d[key] = v
            return tuple(sorted(d.items(), key=repr))

        def lkey(l):
            return ("L", l, ())

        def local_cell(a, depth=0):
            """`&mut s.field` / `&mut (*r).field` with r = &mut s  ->  ("L", s, (field index, ..)); None if not a field of a local"""
            l = op_local(a)
            path = ()
            for _ in range(32):
                if l is None:
                    return None
                ds = [d for d in f.defs().get(l, []) if not f.is_cleanup(d[0]) and not (d[1] is not None and d[2]["lhs"].get("p"))]
                if len(ds) != 1 or ds[0][1] is None:
                    break
                rv = ds[0][2]["rv"]
                if rv["r"] in ("ref", "raw"):
                    pl = rv["pl"]
                    path = tuple(e["f"] for e in pl.get("p", []) if isinstance(e, dict) and "f" in e) + path
                    l = pl["l"]
                    continue
                if rv["r"] in ("use", "cast") and op_place(rv["a"][0]) is not None:
                    pl = rv["a"][0]["pl"]
                    path = tuple(e["f"] for e in pl.get("p", []) if isinstance(e, dict) and "f" in e) + path
                    l = pl["l"]
                    continue
                if rv["r"] == "agg" and path and path[0] < len(rv["a"]) and op_place(rv["a"][path[0]]) is not None and ("closure" in rv["kind"] or "tuple" in rv["kind"]):
                    # a captured reference inside a closure environment / tuple: continue with the captured value
                    pl = rv["a"][path[0]]["pl"]
                    path = tuple(e["f"] for e in pl.get("p", []) if isinstance(e, dict) and "f" in e) + path[1:]
                    l = pl["l"]
                    continue
                break
            if l is None or f.local_ty(l).startswith("&"):
                return None
            return ("L", l, path)

        def dest_key(pl):
            """where a call's result is written: a plain local, or a field of something reached through references (`self.list = mem::replace(..)`)"""
            fp = tuple(e["f"] for e in pl.get("p", []) if isinstance(e, dict) and "f" in e)
            if not pl.get("p"):
                return lkey(pl["l"])
            if "*" in pl.get("p", []):
                lc = local_cell({"k": "cp", "pl": {"l": pl["l"]}})
                if lc is not None:
                    return ("L", lc[1], lc[2] + fp)
                k_, is_t = cell_key(f, tr, {"k": "cp", "pl": {"l": pl["l"]}})
                if k_ is not None:
                    return (k_[0], k_[1], tuple(k_[2]) + fp)
            return ("L", pl["l"], fp)

        def operand_cell(a):
            k, is_t = cell_key(f, tr, a)
            if not is_t:
                lc = local_cell(a)
                if lc is not None:
                    return lc
            return k

        def step(b, state, env):
            # local moves of Vec values
            for st in f.stmts(b):
                if st["s"] != "assign":
                    continue
                d = dict(state)
                if not st["lhs"].get("p") and st["rv"]["r"] == "use":
                    sp = op_place(st["rv"]["a"][0])
                    if sp is not None:
                        spath = tuple(e["f"] for e in sp.get("p", []) if isinstance(e, dict) and "f" in e)
                        # whole value (and, for a struct, its tracked fields) moves to the destination
                        for k, v in list(d.items()):
                            if k[0] == "L" and k[1] == sp["l"] and k[2][:len(spath)] == spath:
                                state = setv(state, ("L", st["lhs"]["l"], k[2][len(spath):]), v)
                elif not st["lhs"].get("p") and st["rv"]["r"] == "agg":
                    # a struct built from tracked lists keeps them in its fields (an RAII scope holding the saved lists)
                    for i, a in enumerate(st["rv"]["a"]):
                        src = a["pl"]["l"] if op_place(a) is not None else None
                        if src is None:
                            continue
                        apath = tuple(e["f"] for e in a["pl"].get("p", []) if isinstance(e, dict) and "f" in e)
                        # the operand (a local, or a field of one: `move tables.channels` captured by a closure) and whatever is tracked below it
                        for k, v in list(d.items()):
                            if k[0] == "L" and k[1] == src and k[2][:len(apath)] == apath:
                                state = setv(state, ("L", st["lhs"]["l"], (i,) + k[2][len(apath):]), v)
                elif st["lhs"].get("p") and st["lhs"].get("p") != ["*"] and st["rv"]["r"] == "use" and op_local(st["rv"]["a"][0]) is not None and lkey(op_local(st["rv"]["a"][0])) in d:
                    # `self.list = <what mem::replace handed back>`: a tracked list stored into a field reached through references (the message's own list)
                    k_l, _t = cell_key(f, tr, {"k": "cp", "pl": st["lhs"]})
                    if k_l is not None:
                        state = setv(state, k_l, d[lkey(op_local(st["rv"]["a"][0]))])
                elif st["lhs"].get("p") == ["*"] and st["rv"]["r"] == "use":
                    # `*table.borrow_mut() = list`
                    k, is_t = cell_key(f, tr, {"k": "cp", "pl": {"l": st["lhs"]["l"]}})
                    if k and is_t:
                        src = op_local(st["rv"]["a"][0])
                        tables[k] = True
                        state = setv(state, k, d[lkey(src)] if src is not None and lkey(src) in d else ("O", "store@bb%d" % b))
                    elif k:
                        # `self.list = <what mem::replace handed back>` through a captured reference: the message's own list now holds that value
                        src = op_local(st["rv"]["a"][0])
                        k2 = local_cell({"k": "cp", "pl": {"l": st["lhs"]["l"]}}) or k
                        if src is not None and lkey(src) in d:
                            state = setv(state, k2, d[lkey(src)])
            t = f.term(b)
            if t["t"] == "call":
                name = side_table_exchange(t)
                if name == "std::mem::take":
                    k = operand_cell(t["args"][0])
                    if k:
                        state = setv(state, dest_key(t["dest"]), val(state, k))
                        state = setv(state, k, ("EMPTY",))
                elif name == "std::mem::replace":
                    k = operand_cell(t["args"][0])
                    src = op_local(t["args"][1])
                    if k:
                        newv = val(state, lkey(src)) if src is not None and lkey(src) in dict(state) else ("O", "replace@bb%d" % b)
                        oldv = val(state, k)
                        state = setv(state, k, newv)
                        state = setv(state, dest_key(t["dest"]), oldv)
                elif name == "std::mem::swap":
                    k1, k2 = operand_cell(t["args"][0]), operand_cell(t["args"][1])
                    if k1 and k2:
                        v1, v2 = val(state, k1), val(state, k2)
                        state = setv(setv(state, k1, v2), k2, v1)
                elif b in mut_at:
                    nm, k = mut_at[b]
                    if nm in ("std::vec::Vec::clear",) or (nm == "std::vec::Vec::truncate"):
                        state = setv(state, k, ("EMPTY",))
                    else:
                        state = setv(state, k, ("O", "%s@bb%d" % (nm.split("::")[-1], b)))
                elif b in user_blocks:
                    for k in tables:
                        v = val(state, k)
                        if v == ("E", k):
                            problems[("user-code", k, b)] = "table %s still holds its entry contents while %s runs: attachments of an enclosing message and of this one would mix" % (_kdesc(k), strip_generics(callee_name(t)))
                        elif v == ("EMPTY",):
                            state = setv(state, k, ("O", "msg@bb%d" % b))
            elif t["t"] == "return":
                for k in tables:
                    v = val(state, k)
                    if v != ("E", k):
                        problems.setdefault(("return", k), []) if False else None
                        return ("BAD", k, v, state)
            return state

        def at_return(b, state, path):
            if state and state[0] == "BAD":
                _, k, v, _s = state
                key = ("return", k, _exit_kind(f, path))
                if key not in problems:
                    problems[key] = (v, path)

        try:
            ex.walk(0, (), step, at_return=at_return)
        except RuntimeError as e:
            R.violate("%s:state-explosion" % f.path, str(e), f.path, f.loc(0), config=cfg)
            continue
        for key, info in sorted(problems.items(), key=repr):
            if key[0] == "user-code":
                R.violate("%s:user-code-with-entry-table:%s" % (f.path, _kdesc(key[1])), info, f.path, f.loc(key[2]), config=cfg)
            else:
                v, path = info
                R.violate("%s:%s:not-restored-at:%s" % (f.path, _kdesc(key[1]), key[2]),
                          "side table %s does not hold its entry contents at the return reached via %s (it holds %s): attachments "
                          "collected so far stay in the per-thread table and the saved list is dropped" % (_kdesc(key[1]), key[2], _vdesc(v)),
                          f.path, f.loc(path[-1]), path="bb" + "->bb".join(map(str, path[-14:])), config=cfg)
        if not problems:
            R.ok("%s: %d exchange sites, %d tables restored on every normal return; message-private during %d user-code calls" % (
                f.path, len(sites), len(tables), len(user_blocks)), f.loc(sites[0][0]), cfg)
        for b, t in sites:
            R.instance("exchange %s in %s" % (strip_generics(callee_name(t)), f.path), f.loc(b), cfg)
    # every call that drives a whole message through bincode sits in a function that exchanges the tables around it
    DRIVERS = ("bincode::serialize_into", "bincode::serialize", "bincode::deserialize", "bincode::deserialize_from", "bincode::serialized_size")
    for f in sorted(F.fns.values(), key=lambda x: x.path):
        if not (f.path.startswith("ipc::") or f.path.startswith("<ipc::")):
            continue
        drv = [(b, t) for b, t in f.calls() if strip_generics(callee_name(t)) in DRIVERS or strip_generics(t.get("callee") or "") in DRIVERS]
        if not drv:
            continue
        has_exchange = any(side_table_exchange(t) for _, t in f.calls())
        if not has_exchange:
            tr0 = Tracer(f)
            has_exchange = any(st["s"] == "assign" and st["lhs"].get("p") == ["*"] and cell_key(f, tr0, {"k": "cp", "pl": {"l": st["lhs"]["l"]}})[1]
                               for b in f.live_blocks() for st in f.stmts(b))
        for b, t in drv:
            if has_exchange:
                continue
            R.violate("%s:message-driver-outside-exchange:%s" % (strip_generics(f.path), strip_generics(callee_name(t)).split("::")[-1]),
                      "%s runs %s in a function that does not exchange the per-thread attachment tables: when this happens inside another message's (de)serialisation, attachment "
                      "indices of this message are resolved against the enclosing message's tables" % (f.path, strip_generics(callee_name(t))), f.path, f.loc(b), config=cfg)
    _flag_cells(R, cfg, F)
    R.count("exchange_sites[%s]" % cfg, n_sites)
    R.count("user_code_calls[%s]" % cfg, n_user)


CELL_WRITE = ("std::cell::Cell::set", "std::cell::Cell::replace", "std::cell::Cell::take")
CELL_READ = ("std::cell::Cell::get", "std::cell::Cell::replace", "std::cell::Cell::take")


def _tls_cell(tr, a):
    roots = tr.roots_of_operand(a)
    if len(roots) == 1:
        r = next(iter(roots))
        if r.kind == "static" and str(r.id).startswith("tls:") and "Cell<" in str(r.id) and "RefCell<" not in str(r.id):
            return str(r.id)
    return None


def _flag_cells(R, cfg, F):
    """per-thread scalar cells (`Cell<bool>`, `Cell<usize>`: "a message is being written", a nesting depth) that a message driver writes
    around the user's (de)serialisation code and that other (de)serialisation code consults: like the tables, they hold their entry
    value again at every normal return -- a nested send must not switch the enclosing message's state off"""
    DRIVERS = ("bincode::serialize_into", "bincode::serialize", "bincode::deserialize", "bincode::deserialize_from", "bincode::serialized_size")
    readers = {}
    for g in F.fns.values():
        trg = None
        for b, t in g.calls():
            if strip_generics(callee_name(t)) in CELL_READ and t["args"]:
                trg = trg or Tracer(g)
                k = _tls_cell(trg, t["args"][0])
                if k:
                    readers.setdefault(k, set()).add(g.path)
    for f in sorted(F.fns.values(), key=lambda x: x.path):
        if not (f.path.startswith("ipc::") or f.path.startswith("<ipc::")):
            continue
        if not any(strip_generics(callee_name(t)) in DRIVERS or strip_generics(t.get("callee") or "") in DRIVERS for _, t in f.calls()):
            continue
        tr = Tracer(f)
        writes = {}
        for b, t in f.calls():
            if strip_generics(callee_name(t)) in CELL_WRITE and t["args"]:
                k = _tls_cell(tr, t["args"][0])
                if k and (readers.get(k, set()) - {f.path}):
                    writes[b] = k
        if not writes:
            continue
        cells = sorted(set(writes.values()))
        problems = {}

        def step(b, state, env):
            d = dict(state)
            t = f.term(b)
            if t["t"] == "call" and t["args"]:
                nm = strip_generics(callee_name(t))
                k = _tls_cell(tr, t["args"][0]) if nm in CELL_WRITE or nm in CELL_READ else None
                if k in cells:
                    cur = d.get(("C", k), ("E", k))
                    if nm in CELL_READ:
                        d[("R", b)] = cur         # what this read returned, whatever local (or closure capture) carries it on
                    if nm == "std::cell::Cell::set" or nm == "std::cell::Cell::replace":
                        rs = tr.roots_of_operand(t["args"][1]) if len(t["args"]) > 1 else set()
                        vals = {d.get(("R", r.block)) if r.kind == "call" and r.block is not None else None for r in rs}
                        d[("C", k)] = next(iter(vals)) if len(vals) == 1 and None not in vals else ("O", "bb%d" % b)
                    elif nm == "std::cell::Cell::take":
                        d[("C", k)] = ("O", "bb%d" % b)
            elif t["t"] == "return":
                for k in cells:
                    v = d.get(("C", k), ("E", k))
                    if v != ("E", k):
                        return ("BAD", k, v)
            return tuple(sorted(d.items(), key=repr))

        def at_return(b, state, path):
            if state and state[0] == "BAD":
                problems.setdefault(state[1], (state[2], path))

        ex = Explorer(f)
        try:
            ex.walk(0, (), lambda b, st, env: step(b, st if not (st and st[0] == "BAD") else (), env), at_return=at_return)
        except RuntimeError as e:
            R.violate("%s:state-explosion" % f.path, str(e), f.path, f.loc(0), config=cfg)
            continue
        for k, (v, path) in sorted(problems.items()):
            R.violate("%s:per-thread-flag-not-restored:%s" % (strip_generics(f.path), k),
                      "%s writes the per-thread cell %s around the user's (de)serialisation code and does not put its entry value back at a normal return (it is left at %s); "
                      "%s consults it, so when this call is nested inside another message's serialisation the enclosing message continues in the wrong state" % (
                          f.path, k, "a value written at " + v[1] if v[0] == "O" else str(v), ", ".join(sorted(readers[k] - {f.path}))[:200]),
                      f.path, f.loc(path[-1]), path="bb" + "->bb".join(map(str, path[-14:])), config=cfg)
        if not problems:
            R.ok("%s: per-thread cells %s hold their entry value at every normal return" % (f.path, ", ".join(cells)), f.loc(0), cfg)
        R.count("flag_cells[%s]" % cfg, len(cells))


def _kdesc(k):
    kind, ident, path = k
    if kind == "param":
        return "arg%d%s" % (ident, "".join(".%d" % i for i in path))
    return "%s:%s%s" % (kind, ident, "".join(".%d" % i for i in path))


def _vdesc(v):
    if v[0] == "EMPTY":
        return "an empty list"
    if v[0] == "O":
        return "this message's list (%s)" % v[1]
    if v[0] == "E":
        return "the entry contents of %s" % _kdesc(v[1])
    return str(v)


def _exit_kind(f, path):
    last = "entry"
    for b in path:
        t = f.term(b)
        if t["t"] == "call":
            n = strip_generics(callee_name(t))
            if n.startswith("bincode::") or "OsIpcSender::send" in n:
                last = n
    kinds = [strip_generics(callee_name(f.term(b))) for b in path if f.term(b)["t"] == "call" and f.term(b)["dest"]["l"] == 0]
    return "after-%s:%s" % (last, "residual" if any("from_residual" in k for k in kinds) else "value")


def rule_args_owned(ctx, cfg, F):
    R = ctx.rule("SEND-ARGS-OWNED", "the platform send takes both attachment vectors by value, so they are dropped on every exit "
                 "(success or OS error) and cannot be retained by the library")
    for f in F.fns.values():
        if f.path.endswith("::OsIpcSender::send") and f.path.startswith("platform::"):
            tys = [f.local_ty(i) for i in range(1, f.argc + 1)]
            vecs = [t for t in tys if t.startswith("std::vec::Vec<")]
            if len(vecs) >= 2 and not any(t.startswith("&") for t in vecs):
                R.ok("%s takes %s by value" % (f.path, ", ".join(vecs)), f.loc(0), cfg)
            else:
                R.violate("%s:attachments-not-by-value" % f.path, "attachment lists are not taken by value: %s" % tys, f.path, f.loc(0), config=cfg)
            R.count("send_fns[%s]" % cfg)
