"""ipc-layer rules: IDX-POS, RX-MOVE, REWRAP (C04); WHOLE-BUF, HDR-SYM, FRAG-CONTIG, REASM-CONTIG (C01);
SHM-SENTINEL, SHM-COUPLE, SHM-LEN, SHM-SIBLING (C05)."""
import re

from vlib.flow import ref_place, Expr, Tracer, chain_calls, chain_calls_ip, edge_label, expr_str, expr_strip_blocks, path_summaries
from vlib.mir import callee_name, op_const, op_local, op_place, strip_generics
from rules.send import _root_local, first_fragment_fn, followup_fn, send_fn, _position_local, position_kind, at_start_test
from rules import fd as _fdrules

USIZE_MAX = 18446744073709551615
SIDE_ELEMS = ("OsIpcChannel", "OsIpcSharedMemory", "OsOpaqueIpcChannel")


def _is_side_table_vec(t):
    g = " ".join(t.get("generics", []))
    return any(e in g for e in SIDE_ELEMS)


# =========================================================================== C04

def rule_idx_pos(ctx, cfg, F):
    R = ctx.rule("IDX-POS", "serialising an endpoint or region: the integer written to the byte stream is the table's length read before exactly one push onto that table; "
                 "deserialising: the table is accessed at exactly the integer read from the stream (no arithmetic), and both sides use the same integer type")
    n_ser = n_de = 0
    ser_types, de_types = set(), set()
    for f in sorted(F.fns.values(), key=lambda x: x.path):
        if not (f.path.startswith("ipc::") or f.path.startswith("<ipc::")):
            continue
        tr = Tracer(f)
        pushes = [(b, t) for b, t in f.calls_to("std::vec::Vec::push") if _is_side_table_vec(t) and "std::cell::RefCell::borrow_mut" in chain_calls(f, t["args"][0])]
        if pushes:
            n_ser += 1
            key = strip_generics(f.path)
            # a closure that is the whole "push and return the index" step pushes on every path; a body that also holds the
            # `None => usize::MAX` arm (closure/helper inlined) pushes on every path that read the length (checked below)
            if len(pushes) != 1 or (f.kind == "Closure" and not f.all_paths_pass(0, [pushes[0][0]])[0]) or pushes[0][0] in f.loop_blocks():
                R.violate("%s:push-count" % key, "%d pushes onto the side table (expected exactly one on every path): indices of later attachments shift" % len(pushes), f.path, f.loc(0), config=cfg)
                continue
            pb, pt = pushes[0]
            table = {r.key() for r in tr.roots_of_operand(pt["args"][0])}
            ret = tr.roots(0)
            if f.kind != "Closure":
                ret = set()
                for b_, t_ in f.calls():
                    if strip_generics(t_.get("callee") or "") == "serde::Serialize::serialize":
                        ret |= {r for r in tr.roots_of_operand(t_["args"][0]) if not (r.kind == "const" and r.id == USIZE_MAX)}
            lens = [r for r in ret if r.kind == "call" and r.id == "std::vec::Vec::len"]
            if len(ret) == 1 and not lens:
                # the other spelling: push first, then `table.len() - 1` is the position of what was just pushed
                ex_ = Expr(f)
                ops_ = [{"k": "cp", "pl": {"l": 0}}] if f.kind == "Closure" else [t_["args"][0] for b_, t_ in f.calls() if strip_generics(t_.get("callee") or "") == "serde::Serialize::serialize"]
                after = [b_ for b_, t_ in f.calls() if strip_generics(callee_name(t_)) == "std::vec::Vec::len" and {r.key() for r in tr.roots_of_operand(t_["args"][0])} == table
                         and f.dominates(pb, b_) and b_ != pb]
                def len_minus_one(e):
                    if e[0] == "field" and e[1][0] == "bin" and e[1][1] == "SubWithOverflow":
                        e = ("bin", "Sub", e[1][2], e[1][3])
                    return e[0] == "bin" and e[1] in ("Sub", "SubUnchecked") and e[2][0] == "call" and e[2][1] == "std::vec::Vec::len" and e[3] == ("const", 1)
                es_ = [expr_strip_blocks(ex_.of_operand(o)) for o in ops_]
                es_ = [e for e in es_ if e != ("const", USIZE_MAX)]
                other_muts = [b for b, t in f.calls() if strip_generics(callee_name(t)) in ("std::vec::Vec::push", "std::vec::Vec::insert", "std::vec::Vec::remove", "std::vec::Vec::pop", "std::vec::Vec::clear", "std::vec::Vec::truncate", "std::vec::Vec::swap_remove") and b != pb]
                if len(after) == 1 and es_ and all(len_minus_one(e) for e in es_) and not other_muts:
                    R.ok("%s: index = len(table) - 1 read after the single push" % f.path, f.loc(pb), cfg)
                    if f.kind != "Closure":
                        for b_, t_ in f.calls():
                            if strip_generics(t_.get("callee") or "") == "serde::Serialize::serialize":
                                ser_types.add(_ser_int_type(t_))
                    continue
            if len(ret) != 1 or not lens:
                R.violate("%s:index-not-len" % key, "the index handed to the serializer is not the table's length (%s)" % sorted(map(repr, ret)), f.path, f.loc(pb), config=cfg)
                continue
            lb = lens[0].block
            same = {r.key() for r in tr.roots_of_operand(f.term(lb)["args"][0])} == table
            before = f.dominates(lb, pb) and lb != pb and (f.kind == "Closure" or f.all_paths_pass(f.term(lb)["to"], [pb])[0])
            muts = [b for b, t in f.calls() if strip_generics(callee_name(t)) in ("std::vec::Vec::push", "std::vec::Vec::insert", "std::vec::Vec::remove", "std::vec::Vec::pop", "std::vec::Vec::clear", "std::vec::Vec::truncate", "std::vec::Vec::swap_remove")
                    and b != pb and b in f.reachable(f.term(lb)["to"]) ]
            if same and before and not muts:
                R.ok("%s: index = len(table) read before the single push" % f.path, f.loc(pb), cfg)
            else:
                R.violate("%s:index-position" % key, "the serialised index is not the position of the pushed element (same table: %s, read before the push: %s, other mutations: %d)" % (same, before, len(muts)),
                          f.path, f.loc(pb), config=cfg)
            # parent: what is serialised is the closure's result (or the empty sentinel)
            parent = F.fns.get(f.parent) if f.kind == "Closure" else None
            if f.kind != "Closure":
                # push and serialisation in one body (helper / closure inlined): the serialised value is the length read above
                sers = [(b, t) for b, t in f.calls() if strip_generics(t.get("callee") or "") == "serde::Serialize::serialize"]
                for b, t in sers:
                    rs = tr.roots_of_operand(t["args"][0])
                    ok = all((r.kind == "call" and r.id == "std::vec::Vec::len") or (r.kind == "const" and r.id == USIZE_MAX) for r in rs) and any(r.kind == "call" for r in rs)
                    ty = _ser_int_type(t)
                    ser_types.add(ty)
                    if ok:
                        R.ok("%s serialises the table length read before the push, as %s" % (f.path, ty), f.loc(b), cfg)
                    else:
                        R.violate("%s:serialised-value" % strip_generics(f.path), "the value written to the stream is not the index of the pushed attachment (%s)" % sorted(map(repr, rs)), f.path, f.loc(b), config=cfg)
            if parent:
                trp = Tracer(parent)
                sers = [(b, t) for b, t in parent.calls() if strip_generics(t.get("callee") or "") == "serde::Serialize::serialize"]
                any_index = any(r.kind == "call" for b, t in sers for r in trp.roots_of_operand(t["args"][0]))
                for b, t in sers:
                    rs = trp.roots_of_operand(t["args"][0])
                    # (one serialize call fed by a merged value, or one call per branch: the sentinel alone is fine where another call writes the index)
                    ok = bool(rs) and all((r.kind == "call" and (r.id == "std::thread::LocalKey::with" or _runs_closure(parent, r, f))) or (r.kind == "const" and r.id == USIZE_MAX) for r in rs) and any_index
                    ty = _ser_int_type(t)
                    ser_types.add(ty)
                    if ok:
                        R.ok("%s serialises the closure's index as %s" % (parent.path, ty), parent.loc(b), cfg)
                    else:
                        R.violate("%s:serialised-value" % strip_generics(parent.path), "the value written to the stream is not the index returned for the pushed attachment (%s)" % sorted(map(repr, rs)), parent.path, parent.loc(b), config=cfg)
        # deserialise side: indexed accesses of a side table
        for b, t in f.calls():
            nm = strip_generics(callee_name(t))
            decl = strip_generics(t.get("callee") or "")
            if nm in ("std::vec::Vec::remove", "std::vec::Vec::swap_remove", "std::vec::Vec::insert", "std::vec::Vec::drain", "std::vec::Vec::retain", "std::vec::Vec::pop") and t["args"] \
                    and "std::cell::RefCell::borrow_mut" in chain_calls(f, t["args"][0]) and _is_side_table_vec(t) and f.kind == "Closure" and "eserialize" in f.path:
                n_de += 1
                R.violate("%s:position-shifting-access" % strip_generics(f.path), "%s on the attachment table while decoding shifts the positions of the remaining attachments, but the indices in the byte stream are absolute" % nm.split("::")[-1],
                          f.path, f.loc(b), config=cfg)
                continue
            if (nm in ("core::slice::get_mut", "core::slice::get", "std::vec::Vec::get_mut") or decl in ("std::ops::Index::index", "std::ops::IndexMut::index_mut")) and len(t["args"]) > 1:
                if "std::cell::RefCell::borrow_mut" not in chain_calls(f, t["args"][0]):
                    continue
                if not any(e in f.local_ty(_root_local(f, tr, t["args"][0])) or e in " ".join(t.get("generics", [])) for e in SIDE_ELEMS):
                    continue
                if any("RangeFull" in g for g in t.get("generics", [])):
                    continue
                n_de += 1
                origins, bad = _index_origins(F, f, t["args"][1])
                de_types |= {o[1] for o in origins}
                if bad or not origins:
                    R.violate("%s:index-origin" % strip_generics(f.path), "the table is accessed at %s, not at exactly the integer read from the stream" % (bad or "an unresolved value"), f.path, f.loc(b), config=cfg)
                else:
                    R.ok("%s: table accessed at the integer deserialised in %s" % (f.path, sorted({o[0] for o in origins})), f.loc(b), cfg)
    R.count("serialise_closures[%s]" % cfg, n_ser)
    R.count("table_accesses[%s]" % cfg, n_de)
    if ser_types and de_types and ser_types != de_types:
        R.violate("integer-type-mismatch", "indices are written as %s but read as %s" % (sorted(ser_types), sorted(de_types)), config=cfg)
    elif ser_types and de_types:
        R.ok("index integer type agrees: %s" % sorted(ser_types), None, cfg)


def _runs_closure(parent, root, closure_fn):
    """the call at `root` is `FnOnce::call_once(c, ..)` (or call_mut / call) with c the given closure of this crate: its result is the closure's result"""
    if root.block is None:
        return False
    t = parent.term(root.block)
    if strip_generics(t.get("callee") or "") not in ("std::ops::FnOnce::call_once", "std::ops::FnMut::call_mut", "std::ops::Fn::call") or not t["args"]:
        return False
    a = t["args"][0]
    if a["k"] == "c":
        return a.get("closure") == closure_fn.path
    tr = Tracer(parent)
    return any((r.kind == "agg" and r.id == closure_fn.path) for r in tr.roots_of_operand(a))


def _ser_int_type(t):
    nm = t.get("resolved") or ""
    if " for " in nm:
        return nm.split(" for ")[1].split(">")[0]
    return "?"


def _index_origins(F, f, operand, depth=0, seen=None):
    """trace an index operand up through closure captures and helper parameters to the deserialize call(s).
    returns (set of (fn path, int type)), description of a disqualifying origin or None)"""
    seen = seen or set()
    tr = Tracer(f)
    origins, bad = set(), None
    for r in tr.roots_of_operand(operand):
        if r.kind == "call" and strip_generics(r.id) in ("serde::Deserialize::deserialize", "serde::de::impls::deserialize"):
            t = f.term(r.block)
            origins.add((f.path, _ser_int_type(t)))
        elif r.kind == "param" and depth < 4:
            if f.kind == "Closure" and r.id == 1 and r.field_idx():
                parent = F.fns.get(f.parent)
                k = r.field_idx()[0]
                got = False
                if parent:
                    for b in parent.live_blocks():
                        for st in parent.stmts(b):
                            if st["s"] == "assign" and st["rv"]["r"] == "agg" and st["rv"]["kind"].get("closure") == f.path and k < len(st["rv"]["a"]):
                                o, bd = _index_origins(F, parent, st["rv"]["a"][k], depth + 1, seen)
                                origins |= o
                                bad = bad or bd
                                got = True
                if not got:
                    bad = bad or "an unresolved closure capture"
            elif f.kind != "Closure":
                name = strip_generics(f.path)
                callers = 0
                for g in F.fns.values():
                    for b, t in g.calls():
                        if strip_generics(callee_name(t)) == name and (g.path, b) not in seen and r.id - 1 < len(t["args"]):
                            seen.add((g.path, b))
                            callers += 1
                            o, bd = _index_origins(F, g, t["args"][r.id - 1], depth + 1, seen)
                            origins |= o
                            bad = bad or bd
                if not callers:
                    bad = bad or "a parameter with no resolvable caller"
            else:
                bad = bad or "a closure parameter"
        elif r.kind == "op":
            bad = bad or "the result of arithmetic (%s)" % r.id
        elif r.kind == "const":
            bad = bad or "a constant (%s)" % (r.id,)
        else:
            bad = bad or "%r" % (r,)
    return origins, bad


def rule_rx_move(ctx, cfg, F):
    R = ctx.rule("RX-MOVE", "serialising a receiver pushes OsIpcChannel::Receiver(consume(receiver)), and consume moves the endpoint out of the user's handle leaving the sentinel; "
                 "serialising a sender pushes a clone")
    n = 0
    for f in sorted(F.fns.values(), key=lambda x: x.path):
        # wherever the ipc layer wraps an endpoint for the out-of-band list (the serialisation helpers' closures, or whatever a refactor made of them)
        if not (f.path.startswith("ipc::") or f.path.startswith("<ipc::")):
            continue
        tr = None
        for b in sorted(f.live_blocks()):
            for si, st in enumerate(f.stmts(b)):
                if st["s"] == "assign" and st["rv"]["r"] == "agg" and (st["rv"]["kind"].get("adt") or "").endswith("::OsIpcChannel"):
                    n += 1
                    tr = tr or Tracer(f)
                    variant = st["rv"]["kind"]["variant"]
                    roots = tr.roots_of_operand(st["rv"]["a"][0])
                    key = "%s:%s" % (strip_generics(f.path), variant)
                    if variant == "Receiver":
                        cons = [r for r in roots if r.kind == "call" and r.id.endswith("::OsIpcReceiver::consume")]
                        if len(roots) == 1 and cons:
                            ct = f.term(cons[0].block)
                            from_arg = any(x.kind == "param" and x.id == 1 for x in tr.roots_of_operand(ct["args"][0]))
                            g = F.fns.get(ct.get("resolved") or ct.get("callee"))
                            moves = g is not None and _consume_moves(F, g)
                            if from_arg and moves:
                                R.ok("receiver is moved out with consume() (%s leaves the sentinel)" % g.path, f.loc(b, si), cfg)
                            else:
                                R.violate("%s:consume-does-not-move" % key, "consume() does not move the endpoint out of the captured receiver (from capture: %s, leaves sentinel: %s)" % (from_arg, moves), f.path, f.loc(b, si), config=cfg)
                        else:
                            R.violate("%s:receiver-not-consumed" % key, "the receiver pushed for transfer does not come from consume(): the sending handle keeps receiving (%s)" % sorted(map(repr, roots)), f.path, f.loc(b, si), config=cfg)
                    else:
                        if any(r.kind == "param" and r.id == 1 for r in roots) and "std::clone::Clone::clone" in chain_calls(f, st["rv"]["a"][0]):
                            R.ok("sender is cloned into the table", f.loc(b, si), cfg)
                        else:
                            R.violate("%s:sender-origin" % key, "the sender pushed for transfer is not a clone of the serialised sender (%s)" % sorted(map(repr, roots)), f.path, f.loc(b, si), config=cfg)
    R.count("endpoint_pushes[%s]" % cfg, n)


def _consume_moves(F, g):
    """unix: result wraps consume_fd (a moving read); in-process: field taken with Option::take"""
    names = set()
    for b, t in g.calls():
        names.add(strip_generics(callee_name(t)))
    if any(n.endswith("::consume_fd") for n in names):
        h = next((F.fns[n] for n in F.fns if n.endswith("::OsIpcReceiver::consume_fd")), None)
        if h is None:
            return False
        sets = [t for b, t in h.calls_to("std::cell::Cell::set") if (op_const(t["args"][1]) or 0) < 0]
        gets = list(h.calls_to("std::cell::Cell::get"))
        repl = [t for b, t in h.calls_to("std::cell::Cell::replace", "std::mem::replace") if len(t["args"]) > 1 and (op_const(t["args"][1]) or 0) < 0]
        return (bool(sets) and bool(gets)) or bool(repl)
    return bool({"std::option::Option::take", "std::mem::take", "std::mem::replace", "std::cell::RefCell::take", "std::cell::RefCell::replace", "std::cell::Cell::take"} & names)


def rule_rewrap(ctx, cfg, F):
    R = ctx.rule("REWRAP", "to_opaque / to re-wrap the very same OS endpoint (the field is moved, nothing is reconstructed)")
    n = 0
    for f in sorted(F.fns.values(), key=lambda x: x.path):
        base = strip_generics(f.path)
        if base not in ("ipc::IpcReceiver::to_opaque", "ipc::IpcSender::to_opaque", "ipc::OpaqueIpcSender::to", "ipc::OpaqueIpcReceiver::to"):
            continue
        n += 1
        tr = Tracer(f)
        ok = False
        for b in f.live_blocks():
            for st in f.stmts(b):
                if st["s"] == "assign" and st["lhs"]["l"] == 0 and st["rv"]["r"] == "agg":
                    rs = tr.roots_of_operand(st["rv"]["a"][0])
                    ok = len(rs) == 1 and all(r.kind == "param" and r.id == 1 and r.field_names()[:1] in (("os_sender",), ("os_receiver",)) for r in rs)
        if ok and not list(f.calls()):
            R.ok("%s moves its endpoint field into the new wrapper" % base, f.loc(0), cfg)
        else:
            R.violate("%s:not-a-move" % base, "%s does not simply move its OS endpoint into the new wrapper" % base, f.path, f.loc(0), config=cfg)
    R.count("rewrap_fns[%s]" % cfg, n)


def _forward_counter(g, operand):
    """the operand is (a copy of) an integer local whose definitions are `= 0` and `= itself + 1`, nothing else: a hand-written forward loop counter"""
    C = _copy_root(g, operand)
    if C is None or g.local_ty(C) not in ("usize", "u32", "u64", "isize", "i32", "i64"):
        return False
    ds = [d for d in g.defs().get(C, []) if not g.is_cleanup(d[0])]
    if len(ds) < 2:
        return False
    zero = inc = 0
    for b, si, node in ds:
        if si is None or node["lhs"].get("p"):
            return False
        rv = node["rv"]
        if rv["r"] == "use" and op_const(rv["a"][0]) == 0:
            zero += 1
            continue
        if rv["r"] == "use" and op_place(rv["a"][0]) is not None:
            # `C = move T.0`, T = AddWithOverflow(C, 1)
            pl = rv["a"][0]["pl"]
            pr = pl.get("p") or []
            if len(pr) == 1 and isinstance(pr[0], dict) and pr[0].get("f") == 0:
                td = [d for d in g.defs().get(pl["l"], []) if not g.is_cleanup(d[0])]
                if len(td) == 1 and td[0][1] is not None:
                    rv = td[0][2]["rv"]
        if rv["r"] == "bin" and rv.get("op") in ("Add", "AddWithOverflow", "AddUnchecked") and len(rv["a"]) == 2:
            x, y = rv["a"]
            if (op_const(y) == 1 and _copy_root(g, x) == C) or (op_const(x) == 1 and _copy_root(g, y) == C):
                inc += 1
                continue
        return False
    return zero == 1 and inc >= 1


def rule_split_order(ctx, cfg, F):
    R = ctx.rule("SPLIT-ORDER", "the receiver splits the received descriptors in increasing index order, appending to both lists (no insert(0), no reverse iteration); "
                 "the sender's two collection loops iterate forward and only push")
    g = next((x for x in F.fns.values() if any(strip_generics(callee_name(t)) == "libc::recv" for _, t in x.calls())), None)
    n = 0
    if g:
        tr = Tracer(g)
        loads = []
        for b, t in g.calls():
            nm = strip_generics(callee_name(t))
            if nm in ("std::ptr::const_ptr::add", "std::ptr::mut_ptr::add", "std::ptr::const_ptr::offset") and any(r.kind == "call" and r.id.endswith("CMSG_DATA") for r in tr.roots_of_operand(t["args"][0])):
                loads.append((b, t))
        for b, t in loads:
            n += 1
            idx = tr.roots_of_operand(t["args"][1])
            fwd = all(r.kind == "agg" and r.id.endswith("ops::Range::Range") for r in idx) or all(r.kind in ("agg",) for r in idx)
            ex = Expr(g)
            e = ex.of_operand(t["args"][1])
            rev = "rev" in repr(e)
            if idx and not rev and all(r.kind == "agg" and "Range" in r.id for r in idx):
                R.ok("descriptors are read at index i of a forward range", g.loc(b), cfg)
            elif _forward_counter(g, t["args"][1]):
                R.ok("descriptors are read at a counter that starts at 0 and is only ever incremented by one (`while i < n { .. i += 1 }`)", g.loc(b), cfg)
            else:
                R.violate("%s:split-index" % g.path, "descriptors are not read at the plain forward loop index (%s)" % sorted(map(repr, idx)), g.path, g.loc(b), config=cfg)
        # second accepted form: a forward iterator over the slice view of the control-message data
        for b, t in g.calls():
            nm = strip_generics(callee_name(t))
            if (nm in ("core::slice::iter", "std::iter::IntoIterator::into_iter") or nm.endswith("IntoIterator>::into_iter")
                    or strip_generics(t.get("callee") or "") == "std::iter::IntoIterator::into_iter") and t["args"] \
                    and (any(r.kind == "call" and r.id.endswith("CMSG_DATA") for r in tr.roots_of_operand(t["args"][0]))
                         or any(r.kind == "call" and r.block is not None and "Vec<i32>" in g.local_ty(g.term(r.block)["dest"]["l"]) and _fdrules._list_is_cmsg(g, tr, r.block)
                                for r in tr.roots_of_operand(t["args"][0]))):
                n += 1
                R.ok("descriptors are visited by a forward iterator over the control-message data (or an in-order copy of it)", g.loc(b), cfg)
        bad = [b for b, t in g.calls() if strip_generics(callee_name(t)) in ("std::vec::Vec::insert", "std::iter::Iterator::rev", "core::slice::reverse")]
        if bad:
            R.violate("%s:split-reorders" % g.path, "the split loop inserts or reverses", g.path, g.loc(bad[0]), config=cfg)
    f = send_fn(F)
    if f:
        _REORDER = ("std::iter::Iterator::rev", "std::vec::Vec::insert", "core::slice::reverse", "core::slice::sort", "core::slice::sort_unstable", "core::slice::sort_by", "core::slice::sort_by_key",
                    "core::slice::sort_unstable_by", "core::slice::sort_unstable_by_key", "std::iter::Iterator::partition", "std::iter::Iterator::filter", "std::iter::Iterator::filter_map",
                    "std::iter::Iterator::skip", "std::iter::Iterator::skip_while", "std::iter::Iterator::step_by", "std::iter::Iterator::take_while", "std::vec::Vec::retain", "std::vec::Vec::swap_remove",
                    "std::vec::Vec::dedup", "core::slice::swap", "core::slice::rotate_left", "core::slice::rotate_right", "std::vec::Vec::split_off", "std::iter::Iterator::unzip")
        bad = [b for b, t in f.calls() if strip_generics(callee_name(t)) in _REORDER or strip_generics(t.get("callee") or "") in _REORDER]
        # only calls that touch the attachment lists (not, say, a sort of something unrelated)
        trf0 = Tracer(f)
        bad = [b for b in bad if any(any(r.kind == "param" and r.id in (3, 4) for r in trf0.roots_of_operand(a)) or "OsIpcChannel" in " ".join(f.term(b).get("generics", [])) or "OsIpcSharedMemory" in " ".join(f.term(b).get("generics", []))
                                     for a in f.term(b)["args"])]
        iters = [b for b, t in f.calls() if strip_generics(callee_name(t)) == "core::slice::iter" or
                 ((strip_generics(t.get("callee") or "") == "std::iter::IntoIterator::into_iter" or strip_generics(callee_name(t)).endswith("IntoIterator>::into_iter")) and t["args"] and
                  any(r.kind == "param" and r.id in (3, 4) for r in trf0.roots_of_operand(t["args"][0])) and f.local_ty(op_local(t["args"][0]) or 0).startswith("&"))]
        if len(iters) < 2:
            # no slice iterators: the lists are walked some other forward way (an index loop over 0..len, `extend` of a mapped iterator): the sites are then
            # the places where elements of the two attachment parameters are read -- by index with the loop variable of a forward range, or handed to extend
            def from_param(op, depth=0):
                out = set()
                for r in trf0.roots_of_operand(op):
                    if r.kind == "param" and r.id in (3, 4):
                        out.add(r.id)
                    elif r.kind == "call" and r.block is not None and depth < 4:
                        for a in f.term(r.block)["args"]:
                            out |= from_param(a, depth + 1)
                return out
            reads = []
            for b, t in f.calls():
                nm = strip_generics(callee_name(t))
                if (nm.endswith("::index") or nm.endswith("::extend") or nm.endswith("::collect")) and t["args"]:
                    srcs = set()
                    for a in t["args"]:
                        srcs |= from_param(a)
                    if srcs:
                        fwd = True
                        if nm.endswith("::index") and len(t["args"]) > 1:
                            ir = trf0.roots_of_operand(t["args"][1])
                            fwd = bool(ir) and all(r.kind == "agg" and "Range" in str(r.id) for r in ir)
                        reads.append((b, min(srcs), fwd))
            if len(reads) >= 2 and not bad:
                n += len(reads)
                reads.sort(key=lambda x: len(f.dominators().get(x[0], ())))
                if not all(x[2] for x in reads):
                    R.violate("%s:collection-index" % f.path, "an attachment list is not read at the plain forward loop index", f.path, f.loc(reads[0][0]), config=cfg)
                elif reads[0][1] == 3:
                    R.ok("sender collects channel descriptors first, then regions (index / extend form)", f.loc(reads[0][0]), cfg)
                else:
                    R.violate("%s:collection-order" % f.path, "the sender does not collect channels before regions", f.path, f.loc(reads[0][0]), config=cfg)
                iters = []
        n += len(iters)
        # every element contributes its descriptor: a push that an iteration can go round (`if fd >= 0 { fds.push(fd) }`) makes the descriptor list shorter than the
        # list of indices the payload refers to -- every later endpoint arrives as its neighbour
        for pb, pt in f.calls():
            if strip_generics(callee_name(pt)) != "std::vec::Vec::push" or "i32" not in " ".join(pt.get("generics", [])):
                continue
            hs = [h for h in f.loop_headers() if pb in f.natural_loop(h)]
            if not hs:
                continue
            h = min(hs, key=lambda x: len(f.natural_loop(x)))
            loop = f.natural_loop(h)
            latches = [x for x in loop if h in f.succ(x)]
            if latches and not all(f.dominates(pb, x) for x in latches):
                R.violate("%s:collection-skips-elements" % f.path, "an iteration of a descriptor collection loop can go round the push: the descriptors sent no longer correspond one to one "
                          "to the endpoints the payload refers to by index", f.path, f.loc(pb), config=cfg)
            else:
                R.ok("every iteration of the collection loop pushes its descriptor", f.loc(pb), cfg)
        if bad:
            R.violate("%s:collection-reorders" % f.path, "the descriptor collection loops reorder the list", f.path, f.loc(bad[0]), config=cfg)
        elif len(iters) >= 2:
            # channels first, then regions: the first loop iterates the OsIpcChannel vector
            trf = Tracer(f)
            firsts = sorted(iters, key=lambda b: len(f.dominators()[b]))
            t0 = f.term(firsts[0])
            ty0 = f.local_ty(_root_local(f, trf, t0["args"][0]))
            if "OsIpcChannel" in ty0:
                R.ok("sender collects channel descriptors first, then regions, iterating forward", f.loc(firsts[0]), cfg)
            else:
                R.violate("%s:collection-order" % f.path, "the sender does not collect channels before regions (first loop iterates %s): the receiver's is_socket split still works but C04's wire order changes" % ty0, f.path, f.loc(firsts[0]), config=cfg)
    R.count("order_sites[%s]" % cfg, n)



# --------------------------------------------------------------------------- IDX-BASE
WHOLE_EXCHANGES = ("std::mem::replace", "std::mem::take", "std::cell::RefCell::replace", "std::cell::RefCell::take", "std::cell::RefCell::into_inner",
                   "std::cell::RefCell::<T>::replace", "std::cell::RefCell::<T>::take")
GROWERS = ("std::vec::Vec::push", "std::vec::Vec::extend", "std::vec::Vec::append", "std::vec::Vec::insert", "std::vec::Vec::extend_from_slice",
           "std::vec::Vec::resize", "std::vec::Vec::resize_with", "std::iter::Extend::extend", "std::vec::Vec::splice")
DE_ELEMS = ("Option<platform::unix::OsOpaqueIpcChannel>", "Option<platform::unix::OsIpcSharedMemory>", "Option<platform::inprocess::OsOpaqueIpcChannel>",
            "Option<platform::inprocess::OsIpcSharedMemory>", "OsOpaqueIpcChannel", "Option<")


def rule_idx_base(ctx, cfg, F):
    R = ctx.rule("IDX-BASE", "attachment indices are absolute positions, so the lists and the indices must share base 0: the attachment lists handed to the platform send are the WHOLE "
                 "contents of the serialisation tables (taken by mem::take/replace/swap or their RefCell forms), never a suffix, slice or filtered copy; and the decode tables are only ever "
                 "exchanged whole with a received message's lists, never appended to")
    n_send = n_de = 0
    for f in sorted(F.fns.values(), key=lambda x: x.path):
        base = strip_generics(f.path)
        if not (base.startswith("ipc::") or base.startswith("<ipc::")):
            continue
        tr = None
        for b, t in f.calls():
            nm = strip_generics(callee_name(t))
            if nm.endswith("::OsIpcSender::send") and nm.startswith("platform::") and len(t["args"]) >= 4:
                tr = tr or Tracer(f)
                swapped = set()
                for b2, t2 in f.calls():
                    if strip_generics(callee_name(t2)) in ("std::mem::swap", "std::cell::RefCell::swap"):
                        for a in t2["args"]:
                            l = _root_local(f, tr, a)
                            if l is not None:
                                swapped.add(l)
                for ai, what in ((2, "channel"), (3, "shared-memory region")):
                    n_send += 1
                    # (the flow-insensitive slice also follows the error residual of `?`; a serializer-crate call cannot produce an attachment list)
                    roots = {r for r in tr.roots_of_operand(t["args"][ai]) if not (r.kind == "call" and strip_generics(r.id).split("::")[0] in ("bincode", "serde"))}
                    names = {strip_generics(r.id) for r in roots if r.kind == "call"}
                    others = [r for r in roots if r.kind != "call"]
                    whole = names and all(n in WHOLE_EXCHANGES or n == "std::vec::Vec::new" or n.endswith("::default") for n in names)
                    via_swap = _root_local(f, tr, t["args"][ai]) in swapped
                    # an exchange must actually touch a side table
                    touches = True
                    for r in roots:
                        if r.kind == "call" and strip_generics(r.id) in ("std::mem::replace", "std::mem::take"):
                            tt = f.term(r.block)
                            if "std::cell::RefCell::borrow_mut" not in chain_calls(f, tt["args"][0]):
                                touches = False
                    if (whole and not others and touches) or (via_swap and not (names - set(WHOLE_EXCHANGES) - {"std::vec::Vec::new"})):
                        R.ok("%s: the %s list sent is the whole table content (%s)" % (f.path, what, ", ".join(sorted(n.split("::")[-1] for n in names)) or "swap"), f.loc(b), cfg)
                    else:
                        R.violate("%s:%s-list-not-whole-table" % (base, what.split()[0]),
                                  "the %s list handed to the platform send is not the whole serialisation table (origins: %s): indices written into the byte stream are absolute table positions, "
                                  "so a suffix/slice/filtered list makes them point at the wrong attachment whenever the table was not empty (nested send)" % (what, sorted(map(repr, roots))),
                                  f.path, f.loc(b), config=cfg)
            # decode tables: never grown in place
            if nm in GROWERS and t["args"] and "std::cell::RefCell::borrow_mut" in chain_calls(f, t["args"][0]):
                g = " ".join(t.get("generics", []))
                if "Option<" in g and any(e in g for e in SIDE_ELEMS):
                    n_de += 1
                    R.violate("%s:decode-table-grown" % base, "%s appends to a decode side table: entries of another message shift the base of this message's indices" % nm.split("::")[-1], f.path, f.loc(b), config=cfg)
    # the installation of the received lists: whole exchanges in the function that runs the decoder
    for f in sorted(F.fns.values(), key=lambda x: x.path):
        base = strip_generics(f.path)
        if not base.startswith("ipc::"):
            continue
        if not any(strip_generics(callee_name(t)).startswith("bincode::deserialize") or strip_generics(t.get("callee") or "").startswith("bincode::deserialize") for _, t in f.calls()):
            continue
        ex = [(b, t) for b, t in f.calls() if strip_generics(callee_name(t)) in ("std::mem::swap", "std::mem::replace", "std::mem::take", "std::cell::RefCell::swap", "std::cell::RefCell::replace", "std::cell::RefCell::take")
              and any("std::cell::RefCell::borrow_mut" in chain_calls(f, a) or "RefCell" in f.local_ty(op_local(a) or 0) for a in t["args"] if op_place(a) is not None)]
        n_de += len(ex)
        if len(ex) >= 2:
            R.ok("%s installs the received lists by whole exchange (%d exchange sites)" % (f.path, len(ex)), f.loc(ex[0][0]), cfg)
        else:
            R.violate("%s:decode-install-not-exchange" % base, "the function that runs the decoder does not install the received attachment lists by whole exchange with the decode tables (%d exchange sites found)" % len(ex), f.path, f.loc(0), config=cfg)
    R.count("send_lists[%s]" % cfg, n_send)
    R.count("decode_exchanges[%s]" % cfg, n_de)


# =========================================================================== C01

def rule_whole_buf(ctx, cfg, F):
    R = ctx.rule("WHOLE-BUF", "the ipc layer hands the whole serialised vector (RangeFull) to the platform send and returns the platform payload unchanged; "
                 "the in-process queue stores to_vec() of the whole data slice and returns it unchanged")
    n = 0
    for f in sorted(F.fns.values(), key=lambda x: x.path):
        base = strip_generics(f.path)
        tr = None
        for b, t in f.calls():
            nm = strip_generics(callee_name(t))
            if nm.endswith("::OsIpcSender::send") and nm.startswith("platform::") and (base.startswith("ipc::")):
                n += 1
                tr = tr or Tracer(f)
                a = t["args"][1]
                blk = None
                l = op_local(a)
                roots = tr.roots_of_operand(a)
                if base.startswith("ipc::IpcBytesSender::send"):
                    ok = all(r.kind == "param" and r.id == 2 and not r.path for r in roots) and bool(roots)
                    what = "its data parameter unchanged"
                else:
                    idx = [r for r in roots if r.kind == "call" and strip_generics(r.id) in ("std::ops::Index::index", "<std::vec::Vec<T, A> as std::ops::Index<I>>::index")]
                    ok = False
                    if idx and len(roots) == 1:
                        it = f.term(idx[0].block)
                        full = any("RangeFull" in g for g in it.get("generics", []))
                        # the indexed vector is the one bincode wrote into
                        vroots = {r.key() for r in tr.roots_of_operand(it["args"][0])}
                        wrote = False
                        for b2, t2 in f.calls():
                            if strip_generics(callee_name(t2)).startswith("bincode::serialize"):
                                wrote = bool({r.key() for r in tr.roots_of_operand(t2["args"][0])} & vroots)
                        ok = full and wrote
                    elif roots and not idx:
                        # `&bytes` / `bytes.as_slice()` / `&*bytes`: the whole vector by deref, no slicing call on the way
                        wv = set()
                        for b2, t2 in f.calls():
                            if strip_generics(callee_name(t2)).startswith("bincode::serialize"):
                                wv |= {r.key() for r in tr.roots_of_operand(t2["args"][0])}
                        ok = {r.key() for r in roots} <= wv and not any(n_.endswith("index") or n_.endswith("get") or "split" in n_ for n_ in chain_calls(f, a))
                    what = "&bytes[..] of the vector bincode wrote into"
                if ok:
                    R.ok("%s passes %s" % (base, what), f.loc(b), cfg)
                else:
                    R.violate("%s:payload-not-whole" % base, "%s does not pass %s to the platform send (%s)" % (base, what, sorted(map(repr, roots))[:3]), f.path, f.loc(b), config=cfg)
        if base in ("ipc::IpcBytesReceiver::recv", "ipc::IpcBytesReceiver::try_recv"):
            n += 1
            tr = Tracer(f)
            oks = []
            for b in f.live_blocks():
                for st in f.stmts(b):
                    if st["s"] == "assign" and st["lhs"]["l"] == 0 and st["rv"]["r"] == "agg" and st["rv"]["kind"].get("variant") == "Ok":
                        rs = tr.roots_of_operand(st["rv"]["a"][0])
                        oks.append(all(r.kind == "call" and "::OsIpcReceiver::" in r.id and r.field_idx()[-1:] == (0,) for r in rs) and bool(rs))
            if not oks:
                # the result is produced by a combinator call (`.map(..).map_err(..)`): look at the Ok payload of the return place
                rs = tr.roots(0, (("v", 0, "Ok"), ("f", 0, "0")))
                oks.append(all(r.kind == "call" and "::OsIpcReceiver::" in r.id and r.field_idx()[-1:] == (0,) for r in rs) and bool(rs))
            if oks and all(oks):
                R.ok("%s returns field 0 of the platform result unchanged" % base, f.loc(0), cfg)
            else:
                R.violate("%s:payload-altered" % base, "%s does not return the platform payload unchanged" % base, f.path, f.loc(0), config=cfg)
        if base.startswith("platform::inprocess::OsIpcReceiver::") and base.split("::")[-1] in ("recv", "try_recv", "try_recv_timeout"):
            n += 1
            tr = Tracer(f)
            good = False
            for b in f.live_blocks():
                for st in f.stmts(b):
                    if st["s"] == "assign" and st["rv"]["r"] == "agg" and "tuple" in st["rv"]["kind"] and len(st["rv"]["a"]) == 3:
                        rs = tr.roots_of_operand(st["rv"]["a"][0])
                        good = all(r.kind == "call" and r.id.startswith("crossbeam_channel::Receiver::") and r.field_idx()[-1:] == (0,) for r in rs) and bool(rs)
            if good:
                R.ok("%s returns the queued payload unchanged" % base, f.loc(0), cfg)
            else:
                R.violate("%s:payload-altered" % base, "%s does not return the queued payload (field 0 of the message) unchanged" % base, f.path, f.loc(0), config=cfg)
    R.count("payload_sites[%s]" % cfg, n)


def rule_hdr_sym(ctx, cfg, F):
    R = ctx.rule("HDR-SYM", "the length header is symmetric: the sender's iovec[0] points at its total-length parameter with size_of that type; the receiver's iovec[0] points at a local of "
                 "the same type with the same size, and exactly that size is subtracted from the bytes read")
    ff = first_fragment_fn(F)
    g = next((x for x in F.fns.values() if any(strip_generics(callee_name(t)) == "libc::recv" for _, t in x.calls())), None)
    if not ff or not g:
        R.violate("anchor-missing:header-functions", "sendmsg wrapper or reassembly function not found", config=cfg)
        return
    send_ty = _iov0_type(ff, R, cfg, "send")
    recv_ty = _iov0_type(g, R, cfg, "recv")
    if send_ty and recv_ty:
        if send_ty[0] == recv_ty[0] and send_ty[1] == recv_ty[1]:
            R.ok("header type agrees: %s on both sides, length = size_of_val::<%s>" % (send_ty[0], send_ty[1]), ff.loc(0), cfg)
        else:
            R.violate("header-type-mismatch", "sender writes a %s header (size_of %s), receiver reads %s (size_of %s): every payload byte would shift" % (send_ty + recv_ty), g.path, g.loc(0), config=cfg)
    # the subtraction before set_len uses the same size
    ex = Expr(g)
    subs = 0
    for b, t in g.calls_to("std::vec::Vec::set_len"):
        e = ex.of_operand(t["args"][1])
        if e[0] == "bin" and e[1] == "Sub" and e[3][0] == "call" and e[3][1] in ("std::mem::size_of_val", "std::mem::size_of"):
            subs += 1
            hb = e[3][3]
            gty = [x for x in g.term(hb).get("generics", [])]
            if recv_ty and gty and gty[0] == recv_ty[1]:
                R.ok("bytes_read - size_of::<%s>() is the payload length" % gty[0], g.loc(b), cfg)
            else:
                R.violate("%s:header-size-subtracted" % g.path, "the size subtracted from the bytes read (%s) is not the header's size (%s)" % (gty, recv_ty), g.path, g.loc(b), config=cfg)
    R.count("header_subtractions[%s]" % cfg, subs)


def _iov0_type(f, R, cfg, side):
    tr = Tracer(f)
    iov = []
    for b in sorted(f.live_blocks()):
        for si, st in enumerate(f.stmts(b)):
            if st["s"] == "assign" and st["rv"]["r"] == "agg" and st["rv"]["kind"].get("adt") == "libc::iovec":
                iov.append((b, si, st))
    # iovec[0] = the first element of the array aggregate
    arr = None
    for b in sorted(f.live_blocks()):
        for st in f.stmts(b):
            if st["s"] == "assign" and st["rv"]["r"] == "agg" and "array" in st["rv"]["kind"] and st["rv"]["a"] and "iovec" in f.local_ty(st["lhs"]["l"]):
                arr = st
    if not arr:
        R.violate("%s:no-iovec-array" % f.path, "no iovec array in %s" % f.path, f.path, config=cfg)
        return None
    first = _copy_root(f, arr["rv"]["a"][0])          # the entry may have been given a name first (`let header = iovec { .. }; [header, data]`)
    st0 = next((st for b, si, st in iov if st["lhs"]["l"] == first), None)
    if st0 is None:
        R.violate("%s:iovec0-unresolved" % f.path, "cannot resolve iovec[0] of %s" % f.path, f.path, config=cfg)
        return None
    base_roots = tr.roots_of_operand(st0["rv"]["a"][0])
    ty = None
    rp = ref_place(f, st0["rv"]["a"][0])
    if rp is not None and not rp[1] and not f.local_ty(rp[0]).startswith("*") and not (1 <= rp[0] <= f.argc and f.local_ty(rp[0]).startswith("&")):
        ty = f.local_ty(rp[0])          # the scalar whose address is taken (through `as` casts, .cast(), addr_of_mut!)
    for r in (base_roots if ty is None else ()):
        if r.kind == "param" and not r.path:
            ty = f.local_ty(r.id)
        elif r.kind == "const" and len(base_roots) >= 1:
            continue
        elif r.kind == "local":
            ty = f.local_ty(r.id)
    if ty is None:
        # address of a local with a constant initialiser: take the local from the raw/ref chain
        l = _root_local(f, tr, st0["rv"]["a"][0])
        ty = f.local_ty(l) if l is not None else None
    len_roots = tr.roots_of_operand(st0["rv"]["a"][1])
    lty = None
    for r in len_roots:
        if r.kind == "call" and r.id in ("std::mem::size_of_val", "std::mem::size_of"):
            g = f.term(r.block).get("generics", [])
            lty = g[0] if g else None
    if ty is None or lty is None:
        R.violate("%s:header-shape" % f.path, "iovec[0] of %s is not (address of a scalar, size_of_val of it): base %s, len %s" % (f.path, sorted(map(repr, base_roots)), sorted(map(repr, len_roots))), f.path, config=cfg)
        return None
    ty = ty.replace("&mut ", "").replace("&", "")
    if ty != lty:
        R.violate("%s:header-length-type" % f.path, "iovec[0] points at a %s but its length is size_of %s" % (ty, lty), f.path, config=cfg)
        return None
    R.count("iovec0[%s]" % cfg)
    return (ty, lty)


def rule_frag_contig(ctx, cfg, F):
    R = ctx.rule("FRAG-CONTIG", "in the fragment loop there is one position variable P: the follow-up transmitter gets data[P..E], the in-loop first fragment gets data[..E] under the guard P == 0, "
                 "the only assignment to P in the loop is P = E with that same E; every first-fragment call announces len(data) of the whole parameter as the total length")
    f, ff, fu = send_fn(F), first_fragment_fn(F), followup_fn(F)
    if not f or not ff or not fu:
        R.violate("anchor-missing:send", "send functions not found", config=cfg)
        return
    tr = Tracer(f)
    ex = Expr(f)
    P = _position_local(f, tr)
    if P is None:
        R.violate("%s:no-position-variable" % f.path, "no loop position variable found", f.path, config=cfg)
        return
    data_param = next((i for i in range(1, f.argc + 1) if f.local_ty(i) == "&[u8]"), None)
    ffname, funame = strip_generics(ff.path), strip_generics(fu.path)
    if position_kind(f, P) == "slice":
        return _frag_contig_slice(R, cfg, f, ff, fu, P, data_param, ex)
    ff_data = next(i for i in range(1, ff.argc + 1) if ff.local_ty(i) == "&[u8]") - 1
    ff_len = next(i for i in range(1, ff.argc + 1) if ff.local_ty(i) == "usize") - 1
    fu_data = next(i for i in range(1, fu.argc + 1) if fu.local_ty(i) == "&[u8]") - 1
    n = 0
    E_locals = set()
    E_sites = {}
    E1_locals = set()
    first_blocks = []
    # two-phase form: the in-loop first-fragment calls and the follow-up calls sit in different loops, the former ahead of the latter
    ff_loop_calls = [b for b, t in f.calls() if strip_generics(callee_name(t)) == ffname and _in_loop(f, b)]
    fu_calls = [b for b, t in f.calls() if strip_generics(callee_name(t)) == funame]
    two_phase = bool(ff_loop_calls) and bool(fu_calls) and not any(fb in f.natural_loop(h) and ub in f.natural_loop(h) for h in f.loop_headers() for fb in ff_loop_calls for ub in fu_calls) \
        and not any(fb in f.reachable(ub) for fb in ff_loop_calls for ub in fu_calls)
    for b, t in f.calls():
        nm = strip_generics(callee_name(t))
        if nm == ffname:
            n += 1
            le = expr_strip_blocks(ex.of_operand(t["args"][ff_len]))
            if le == ("call", "core::slice::len", (("param", data_param),)):
                R.ok("first-fragment call announces len(data)", f.loc(b), cfg)
            elif le == ("const", 0) and _under_is_empty(f, ex, b, data_param):
                R.ok("first-fragment call announces 0 where data is known to be empty", f.loc(b), cfg)
            else:
                R.violate("%s:announced-length:%s" % (f.path, "loop" if _in_loop(f, b) else "single"), "the total length announced in the header is %s, not len(data)" % expr_str(ex.of_operand(t["args"][ff_len])), f.path, f.loc(b), config=cfg)
            de = expr_strip_blocks(ex.of_operand(t["args"][ff_data]))
            if _in_loop(f, b) and two_phase:
                # the first fragment has a retry loop of its own, ahead of the follow-up loop: it sends data[..E1] and the position starts at that E1
                e1 = _range_end_local(f, t["args"][ff_data], "RangeTo")
                if de[0] == "call" and de[1].endswith("index") and de[2][0] == ("param", data_param) and de[2][1][0] == "agg" and de[2][1][1].endswith("RangeTo::RangeTo") and e1 is not None:
                    E1_locals.add(e1)
                    first_blocks.append(b)
                    R.ok("first fragment (own retry loop) sends data[..E1]", f.loc(b), cfg)
                else:
                    R.violate("%s:first-fragment-slice" % f.path, "the first fragment does not send data[..E] (%s)" % expr_str(de)[:80], f.path, f.loc(b), config=cfg)
            elif _in_loop(f, b):
                if de[0] == "call" and de[1].endswith("index") and de[2][0] == ("param", data_param) and de[2][1][0] == "agg" and de[2][1][1].endswith("RangeTo::RangeTo"):
                    e = de[2][1][2][0]
                    if e[0] == "var":
                        E_locals.add(e[1])
                        E_sites.setdefault(e[1], []).append(b)
                    elif _range_end_local(f, t["args"][ff_data], "RangeTo") is not None:
                        e1 = _range_end_local(f, t["args"][ff_data], "RangeTo")
                        E_locals.add(e1)
                        E_sites.setdefault(e1, []).append(b)
                    R.ok("in-loop first fragment sends data[..E]", f.loc(b), cfg)
                elif de[0] == "call" and de[1].endswith("index") and de[2][0] == ("param", data_param) and de[2][1][0] == "agg" and de[2][1][1].endswith("Range::Range") and de[2][1][2][0] == ("var", P):
                    # one slice expression data[P..E] for both kinds of fragment: under the guard P == 0 (checked next) it is data[..E]
                    e = de[2][1][2][1]
                    if e[0] == "var":
                        E_locals.add(e[1])
                    R.ok("in-loop first fragment sends data[P..E] (with P == 0)", f.loc(b), cfg)
                else:
                    R.violate("%s:first-fragment-slice" % f.path, "the in-loop first fragment does not send data[..E] (%s)" % expr_str(de)[:80], f.path, f.loc(b), config=cfg)
                # guarded by P == 0
                guard = False
                for s in f.live_blocks():
                    if f.term(s)["t"] == "switch" and f.dominates(s, b):
                        for tgt in f.succ(s):
                            if tgt == b or f.dominates(tgt, b):
                                for lab in edge_label(f, s, tgt):
                                    if lab["kind"] == "cmp" and ((lab["op"] == "Eq" and lab["truth"]) or (lab["op"] == "Ne" and not lab["truth"])) and op_const(lab["b"]) == 0 and _is_var(f, lab["a"], P):
                                        guard = True
                                    if lab["kind"] == "val" and lab.get("value") == 0 and not lab["place"].get("p") and _is_var(f, {"k": "cp", "pl": lab["place"]}, P):
                                        guard = True     # `match position { 0 => .. }`
                if guard:
                    R.ok("in-loop first fragment is guarded by P == 0", f.loc(b), cfg)
                else:
                    R.violate("%s:first-fragment-guard" % f.path, "the in-loop first fragment is not guarded by position == 0", f.path, f.loc(b), config=cfg)
            else:
                if de == ("param", data_param):
                    R.ok("single-packet attempt sends the whole data slice", f.loc(b), cfg)
                else:
                    R.violate("%s:single-packet-slice" % f.path, "the single-packet attempt does not send the whole data slice (%s)" % expr_str(de)[:80], f.path, f.loc(b), config=cfg)
        elif nm == funame:
            n += 1
            de = expr_strip_blocks(ex.of_operand(t["args"][fu_data]))
            okk = de[0] == "call" and de[1].endswith("index") and de[2][0] == ("param", data_param) and de[2][1][0] == "agg" and de[2][1][1].endswith("Range::Range")
            if okk:
                s_, e_ = de[2][1][2]
                e2 = _range_end_local(f, t["args"][fu_data], "Range")
                if s_ == ("var", P) and e_[0] == "var":
                    E_locals.add(e_[1])
                    E_sites.setdefault(e_[1], []).append(b)
                    R.ok("follow-up transmitter sends data[P..E]", f.loc(b), cfg)
                elif s_ == ("var", P) and e2 is not None:
                    E_locals.add(e2)
                    E_sites.setdefault(e2, []).append(b)
                    R.ok("follow-up transmitter sends data[P..E] (E a per-iteration local)", f.loc(b), cfg)
                else:
                    R.violate("%s:followup-slice-bounds" % f.path, "the follow-up slice is data[%s..%s], not data[P..E]" % (expr_str(s_), expr_str(e_)), f.path, f.loc(b), config=cfg)
            else:
                R.violate("%s:followup-slice" % f.path, "the follow-up transmitter does not get data[P..E] (%s)" % expr_str(de)[:80], f.path, f.loc(b), config=cfg)
    # assignments to P
    defs = [d for d in f.defs().get(P, []) if not f.is_cleanup(d[0])]
    in_loop = [d for d in defs if _in_loop(f, d[0])]
    init = [d for d in defs if not _in_loop(f, d[0])]
    if len(E_locals) > 1 and not two_phase and len(in_loop) == 1 and in_loop[0][1] is not None and in_loop[0][2]["rv"]["r"] == "use" and _phi_of_ends(f, in_loop[0][2]["rv"]["a"][0], E_locals, E_sites):
        # each arm computes an end of its own and hands it on (`let (end, result) = match P { 0 => (e0, ..), _ => (e1, ..) }; P = end`): the value P gets is, on every path,
        # the end of the slice that was transmitted on that path
        if len(init) == 1 and init[0][1] is not None and op_const(init[0][2]["rv"]["a"][0]) == 0:
            R.ok("P starts at 0 and its only assignment in the loop is P = E, E the end of the slice transmitted on the path taken", f.loc(in_loop[0][0]), cfg)
        else:
            R.violate("%s:position-update" % f.path, "the position variable does not start at 0", f.path, f.loc((init or in_loop)[0][0]), config=cfg)
    elif len(E_locals) != 1:
        R.violate("%s:end-variable" % f.path, "the two transmissions do not share one end variable E (%s)" % sorted(E_locals), f.path, config=cfg)
    else:
        E = next(iter(E_locals))
        good = len(in_loop) == 1 and in_loop[0][1] is not None and in_loop[0][2]["rv"]["r"] == "use" and (_is_var(f, in_loop[0][2]["rv"]["a"][0], E) or _copy_root(f, in_loop[0][2]["rv"]["a"][0]) == E)
        init_ok = len(init) == 1 and init[0][1] is not None and op_const(init[0][2]["rv"]["a"][0]) == 0
        if two_phase:
            # the position is initialised with the end of the first fragment, on the way out of its retry loop (after a transmission that succeeded)
            init_ok = len(E1_locals) == 1 and len(init) == 1 and init[0][1] is not None and init[0][2]["rv"]["r"] == "use" and \
                (_is_var(f, init[0][2]["rv"]["a"][0], next(iter(E1_locals))) or _copy_root(f, init[0][2]["rv"]["a"][0]) == next(iter(E1_locals))) and \
                all(f.dominates(fb, init[0][0]) for fb in first_blocks) and bool(first_blocks)
        if good and init_ok:
            R.ok("P starts at 0 and its only assignment in the loop is P = E", f.loc(in_loop[0][0]), cfg)
        else:
            R.violate("%s:position-update" % f.path, "the position variable is not updated by exactly `P = E` in the loop (loop assignments: %d, initialisation to 0: %s)" % (len(in_loop), init_ok), f.path, f.loc((in_loop or init or [(0,)])[0][0]), config=cfg)
    R.count("transmission_sites[%s]" % cfg, n)


def _frag_contig_slice(R, cfg, f, ff, fu, P, data_param, ex):
    """FRAG-CONTIG when the position is kept as the unsent tail `rest: &[u8]`: every in-loop transmission gets a prefix `rest[..n]` (the first one under the guard
    rest.len() == data.len()), and the only in-loop assignment is `rest = &rest[sent.len()..]` with `sent` the very slice that was transmitted"""
    ffname, funame = strip_generics(ff.path), strip_generics(fu.path)
    ff_data = next(i for i in range(1, ff.argc + 1) if ff.local_ty(i) == "&[u8]") - 1
    ff_len = next(i for i in range(1, ff.argc + 1) if ff.local_ty(i) == "usize") - 1
    fu_data = next(i for i in range(1, fu.argc + 1) if fu.local_ty(i) == "&[u8]") - 1
    n = 0
    sent_vars = set()

    def prefix_of_rest(e):
        return e[0] == "call" and e[1].endswith("index") and e[2][0] == ("var", P) and e[2][1][0] == "agg" and e[2][1][1].endswith("RangeTo::RangeTo")

    def sent_slice(b, e, what):
        """the data argument: rest[..n] directly, or a local all of whose definitions are such prefixes"""
        if prefix_of_rest(e):
            return True
        if e[0] == "var":
            ds = [d for d in f.defs().get(e[1], []) if d[1] is not None and not f.is_cleanup(d[0])]
            if ds and all(d[2]["rv"]["r"] in ("use", "ref") and prefix_of_rest(expr_strip_blocks(ex.of_operand(d[2]["rv"]["a"][0]) if d[2]["rv"]["r"] == "use" else ex.of_rvalue(d[2]["rv"], 0))) for d in ds):
                sent_vars.add(e[1])
                return True
        return False
    for b, t in f.calls():
        nm = strip_generics(callee_name(t))
        if nm == ffname:
            n += 1
            le = expr_strip_blocks(ex.of_operand(t["args"][ff_len]))
            if le == ("call", "core::slice::len", (("param", data_param),)):
                R.ok("first-fragment call announces len(data)", f.loc(b), cfg)
            else:
                R.violate("%s:announced-length:%s" % (f.path, "loop" if _in_loop(f, b) else "single"), "the total length announced in the header is %s, not len(data)" % expr_str(ex.of_operand(t["args"][ff_len])), f.path, f.loc(b), config=cfg)
            de = expr_strip_blocks(ex.of_operand(t["args"][ff_data]))
            if _in_loop(f, b):
                if sent_slice(b, de, "first"):
                    R.ok("in-loop first fragment sends a prefix of the unsent tail", f.loc(b), cfg)
                else:
                    R.violate("%s:first-fragment-slice" % f.path, "the in-loop first fragment does not send rest[..E] (%s)" % expr_str(de)[:80], f.path, f.loc(b), config=cfg)
                guard = False
                for s_ in f.live_blocks():
                    if f.term(s_)["t"] == "switch" and f.dominates(s_, b):
                        for tgt in f.succ(s_):
                            if tgt == b or f.dominates(tgt, b):
                                if any(at_start_test(f, P, lab, ex) is True for lab in edge_label(f, s_, tgt)):
                                    guard = True
                if guard:
                    R.ok("in-loop first fragment is guarded by rest.len() == data.len()", f.loc(b), cfg)
                else:
                    R.violate("%s:first-fragment-guard" % f.path, "the in-loop first fragment is not guarded by position == 0", f.path, f.loc(b), config=cfg)
            else:
                if de == ("param", data_param):
                    R.ok("single-packet attempt sends the whole data slice", f.loc(b), cfg)
                else:
                    R.violate("%s:single-packet-slice" % f.path, "the single-packet attempt does not send the whole data slice (%s)" % expr_str(de)[:80], f.path, f.loc(b), config=cfg)
        elif nm == funame:
            n += 1
            de = expr_strip_blocks(ex.of_operand(t["args"][fu_data]))
            if sent_slice(b, de, "followup"):
                R.ok("follow-up transmitter sends a prefix of the unsent tail", f.loc(b), cfg)
            else:
                R.violate("%s:followup-slice" % f.path, "the follow-up transmitter does not get rest[..N] (%s)" % expr_str(de)[:80], f.path, f.loc(b), config=cfg)
    defs = [d for d in f.defs().get(P, []) if not f.is_cleanup(d[0]) and d[1] is not None]
    in_loop = [d for d in defs if _in_loop(f, d[0])]
    good = False
    if len(in_loop) == 1:
        st = in_loop[0][2]
        e = expr_strip_blocks(ex.of_operand(st["rv"]["a"][0]) if st["rv"]["r"] == "use" else ex.of_rvalue(st["rv"], 0))
        if e[0] == "call" and e[1].endswith("index") and e[2][0] == ("var", P) and e[2][1][0] == "agg" and e[2][1][1].endswith("RangeFrom::RangeFrom"):
            adv = e[2][1][2][0]
            good = len(sent_vars) == 1 and adv == ("call", "core::slice::len", (("var", next(iter(sent_vars))),))
    if good:
        R.ok("the tail starts as the whole data and its only assignment in the loop drops exactly the slice that was sent", f.loc(in_loop[0][0]), cfg)
    else:
        R.violate("%s:position-update" % f.path, "the unsent tail is not advanced by exactly `rest = &rest[sent.len()..]` in the loop (loop assignments: %d, transmitted slices: %s)" % (len(in_loop), sorted(sent_vars)), f.path, f.loc((in_loop or [(0,)])[0][0]), config=cfg)
    R.count("transmission_sites[%s]" % cfg, n)


def _copy_root(f, operand):
    """the local a chain of plain single-definition copies starts from"""
    l = op_local(operand)
    if l is None or (op_place(operand) or {}).get("p"):
        return None
    for _ in range(12):
        ds = [d for d in f.defs().get(l, []) if not f.is_cleanup(d[0])]
        if len(ds) == 1 and ds[0][1] is not None and ds[0][2]["rv"]["r"] == "use" and not ds[0][2]["lhs"].get("p"):
            src = ds[0][2]["rv"]["a"][0]
            if op_local(src) is not None and not src["pl"].get("p"):
                l = op_local(src)
                continue
        break
    return l


def _phi_of_ends(f, operand, E_locals, E_sites):
    """the operand is (a copy of) a local X with several definitions, every one of them a copy of one of the end locals, made in a block that the transmission
    with that end dominates -- and every end local is handed on by some definition"""
    X = _copy_root(f, operand)
    if X is None:
        return False
    ds = [d for d in f.defs().get(X, []) if not f.is_cleanup(d[0])]
    if len(ds) < 2:
        return False
    seen = set()
    for b, si, node in ds:
        if si is None or node["rv"]["r"] != "use" or node["lhs"].get("p"):
            return False
        e = _copy_root(f, node["rv"]["a"][0])
        if e not in E_locals or not any(f.dominates(tb, b) for tb in E_sites.get(e, [])):
            return False
        seen.add(e)
    return seen == set(E_locals)


def _range_end_local(f, slice_operand, kind):
    """`data[..E]` / `data[P..E]` handed to a transmitter: the local that holds E (chasing copies), found through the index call and the range literal"""
    l = op_local(slice_operand)
    for _ in range(10):
        if l is None:
            return None
        ds = [d for d in f.defs().get(l, []) if not f.is_cleanup(d[0])]
        if len(ds) != 1:
            return None
        b, si, node = ds[0]
        if si is None:
            if strip_generics(callee_name(node)).endswith("index") and len(node["args"]) == 2:
                rl = op_local(node["args"][1])
                rds = [d for d in f.defs().get(rl, []) if not f.is_cleanup(d[0])] if rl is not None else []
                if len(rds) == 1 and rds[0][1] is not None and rds[0][2]["rv"]["r"] == "agg" and str(rds[0][2]["rv"]["kind"].get("adt", "")).endswith("::" + kind):
                    return _copy_root(f, rds[0][2]["rv"]["a"][-1])
            return None
        rv = node["rv"]
        if rv["r"] in ("use", "cast") and op_local(rv["a"][0]) is not None:
            l = op_local(rv["a"][0])
            continue
        if rv["r"] in ("ref", "raw"):
            l = rv["pl"]["l"]
            continue
        return None
    return None


def _under_is_empty(f, ex, b, data_param):
    """b is dominated by the true edge of `data.is_empty()` (or `data.len() == 0`)"""
    for s_ in f.live_blocks():
        if f.term(s_)["t"] != "switch" or not f.dominates(s_, b):
            continue
        for tgt in f.succ(s_):
            if not (tgt == b or f.dominates(tgt, b)):
                continue
            for lab in edge_label(f, s_, tgt):
                if lab["kind"] == "pred" and lab["pred"] == "is_empty" and lab["truth"] and expr_strip_blocks(ex.of_operand(lab["arg"])) == ("param", data_param):
                    return True
                if lab["kind"] == "cmp" and lab["op"] == "Eq" and lab["truth"] and op_const(lab["b"]) == 0 and \
                        expr_strip_blocks(ex.of_operand(lab["a"])) == ("call", "core::slice::len", (("param", data_param),)):
                    return True
    return False


def _in_loop(f, b):
    return any(b in f.natural_loop(h) for h in f.loop_headers())


def _is_var(f, operand, var):
    l = op_local(operand)
    seen = set()
    while l is not None and l not in seen:
        if l == var:
            return True
        seen.add(l)
        ds = [d for d in f.defs().get(l, []) if d[1] is not None and not f.is_cleanup(d[0])]
        if len(ds) != 1 or ds[0][2]["rv"]["r"] != "use":
            return False
        l = op_local(ds[0][2]["rv"]["a"][0])
    return False


_PURE_WRAPPERS = ("std::result::Result::as_ref", "std::result::Result::unwrap_or", "std::option::Option::unwrap_or", "std::result::Result::unwrap_or_default", "std::cmp::max", "std::cmp::min",
                  "std::cmp::Ord::max", "std::cmp::Ord::min", "std::ops::Deref::deref", "std::result::Result::ok", "std::result::Result::map", "std::convert::From::from",
                  "std::convert::Into::into", "std::convert::TryFrom::try_from", "std::convert::TryInto::try_into", "std::result::Result::unwrap", "std::option::Option::unwrap",
                  "std::result::Result::copied", "std::option::Option::copied", "std::ops::Try::branch")


def depends_on_calls(g, operand, limit=400):
    """(callee name, block) of every call the value may be computed from: follows copies, arithmetic, aggregates and the pure wrappers above"""
    out = set()
    seen = set()
    work = [operand["pl"]["l"]] if op_place(operand) is not None else []
    defs = g.defs()
    while work and len(seen) < limit:
        l = work.pop()
        if l in seen:
            continue
        seen.add(l)
        for (b, si, node) in defs.get(l, []):
            if g.is_cleanup(b):
                continue
            if si is None:
                nm = strip_generics(callee_name(node))
                out.add((nm, b))
                if nm in _PURE_WRAPPERS or strip_generics(node.get("callee") or "") in _PURE_WRAPPERS:
                    for a in node["args"]:
                        if op_place(a) is not None:
                            work.append(a["pl"]["l"])
                continue
            rv = node["rv"]
            for a in rv.get("a", []):
                if op_place(a) is not None:
                    work.append(a["pl"]["l"])
            if "pl" in rv:
                work.append(rv["pl"]["l"])
    return out


def rule_reasm_contig(ctx, cfg, F):
    R = ctx.rule("REASM-CONTIG", "each follow-up read writes at buffer[W..] with W = len(buffer) read at the top of the iteration, for at most (new length - W) bytes of that same slice; "
                 "afterwards the buffer's length is set to W + the bytes received (set_len or truncate) before the next read or return")
    g = next((x for x in F.fns.values() if any(strip_generics(callee_name(t)) == "libc::recv" for _, t in x.calls())), None)
    if not g:
        R.violate("anchor-missing:reassembly", "no function calls libc::recv", config=cfg)
        return
    ex = Expr(g)
    n = 0
    for b, t in g.calls_to("libc::recv"):
        n += 1
        pe = expr_strip_blocks(ex.of_operand(t["args"][1]))
        le = expr_strip_blocks(ex.of_operand(t["args"][2]))
        ok = False
        why = ""
        if pe[0] == "call" and pe[1].endswith("index_mut") and pe[2][1][0] == "agg" and pe[2][1][1].endswith("RangeFrom::RangeFrom"):
            W = pe[2][1][2][0]
            buf = pe[2][0]
            w_is_len = W[0] == "call" and W[1] == "std::vec::Vec::len" and W[2][0] == buf
            if le[0] == "bin" and le[1] == "Sub" and le[3] == W and w_is_len:
                ok = True
            elif w_is_len and ((le[0] == "call" and le[1] in ("core::slice::len",) and le[2][0] == pe) or (le[0] == "un" and le[1] in ("PtrMetadata", "len") and le[2] == pe)):
                ok = True       # the length of the very slice buffer[W..] the pointer was taken from
            else:
                why = "length %s is neither (end - W) nor the length of buffer[W..] with W = %s" % (expr_str(le)[:80], expr_str(W))
        else:
            why = "pointer is %s" % expr_str(pe)[:80]
        # after the read the length must become W + (bytes received) before the next read / return
        adv = False
        for nm_ in ("std::vec::Vec::set_len", "std::vec::Vec::truncate"):
            for b2, t2 in g.calls_to(nm_):
                if b2 not in g.reachable(t["to"]) or not g.all_paths_pass(t["to"], [b2])[0]:
                    continue
                e2 = expr_strip_blocks(ex.of_operand(t2["args"][1]))
                deps = depends_on_calls(g, t2["args"][1])
                is_sum = (e2[0] == "bin" and e2[1] in ("Add", "AddUnchecked")) or (e2[0] == "field" and e2[1][0] == "bin" and e2[1][1] == "AddWithOverflow")
                if is_sum and ("libc::recv", b) in deps and any(d[0] == "std::vec::Vec::len" for d in deps):
                    adv = True
        if ok and not adv:
            ok = False
            why = "no set_len/truncate(W + bytes received) follows the read on every path: the buffer's length does not track the bytes actually received"
        if ok:
            R.ok("follow-up read: ptr = buffer[W..], len = end - W, W = len(buffer); length advanced by the bytes received", g.loc(b), cfg)
        else:
            R.violate("%s:write-window" % g.path, "the follow-up read's destination window is not buffer[W..W+(end-W)] with W = len(buffer): %s" % why, g.path, g.loc(b), config=cfg)
    R.count("followup_reads[%s]" % cfg, n)
    # room for the whole message is made before the first follow-up read: Vec::reserve(_exact) counts from the length, so the additional
    # room asked for is (total - len(buffer)); counting from the capacity (or anything else) leaves the buffer short after a shrunk first fragment
    m = 0
    for b, t in g.calls_to("std::vec::Vec::reserve_exact", "std::vec::Vec::reserve"):
        if not any(b2 in g.reachable(t["to"]) for b2, _ in g.calls_to("libc::recv")):
            continue
        m += 1
        buf = expr_strip_blocks(ex.of_operand(t["args"][0]))
        add = expr_strip_blocks(ex.of_operand(t["args"][1]))
        if add[0] == "bin" and add[1] in ("Sub", "SubUnchecked", "SubWithOverflow"):
            if add[3] == ("call", "std::vec::Vec::len", (buf,)):
                R.ok("room reserved before the follow-up reads is (total - len(buffer))", g.loc(b), cfg)
            else:
                R.violate("%s:reservation-not-from-length" % g.path, "the room reserved for the follow-up fragments is total - %s, but Vec::reserve counts from the buffer's length" % expr_str(add[3])[:80],
                          g.path, g.loc(b), config=cfg)
        else:
            R.ok("room reserved before the follow-up reads: %s" % expr_str(add)[:60], g.loc(b), cfg)
    R.count("reservations[%s]" % cfg, m)



# --------------------------------------------------------------------------- RECV-CAP-CONST
_IMPURE_PREFIX = ("std::sync::atomic::", "core::sync::atomic::", "std::cell::Cell::", "std::cell::RefCell::", "std::thread::LocalKey::", "libc::", "std::env::", "std::time::",
                  "std::sync::Mutex::", "std::sync::RwLock::", "std::fs::", "std::io::")


def _is_lazy_deref(F, name):
    """`<STATIC as Deref>::deref` of a lazy_static: initialised once, a process constant afterwards"""
    g = F.fns.get(name) or getattr(F, "all_fns", {}).get(name)
    if g is None or g.impl_trait != "std::ops::Deref":
        return False
    seen, work = set(), [g]
    while work:
        x = work.pop()
        if x.path in seen:
            continue
        seen.add(x.path)
        for b, t in x.calls():
            nm = strip_generics(callee_name(t))
            if nm.startswith("lazy_static::lazy::Lazy::get") or nm.endswith("Once::call_once") or nm.endswith("OnceLock::get_or_init") or nm.endswith("LazyLock::force"):
                return True
            y = F.fns.get(callee_name(t)) or getattr(F, "all_fns", {}).get(callee_name(t))
            if y is not None and y.path.startswith(g.path):
                work.append(y)
    return False


def impure_reads(F, g, operand, depth=0, seen=None):
    """mutable-state reads the value of `operand` may depend on: [(function, callee, block)]; follows crate-local callees (whole bodies) but not lazy statics"""
    seen = seen if seen is not None else set()
    out = []
    for nm, b in sorted(depends_on_calls(g, operand)):
        out += _impure_call(F, g, nm, b, depth, seen)
    return out


def _impure_call(F, g, nm, b, depth, seen):
    t = g.term(b)
    full = callee_name(t)
    if any(nm.startswith(p) for p in _IMPURE_PREFIX):
        return [(g.path, nm, b)]
    if _is_lazy_deref(F, full):
        return []
    h = F.fns.get(full) or getattr(F, "all_fns", {}).get(full)
    if h is None or h.path in seen or depth > 6:
        return []
    seen.add(h.path)
    out = []
    for b2, t2 in h.calls():
        out += _impure_call(F, h, strip_generics(callee_name(t2)), b2, depth + 1, seen)
    return out


def first_buffer_capacity_sites(F, g):
    """calls that fix the capacity of the landing buffer of the first packet: `Vec::<u8>::with_capacity(n)` in the receive function, or -- when the buffer is
    the caller's -- `v.clear(); v.reserve(n)` there plus the with_capacity in every function that builds such a buffer and hands it in.  [(fn, block, term, index of n)]"""
    out = []
    for b, t in g.calls_to("std::vec::Vec::with_capacity"):
        if "u8" in " ".join(t.get("generics", [])):
            out.append((g, b, t, 0))
    for b, t in g.calls():
        if strip_generics(callee_name(t)) in ("std::vec::Vec::reserve", "std::vec::Vec::reserve_exact") and "u8" in " ".join(t.get("generics", [])):
            rp = ref_place(g, t["args"][0])
            if rp and any(strip_generics(callee_name(t2)) == "std::vec::Vec::clear" and ref_place(g, t2["args"][0]) == rp and g.dominates(b2, b) for b2, t2 in g.calls()):
                out.append((g, b, t, 1))
    if not out or any(ix == 1 for _, _, _, ix in out):
        # the buffer is a parameter: the callers' constructions count as well
        for f in F.fns.values():
            if f.path == g.path:
                continue
            if not any(strip_generics(callee_name(t)) == strip_generics(g.path) for _, t in f.calls()):
                continue
            for b, t in f.calls_to("std::vec::Vec::with_capacity"):
                if "u8" in " ".join(t.get("generics", [])):
                    out.append((f, b, t, 0))
    return out


def rule_recv_cap_const(ctx, cfg, F):
    R = ctx.rule("RECV-CAP-CONST", "the receiver's first-packet buffer capacity is a process constant: it is computed only from constants and once-initialised statics, never from "
                 "state that can change between the moment a packet is put on the wire and the moment it is read (atomics, cells, thread-locals, fresh system calls). A capacity that can "
                 "shrink truncates first packets already queued at the older, larger size")
    g = next((x for x in F.fns.values() if any(strip_generics(callee_name(t)) == "libc::recv" for _, t in x.calls())), None)
    if not g:
        R.violate("anchor-missing:reassembly", "no function calls libc::recv", config=cfg)
        return
    n = 0
    for h, b, t, ix in first_buffer_capacity_sites(F, g):
        n += 1
        bad = impure_reads(F, h, t["args"][ix])
        if bad:
            fn_, nm, bb = bad[0]
            R.violate("%s:capacity-depends-on-mutable-state:%s" % (h.path, nm.split("::")[-1]),
                      "the first-packet buffer capacity depends on %s (read in %s): it can differ from the size the sender used when the packet was queued" % (nm, fn_), h.path, h.loc(b), config=cfg)
        else:
            R.ok("first-packet buffer capacity is computed from process constants only", h.loc(b), cfg)
    R.count("capacity_sites[%s]" % cfg, n)


# =========================================================================== C05

def _closure_touches_table(F, parent, t, callee_names):
    """`call_once(c, ..)` where c is a closure of this crate whose body applies one of the named operations to a region side table"""
    a = t["args"][0] if t["args"] else None
    if a is None:
        return False
    cands = []
    if a["k"] == "c" and a.get("closure") in F.fns:
        cands.append(F.fns[a["closure"]])
    elif a["k"] != "c":
        for r in Tracer(parent).roots_of_operand(a):
            if r.kind == "agg" and r.id in F.fns:
                cands.append(F.fns[r.id])
    for g in cands:
        for b2, t2 in g.calls():
            nm = strip_generics(callee_name(t2))
            if (nm in callee_names or strip_generics(t2.get("callee") or "") in callee_names) and "OsIpcSharedMemory" in " ".join(t2.get("generics", [])):
                return True
    return False


def rule_shm_sentinel(ctx, cfg, F):
    R = ctx.rule("SHM-SENTINEL", "IpcSharedMemory::serialize writes usize::MAX exactly on the empty (None) edge; deserialize yields the empty value exactly on the `== usize::MAX` edge")
    ser = next((f for f in F.fns.values() if f.impl_trait == "serde::Serialize" and f.impl_self == "ipc::IpcSharedMemory"), None)
    de = next((f for f in F.fns.values() if f.impl_trait == "serde::Deserialize" and f.impl_self == "ipc::IpcSharedMemory"), None)
    if not ser or not de:
        R.violate("anchor-missing:shm-serde", "IpcSharedMemory Serialize/Deserialize impls not found", config=cfg)
        return
    # serialize: path summaries: variant of self.os_shared_memory vs constant assigned to the serialised local
    trs = Tracer(ser)

    def edge_fact(b, s, labs):
        for lab in labs:
            if lab["kind"] in ("variant", "variant_not") and lab.get("adt") == "std::option::Option" and lab.get("variant") and "|" not in lab["variant"]:
                yield ("opt", lab["variant"])

    def block_fact(b):
        for st in ser.stmts(b):
            if st["s"] == "assign" and st["rv"]["r"] == "use" and op_const(st["rv"]["a"][0]) == USIZE_MAX:
                yield ("wrote", "MAX", st["lhs"]["l"] if not st["lhs"].get("p") else None, b)
        t = ser.term(b)
        if t["t"] == "call" and strip_generics(t.get("callee") or "") == "serde::Serialize::serialize":
            rs_ = trs.roots_of_operand(t["args"][0])
            if rs_ and all(r.kind == "const" and r.id == USIZE_MAX for r in rs_):
                yield ("wrote", "MAX")          # `usize::MAX.serialize(serializer)` written out in the empty branch
        if t["t"] == "call" and strip_generics(callee_name(t)) == "std::thread::LocalKey::with":
            yield ("wrote", "index")
        if t["t"] == "call" and strip_generics(t.get("callee") or "") in ("std::ops::FnOnce::call_once", "std::ops::FnMut::call_mut") and _closure_touches_table(F, ser, t, ("std::vec::Vec::push",)):
            yield ("wrote", "index")
        # the closure inlined into this body: the push onto the region table is the "index" step
        if t["t"] == "call" and strip_generics(callee_name(t)) == "std::vec::Vec::push" and "OsIpcSharedMemory" in " ".join(t.get("generics", [])):
            yield ("wrote", "index")
    bad = False
    npaths = 0
    for facts, rb, path in path_summaries(ser, edge_fact, block_fact):
        npaths += 1
        opt = {x[1] for x in facts if x[0] == "opt"}
        # a default that is overwritten further down the path (`let mut index = usize::MAX; if let Some(..) { index = .. }`) was not what got written
        plist = list(path)

        def _overwritten(x):
            if len(x) < 4 or x[2] is None or x[3] not in plist:
                return False
            later = plist[plist.index(x[3]) + 1:]
            return any(d[0] in later for d in ser.defs().get(x[2], []) if not ser.is_cleanup(d[0]))
        wrote = {x[1] for x in facts if x[0] == "wrote" and not _overwritten(x)}
        if not wrote and any(ser.term(pb)["t"] == "call" and "from_residual" in strip_generics(callee_name(ser.term(pb))) for pb in path):
            continue        # an error exit taken before anything was written (a precondition check with `?`)
        if opt == {"None"} and wrote != {"MAX"}:
            bad = True
            R.violate("ipc::IpcSharedMemory::serialize:empty-not-sentinel", "the empty region is not serialised as usize::MAX (%s)" % sorted(wrote), ser.path, ser.loc(rb), config=cfg)
        if opt == {"Some"} and wrote != {"index"}:
            bad = True
            R.violate("ipc::IpcSharedMemory::serialize:region-not-index", "a non-empty region is not serialised as its table index (%s)" % sorted(wrote), ser.path, ser.loc(rb), config=cfg)
    if not bad and npaths:
        R.ok("serialize: None -> usize::MAX, Some -> index (%d paths)" % npaths, ser.loc(0), cfg)

    def edge_fact2(b, s, labs):
        for lab in labs:
            if lab["kind"] == "cmp" and lab["op"] in ("Eq", "Ne"):
                c = op_const(lab["b"]) if op_const(lab["b"]) is not None else op_const(lab["a"])
                if c is not None:
                    yield ("idx", c, lab["truth"] if lab["op"] == "Eq" else not lab["truth"])
            elif lab["kind"] == "val" and isinstance(lab.get("value"), int):
                # `match index { usize::MAX => .., _ => .. }`
                yield ("idx", lab["value"] & USIZE_MAX if lab["value"] < 0 else lab["value"], True)
            elif lab["kind"] == "val_not":
                for v in lab.get("not", []):
                    if isinstance(v, int):
                        yield ("idx", v & USIZE_MAX if v < 0 else v, False)

    def block_fact2(b):
        t = de.term(b)
        if t["t"] == "call":
            nm = strip_generics(callee_name(t))
            if nm == "ipc::IpcSharedMemory::empty":
                yield ("made", "empty")
            if nm == "std::thread::LocalKey::with":
                yield ("made", "lookup")
            if strip_generics(t.get("callee") or "") in ("std::ops::FnOnce::call_once", "std::ops::FnMut::call_mut") and _closure_touches_table(
                    F, de, t, ("core::slice::get_mut", "core::slice::get", "std::vec::Vec::get_mut", "std::ops::Index::index", "std::ops::IndexMut::index_mut")):
                yield ("made", "lookup")
            # the closure inlined into this body: an indexed access of the region table
            if (nm in ("core::slice::get_mut", "core::slice::get", "std::vec::Vec::get_mut") or strip_generics(t.get("callee") or "") in ("std::ops::Index::index", "std::ops::IndexMut::index_mut")) \
                    and "OsIpcSharedMemory" in " ".join(t.get("generics", [])):
                yield ("made", "lookup")
        for st in de.stmts(b):
            if st["s"] == "assign" and st["lhs"]["l"] == 0 and st["rv"]["r"] == "agg":
                yield ("ret", st["rv"]["kind"].get("variant"))
    bad = False
    saw = set()
    for facts, rb, path in path_summaries(de, edge_fact2, block_fact2):
        eq = [x for x in facts if x[0] == "idx"]
        made = {x[1] for x in facts if x[0] == "made"}
        is_max = any(x[1] == USIZE_MAX and x[2] for x in eq)
        not_max = any(x[1] == USIZE_MAX and not x[2] for x in eq)
        other_consts = [x for x in eq if x[1] != USIZE_MAX]
        if other_consts:
            bad = True
            R.violate("ipc::IpcSharedMemory::deserialize:sentinel-constant", "deserialize compares the index with %s, not usize::MAX" % sorted({x[1] for x in other_consts}), de.path, de.loc(rb), config=cfg)
        if "empty" in made and not is_max:
            bad = True
            R.violate("ipc::IpcSharedMemory::deserialize:empty-on-wrong-edge", "the empty value is produced on an edge other than index == usize::MAX", de.path, de.loc(rb), config=cfg)
        if is_max and "lookup" in made:
            bad = True
            R.violate("ipc::IpcSharedMemory::deserialize:lookup-on-sentinel", "the table is consulted although the index is the empty sentinel", de.path, de.loc(rb), config=cfg)
        if is_max:
            saw.add("max")
        if not_max and "lookup" in made:
            saw.add("lookup")
    if saw >= {"max", "lookup"} and not bad:
        R.ok("deserialize: == usize::MAX -> empty, otherwise table lookup", de.loc(0), cfg)
    elif not bad:
        R.violate("ipc::IpcSharedMemory::deserialize:sentinel-not-tested", "deserialize does not distinguish the usize::MAX sentinel from a table index", de.path, de.loc(0), config=cfg)
    R.count("sentinel_pairs[%s]" % cfg)


def _leaves(f, operand, depth=0):
    """flatten a value into its scalar parts: [(type, operand)], looking through single-definition struct/tuple aggregates and whole-value copies"""
    if operand["k"] == "c":
        return [(operand.get("t", "const"), operand)]
    pl = operand["pl"]
    l = pl["l"]
    proj = [e["f"] for e in pl.get("p", []) if isinstance(e, dict) and "f" in e]
    ds = [d for d in f.defs().get(l, []) if not f.is_cleanup(d[0]) and d[1] is not None and not d[2]["lhs"].get("p")]
    if depth < 6 and len(ds) == 1:
        rv = ds[0][2]["rv"]
        if rv["r"] == "agg" and (rv["kind"].get("adt") or "tuple" in rv["kind"]) and not (1 <= l <= f.argc):
            elems = rv["a"]
            if proj:
                if proj[0] < len(elems):
                    sub = dict(elems[proj[0]])
                    if sub["k"] != "c" and len(proj) > 1:
                        sub = {"k": sub["k"], "pl": {"l": sub["pl"]["l"], "p": list(sub["pl"].get("p", [])) + [{"f": i, "n": str(i), "t": ""} for i in proj[1:]]}}
                    return _leaves(f, sub, depth + 1)
            else:
                out = []
                for e in elems:
                    out += _leaves(f, e, depth + 1)
                return out
        if rv["r"] in ("use", "cast") and not proj and rv["a"][0]["k"] != "c" and not rv["a"][0]["pl"].get("p") and not (1 <= l <= f.argc):
            return _leaves(f, rv["a"][0], depth + 1)
    ty = f.local_ty(l)
    if proj:
        ty = next((e.get("t") or "" for e in reversed(pl["p"]) if isinstance(e, dict) and "f" in e), "")
    return [(ty, operand)]


def shm_constructions(F):
    """every place where a unix OsIpcSharedMemory value is put together: (function, block, ptr operand, length operand, store operand).
    Calls of a constructor function that merely stores its parameters count as constructions at the call site."""
    out = []
    ctors = {}
    for f in F.fns.values():
        if not f.path.startswith("platform::unix"):
            continue
        aggs = [(b, st) for b in f.live_blocks() for st in f.stmts(b) if st["s"] == "assign" and st["rv"]["r"] == "agg" and (st["rv"]["kind"].get("adt") or "") == "platform::unix::OsIpcSharedMemory"]
        if not aggs:
            continue
        tr = Tracer(f)
        for b, st in aggs:
            lv = _leaves(f, {"k": "mv", "pl": {"l": st["lhs"]["l"]}})
            ptr = [o for ty, o in lv if ty.startswith("*mut u8") or ty.startswith("*const u8")]
            ln = [o for ty, o in lv if ty in ("usize", "u64")]
            sto = [o for ty, o in lv if "BackingStore" in ty or ty in ("i32",)]
            if len(ptr) != 1 or len(ln) != 1 or len(sto) != 1:
                out.append((f, b, None, None, None))
                continue
            # a pure constructor: every part is a parameter (or a field of one)
            allp = all(o["k"] != "c" and all(r.kind == "param" for r in tr.roots_of_operand(o)) and tr.roots_of_operand(o) for o in (ptr[0], ln[0], sto[0]))
            if allp and f.argc >= 2 and f.kind != "Closure" and not f.impl_trait:
                ctors[strip_generics(f.path)] = (f, ptr[0], ln[0], sto[0])
            else:
                out.append((f, b, ptr[0], ln[0], sto[0]))
    # call sites of the pure constructors: map the constructor's parts back to the actual arguments
    for f in F.fns.values():
        for b, t in f.calls():
            nm = strip_generics(callee_name(t))
            if nm not in ctors:
                continue
            cf, cp, cl, cs = ctors[nm]
            ctr = Tracer(cf)

            def actual(op):
                r = next(iter(ctr.roots_of_operand(op)))
                a = t["args"][r.id - 1]
                if a["k"] == "c" or not r.field_idx():
                    return a
                return {"k": a["k"], "pl": {"l": a["pl"]["l"], "p": list(a["pl"].get("p", [])) + [{"f": i, "n": str(i), "t": ""} for i in r.field_idx()]}}
            out.append((f, b, actual(cp), actual(cl), actual(cs)))
    return out, ctors


def _clone_store_fresh(R, f, tr, sop, key, b, cfg):
    # fresh store from a duplicated descriptor
    sroots = tr.roots_of_operand(sop)
    # every way the clone's store can come about (also a fallback taken when duplicating fails) is a store of its own around a duplicated descriptor
    fresh = bool(sroots) and all(r.kind == "call" and r.id.endswith("BackingStore::from_fd") for r in sroots)
    dupd = fresh
    for r in sroots:
        if r.kind == "call" and r.id.endswith("BackingStore::from_fd"):
            a = f.term(r.block)["args"][0]
            ar = tr.roots_of_operand(a)
            dupd = dupd and bool(ar) and all(x.kind == "call" and x.id in ("libc::fcntl", "libc::dup", "libc::dup3") for x in ar)
    if not fresh and bool(sroots) and all(r.kind == "call" and r.id in ("libc::fcntl", "libc::dup", "libc::dup3") for r in sroots) and \
            f.local_ty(op_local(sop) if op_local(sop) is not None else 0) == "i32":
        # the store written as a literal around the duplicated descriptor (`BackingStore { fd: fcntl(..) }`): the construction finder hands on the descriptor itself
        fresh = dupd = True
    if not fresh and bool(sroots) and all(r.kind == "agg" and str(r.id).endswith("::BackingStore") for r in sroots):
        # ... or the literal itself, moved into a constructor call
        lits = [st for bb in f.live_blocks() for st in f.stmts(bb) if st["s"] == "assign" and st["rv"]["r"] == "agg" and (st["rv"]["kind"].get("adt") or "").endswith("::BackingStore")]
        if len(lits) == 1 and not lits[0]["lhs"].get("p") and lits[0]["lhs"]["l"] == _root_local(f, tr, sop) and len(lits[0]["rv"]["a"]) == 1:
            ar = tr.roots_of_operand(lits[0]["rv"]["a"][0])
            if ar and all(x.kind == "call" and x.id in ("libc::fcntl", "libc::dup", "libc::dup3") for x in ar):
                fresh = dupd = True
    if fresh and dupd:
        R.ok("Clone maps a fresh store built from a duplicated descriptor", f.loc(b), cfg)
    else:
        R.violate("%s:clone-shares-store" % key, "Clone does not build its own BackingStore from a duplicated descriptor", f.path, f.loc(b), config=cfg)


def mapper_names(F):
    """the function(s) of the backing store that map it: found by what they do (they call mmap), whatever they are called"""
    out = {strip_generics(g.path) for g in F.fns.values() if "BackingStore" in g.path and g.kind != "Closure" and any(strip_generics(callee_name(t)) == "libc::mmap" for _, t in g.calls())}
    return out or {"platform::unix::BackingStore::map_file"}


def rule_shm_couple(ctx, cfg, F):
    R = ctx.rule("SHM-COUPLE", "every construction of the unix OsIpcSharedMemory gets a pointer from map_file on the same BackingStore it moves into the struct, and a length that is the length passed "
                 "to / returned by that map_file; Clone builds a fresh store (duplicated descriptor) and a fresh mapping of self.length, never reuses self.ptr")
    cons, ctors = shm_constructions(F)
    if not cons:
        R.violate("anchor-missing:shm-ctor", "no construction of platform::unix::OsIpcSharedMemory found", config=cfg)
        return
    for nm in sorted(ctors):
        R.ok("%s stores its parameters as (ptr, length, store)" % nm, ctors[nm][0].loc(0), cfg)
    n = 0
    for (f, b, pop, lop, sop) in sorted(cons, key=lambda x: (x[0].path, x[1])):
        n += 1
        key = strip_generics(f.path)
        if pop is None:
            R.violate("%s:construction-shape" % key, "a construction of OsIpcSharedMemory does not have exactly one pointer, one length and one store part", f.path, f.loc(b), config=cfg)
            continue
        tr = Tracer(f)
        ex = Expr(f)
        proots = tr.roots_of_operand(pop)
        mappers = mapper_names(F)
        maps = [r for r in proots if r.kind == "call" and (r.id.endswith("::map_file") or strip_generics(r.id) in mappers)]
        mm = [r for r in proots if r.kind == "call" and r.id == "libc::mmap"]
        if not maps and len(mm) == 1 and all((r.kind == "call" and r.id in ("libc::mmap", "std::ptr::null_mut", "std::ptr::null")) or (r.kind == "const" and r.id in (0, "0")) for r in proots):
            # the mapping step was taken out of the backing store's mapper into a helper that is looked through: the pointer is mmap's result (or null for the
            # unmapped zero-length region), mapped from the descriptor of the store that goes into the region, for the length that goes into the region
            mt = f.term(mm[0].block)
            st_roots = {(r.kind, r.id, r.block) for r in tr.roots_of_operand(sop)}
            fd_roots = {(r.kind, r.id, r.block) for r in tr.roots_of_operand(mt["args"][4])}
            same_store = _root_local(f, tr, mt["args"][4]) == _root_local(f, tr, sop) or (len(st_roots) == 1 and fd_roots == st_roots)
            lr = {(r.kind, r.id, r.block, r.path) for r in tr.roots_of_operand(lop)}
            mr = {(r.kind, r.id, r.block, r.path) for r in tr.roots_of_operand(mt["args"][1])}
            len_ok = bool(lr) and all(x in mr or (x[0] == "const" and x[1] in (0, "0")) for x in lr) and any(x in mr for x in lr)
            if not same_store:
                R.violate("%s:store-mismatch" % key, "the pointer was mapped from a different descriptor than that of the BackingStore moved into the region", f.path, f.loc(b), config=cfg)
            elif not len_ok:
                R.violate("%s:length-mismatch" % key, "the region's length (%s) is not the length mapped (%s)" % (expr_str(ex.of_operand(lop)), expr_str(ex.of_operand(mt["args"][1]))), f.path, f.loc(b), config=cfg)
            else:
                R.ok("%s: (ptr, len, store): mmap of the stored BackingStore's descriptor for the region's length" % key, f.loc(b), cfg)
            if f.impl_trait == "std::clone::Clone":
                _clone_store_fresh(R, f, tr, sop, key, b, cfg)
            continue
        if len(proots) != 1 or not maps or maps[0].field_idx()[:1] != (0,):
            R.violate("%s:pointer-origin" % key, "the mapping pointer does not come from map_file().0 (%s)" % sorted(map(repr, proots)), f.path, f.loc(b), config=cfg)
            continue
        mt = f.term(maps[0].block)
        store_of_map = _root_local(f, tr, mt["args"][0])
        store_moved = _root_local(f, tr, sop)
        rm_ = {(r.kind, r.id, r.block) for r in tr.roots_of_operand(mt["args"][0])}
        rs_ = {(r.kind, r.id, r.block) for r in tr.roots_of_operand(sop)}
        same_origin = len(rm_) == 1 and rm_ == rs_ and next(iter(rm_))[0] == "call"     # one creation site (call@block) feeds both
        if store_of_map != store_moved and not same_origin and f.local_ty(op_local(sop) if op_local(sop) is not None else 0) == "i32":
            # the store was written as a literal (`BackingStore { fd }`) and taken apart into its descriptor by the construction finder: it is the mapped store when
            # it is the only store literal of the function, the mapper was called on it, and its descriptor is the one found in the region
            lits = [st for bb in f.live_blocks() for st in f.stmts(bb) if st["s"] == "assign" and st["rv"]["r"] == "agg" and (st["rv"]["kind"].get("adt") or "").endswith("::BackingStore")]
            if len(lits) == 1 and not lits[0]["lhs"].get("p") and lits[0]["lhs"]["l"] == store_of_map and len(lits[0]["rv"]["a"]) == 1 and \
                    _root_local(f, tr, lits[0]["rv"]["a"][0]) == store_moved:
                same_origin = True
        if store_of_map != store_moved and not same_origin:
            R.violate("%s:store-mismatch" % key, "the pointer was mapped from a different BackingStore than the one moved into the region", f.path, f.loc(b), config=cfg)
            continue
        # length: Some(x) passed to map_file with x == length arg; or map_file().1
        le = expr_strip_blocks(ex.of_operand(lop))
        ml = expr_strip_blocks(ex.of_operand(mt["args"][1]))
        ok = False
        if ml[0] == "agg" and "::" in ml[1] and len(ml[2]) == 1 and ml[2][0] == le:
            ok = True
        if ml == le:
            ok = True         # a mapper that takes the length itself, not an Option of it
        lroots = tr.roots_of_operand(lop)
        if any(r.kind == "call" and r.block == maps[0].block and r.field_idx()[:1] == (1,) for r in lroots) and len(lroots) == 1:
            ok = True
        if ok:
            R.ok("%s: (ptr, len, store) come from one map_file call on the stored BackingStore" % key, f.loc(b), cfg)
        else:
            R.violate("%s:length-mismatch" % key, "the region's length (%s) is not the length mapped (%s)" % (expr_str(ex.of_operand(lop)), expr_str(ex.of_operand(mt["args"][1]))), f.path, f.loc(b), config=cfg)
        if f.impl_trait == "std::clone::Clone":
            _clone_store_fresh(R, f, tr, sop, key, b, cfg)
    R.count("constructions[%s]" % cfg, n)



_ELEM_SIZE = {"u8": 1, "i8": 1, "u16": 2, "i16": 2, "u32": 4, "i32": 4, "u64": 8, "i64": 8, "usize": 8, "isize": 8}


def _pointee_size(ty):
    m = re.match(r"\*(?:mut|const) (\w+)$", ty or "")
    return _ELEM_SIZE.get(m.group(1)) if m else None


def _ptr_offset(f, operand, ex, depth=0):
    """decompose a raw pointer operand into (base expression, [(count expression, element size)]): follows copies, casts and
    `ptr.add(n)` / `ptr.offset(n)` calls, scaling n by the pointee size of the pointer it is applied to.  None if a step is not understood."""
    l = op_local(operand)
    terms = []
    seen = set()
    while l is not None and l not in seen and depth < 32:
        seen.add(l)
        ds = [d for d in f.defs().get(l, []) if not f.is_cleanup(d[0]) and not (d[1] is not None and d[2]["lhs"].get("p"))]
        if len(ds) != 1:
            break
        b, si, node = ds[0]
        if si is None:
            nm = strip_generics(callee_name(node))
            if nm in ("std::ptr::mut_ptr::add", "std::ptr::const_ptr::add", "std::ptr::mut_ptr::offset", "std::ptr::const_ptr::offset", "std::ptr::mut_ptr::wrapping_add", "std::ptr::const_ptr::wrapping_add"):
                sz = _pointee_size(f.local_ty(op_local(node["args"][0]))) if op_local(node["args"][0]) is not None else None
                if sz is None:
                    return None
                terms.append((expr_strip_blocks(ex.of_operand(node["args"][1])), sz))
                l = op_local(node["args"][0])
                continue
            if nm in ("std::ptr::mut_ptr::byte_add", "std::ptr::const_ptr::byte_add"):
                terms.append((expr_strip_blocks(ex.of_operand(node["args"][1])), 1))
                l = op_local(node["args"][0])
                continue
            if nm in ("std::ptr::mut_ptr::cast", "std::ptr::const_ptr::cast", "std::ptr::mut_ptr::cast_const", "std::ptr::const_ptr::cast_mut"):
                l = op_local(node["args"][0])
                continue
            break
        rv = node["rv"]
        if rv["r"] in ("use", "cast") and op_place(rv["a"][0]) is not None and not rv["a"][0]["pl"].get("p"):
            l = rv["a"][0]["pl"]["l"]
            continue
        break
    base = expr_strip_blocks(ex.of_operand({"k": "cp", "pl": {"l": l}})) if l is not None else None
    return base, terms


def _scaled(term):
    """(count expr, size) -> (core expr, byte multiplier): folds `x * c` into the multiplier"""
    e, k = term
    while True:
        if e[0] == "field" and e[1][0] == "bin" and e[1][1] in ("MulWithOverflow",) and e[2] == 0:
            e = ("bin", "Mul", e[1][2], e[1][3])
        if e[0] == "bin" and e[1] in ("Mul", "MulUnchecked") and e[3][0] == "const" and isinstance(e[3][1], int):
            e, k = e[2], k * e[3][1]
            continue
        if e[0] == "bin" and e[1] in ("Mul", "MulUnchecked") and e[2][0] == "const" and isinstance(e[2][1], int):
            e, k = e[3], k * e[2][1]
            continue
        return e, k


def fill_cover(f, L, norm=None):
    """do the raw-slice writes of this function cover bytes [0, L) of one mapping contiguously?
    returns (ok, description).  Accepted shapes: one segment of L bytes at offset 0; or the word-wise split
    [0, (L/W)*W) in W-byte elements followed by [(L/W)*W, +L%W) in bytes."""
    ex = Expr(f)
    segs = []
    for b, t in f.calls():
        nm = strip_generics(callee_name(t))
        if nm in ("std::ptr::mut_ptr::copy_from_nonoverlapping", "std::ptr::mut_ptr::copy_from", "std::ptr::mut_ptr::write_bytes"):
            nm = "std::ptr::write_bytes"       # method forms on the destination pointer: (dst, src|byte, count), destination first like write_bytes
        if nm in ("std::slice::from_raw_parts_mut", "std::ptr::write_bytes", "std::ptr::copy_nonoverlapping"):
            pa = t["args"][1] if nm == "std::ptr::copy_nonoverlapping" else t["args"][0]
            po = _ptr_offset(f, pa, ex)
            if po is None:
                return False, "a fill pointer is computed in a way the rule does not follow"
            base, terms = po
            esz = _pointee_size(f.local_ty(op_local(pa))) if op_local(pa) is not None else None
            if esz is None:
                return False, "element size of a fill slice is unknown"
            cnt = expr_strip_blocks(ex.of_operand(t["args"][-1]))
            if norm is not None:
                cnt = norm(cnt)       # `mapping.length` of the mapping just made is the length it was asked for
            segs.append((repr(base), [_scaled(x) for x in terms], _scaled((cnt, esz))))
    if not segs:
        lf = _loop_fill(f, ex, L, norm)
        if lf is not None:
            return lf
        return False, "no fill found"
    if len({s[0] for s in segs}) != 1:
        return False, "the fill segments are based on different pointers"
    Lr = repr(L)
    zero = [s for s in segs if not s[1]]
    if len(segs) == 1 and zero and repr(segs[0][2][0]) == Lr and segs[0][2][1] == 1:
        return True, "one segment [0, length)"
    if len(segs) == 2 and len(zero) == 1:
        first = zero[0]
        second = [s for s in segs if s is not first][0]
        q, W = first[2]
        if q[0] == "bin" and q[1] == "Div" and repr(q[2]) == Lr and q[3] == ("const", W) and W > 1:
            r, one = second[2]
            if len(second[1]) == 1 and second[1][0] == (q, W) and one == 1 and r[0] == "bin" and r[1] == "Rem" and repr(r[2]) == Lr and r[3] == ("const", W):
                return True, "word-wise split [0,(L/%d)*%d) + remainder" % (W, W)
            return False, "the second fill segment does not start where the first ends ((length / %d) * %d bytes) or does not have length %% %d bytes: starts at %s, counts %s" % (
                W, W, W, " + ".join("%s*%d" % (expr_str(e), k) for e, k in second[1]), "%s*%d" % (expr_str(r), one))
    return False, "fill segments do not add up to [0, length): %s" % [(" + ".join("%s*%d" % (expr_str(e), k) for e, k in s[1]) or "0", "%s*%d" % (expr_str(s[2][0]), s[2][1])) for s in segs]


def _loop_fill(f, ex, L, norm):
    """the fill written as a counting loop: `while i < L { p.add(i).write(v); i += 1 }` -- one store of one byte per iteration at base + i, i a counter that starts
    at 0 and only ever goes up by one, the loop entered exactly while i < L, and no way round the loop that skips the store.  None when there is no such loop."""
    writes = []
    for b, t in f.calls():
        nm = strip_generics(callee_name(t))
        if nm in ("std::ptr::mut_ptr::write", "std::ptr::write", "std::ptr::mut_ptr::write_volatile", "std::ptr::write_volatile") and t["args"]:
            writes.append((b, t["args"][0]))
    for b in f.live_blocks():
        if f.is_cleanup(b):
            continue
        for st in f.stmts(b):
            if st["s"] == "assign" and st["lhs"].get("p") == ["*"] and f.local_ty(st["lhs"]["l"]).startswith("*mut "):
                writes.append((b, {"k": "cp", "pl": {"l": st["lhs"]["l"]}}))
    if len(writes) != 1:
        return None
    wb, pa = writes[0]
    po = _ptr_offset(f, pa, ex)
    esz = _pointee_size(f.local_ty(op_local(pa))) if op_local(pa) is not None else None
    if po is None or esz != 1:
        return None
    base, terms = po
    # the offset is one term: the counter, scaled by one byte
    ptr_l = op_local(pa)
    ds = [d for d in f.defs().get(ptr_l, []) if not f.is_cleanup(d[0])] if ptr_l is not None else []
    ctr = None
    for _ in range(6):
        if len(ds) != 1:
            break
        db, si, node = ds[0]
        if si is None and strip_generics(callee_name(node)) in ("std::ptr::mut_ptr::add", "std::ptr::mut_ptr::offset", "std::ptr::const_ptr::add") and len(node["args"]) == 2:
            ctr = node["args"][1]
            # the pointer the offset is applied to must itself carry no offset
            inner = _ptr_offset(f, node["args"][0], ex)
            if inner is None or inner[1]:
                return None
            break
        if si is not None and node["rv"]["r"] in ("use", "cast") and op_local(node["rv"]["a"][0]) is not None:
            ds = [d for d in f.defs().get(op_local(node["rv"]["a"][0]), []) if not f.is_cleanup(d[0])]
            continue
        break
    if ctr is None or not _forward_counter(f, ctr):
        return None
    C = _copy_root(f, ctr)
    hdrs = [h for h in f.loop_headers() if wb in f.natural_loop(h)]
    if len(hdrs) != 1:
        return None
    loop = f.natural_loop(hdrs[0])
    # the loop body is entered on the edge `C < L` (of a test inside the loop that dominates the store), and left on the other
    guarded = False
    for s_ in sorted(loop):
        if f.term(s_)["t"] != "switch" or not f.dominates(s_, wb):
            continue
        for tgt in f.succ(s_):
            for lab in edge_label(f, s_, tgt):
                if lab["kind"] != "cmp":
                    continue
                lt = (lab["op"] == "Lt" and lab["truth"]) or (lab["op"] == "Ge" and not lab["truth"])
                gt = (lab["op"] == "Gt" and lab["truth"]) or (lab["op"] == "Le" and not lab["truth"])
                a_, b_ = (lab["a"], lab["b"]) if lt else ((lab["b"], lab["a"]) if gt else (None, None))
                if a_ is None or _copy_root(f, a_) != C:
                    continue
                bound = expr_strip_blocks(ex.of_operand(b_))
                if norm is not None:
                    bound = norm(bound)
                others = [x for x in f.succ(s_) if x != tgt]
                if repr(bound) == repr(L) and (tgt == wb or f.dominates(tgt, wb)) and all(x not in loop for x in others):
                    guarded = True
    if not guarded:
        return False, "the counting loop of the fill does not run exactly while counter < length"
    # every way back to the loop header has passed the store (and the counter only changes by the increment, which _forward_counter established)
    incs = [d[0] for d in f.defs().get(C, []) if not f.is_cleanup(d[0]) and d[0] in loop]
    latches = [x for x in loop if hdrs[0] in f.succ(x)]
    if not latches or not all(f.dominates(wb, x) for x in latches) or len(incs) != 1 or not f.dominates(wb, incs[0]) or not all(f.dominates(incs[0], x) for x in latches):
        return False, "an iteration of the fill loop can skip the store or the increment"
    return True, "counting loop: one byte stored at base + i for i in 0..length"


def _norm_mapped_len(F, e):
    """`map_file(store, Some(x)).1` is x: map_file returns the length it was asked to map (checked on map_file's body: its second result component
    derives only from the Some payload of its length parameter, or from fstat when that is None)"""
    if e[0] == "field" and e[2] == 1 and e[1][0] == "call" and (e[1][1].endswith("::map_file") or strip_generics(e[1][1]) in mapper_names(F)) and len(e[1][2]) == 2:
        a = e[1][2][1]
        plain = not (a[0] == "agg" and "::" in a[1] and a[1] not in ("tuple", "array") and len(a[2]) == 1)
        if True:      # Some(x), the one-payload variant of a private enum (MapLength::Exactly(x)), or the length itself
            mf = next((g for g in F.fns.values() if strip_generics(g.path) == strip_generics(e[1][1])), None)
            if mf is not None:
                tr = Tracer(mf)
                roots = tr.roots(0, (("f", 1, ""),))
                if roots and all((r.kind == "param" and r.id == 2) or (r.kind == "call" and ("fstat" in r.id or "unwrap_or" in r.id or "file_size" in r.id or "st_size" in repr(r))) or r.kind in ("const", "local", "op", "agg")
                                 for r in roots) and (any(r.kind == "param" and r.id == 2 for r in roots) or any(
                                     r.kind == "call" and "unwrap_or" in r.id and r.block is not None and any(x.kind == "param" and x.id == 2 for x in tr.roots_of_operand(mf.term(r.block)["args"][0]))
                                     for r in roots)):
                    return a if plain else a[2][0]
    return e


def _norm_ctor_field(F, e):
    """`Region::from_raw_parts(p, n, s).length` is n: a field read off the result of a constructor whose body only stores its parameters"""
    if e[0] == "field" and e[1][0] == "call" and isinstance(e[2], int):
        g = F.fns.get(e[1][1]) or next((h for h in F.fns.values() if strip_generics(h.path) == e[1][1]), None)
        if g is not None and len(g.live_blocks()) <= 6 and not any(True for _ in g.calls()):
            roots = Tracer(g).roots(0, (("f", e[2], ""),))
            if len(roots) == 1:
                r = next(iter(roots))
                if r.kind == "param" and not r.path and r.id - 1 < len(e[1][2]):
                    return e[1][2][r.id - 1]
    return e


def _norm_zero_case(f, ex, e):
    """`mapping.length` where `mapping` is `Mapping { address, length }` on the mapped path and `Mapping::unmapped()` (length 0) on the path taken when
    `length == 0`: the field is `length` either way.  e = field(var v, i): every definition of v is a literal; the i-th components are X, or the constant 0 in a
    block that lies behind an edge saying X == 0."""
    if not (e[0] == "field" and e[1][0] == "var" and isinstance(e[2], int)):
        return e
    v, i = e[1][1], e[2]
    ds = [d for d in f.defs().get(v, []) if not f.is_cleanup(d[0])]
    if len(ds) < 2 or not all(d[1] is not None and d[2]["rv"]["r"] == "agg" and i < len(d[2]["rv"]["a"]) for d in ds):
        return e
    comps = [(d[0], expr_strip_blocks(ex.of_operand(d[2]["rv"]["a"][i]))) for d in ds]
    others = {repr(c): c for _, c in comps if c != ("const", 0)}
    if len(others) != 1:
        return e
    X = next(iter(others.values()))
    for b, c in comps:
        if c != ("const", 0):
            continue
        ok = False
        for s_ in f.live_blocks():
            if f.term(s_)["t"] != "switch" or not f.dominates(s_, b):
                continue
            for tgt in f.succ(s_):
                if not (tgt == b or f.dominates(tgt, b)):
                    continue
                for lab in edge_label(f, s_, tgt):
                    if lab["kind"] == "cmp" and ((lab["op"] == "Eq" and lab["truth"]) or (lab["op"] == "Ne" and not lab["truth"])) and op_const(lab["b"]) == 0 and \
                            expr_strip_blocks(ex.of_operand(lab["a"])) == X:
                        ok = True
        if not ok:
            return e
    return X


def rule_shm_len(ctx, cfg, F):
    R = ctx.rule("SHM-LEN", "in from_byte / from_bytes one length value feeds BackingStore::new (hence ftruncate), map_file(Some(_)), the fill and the region's length")
    n = 0
    cons, _ctors = shm_constructions(F)
    for name in ("platform::unix::OsIpcSharedMemory::from_byte", "platform::unix::OsIpcSharedMemory::from_bytes"):
        f = F.fns.get(name)
        if not f:
            R.violate("anchor-missing:%s" % name, "%s not found" % name, config=cfg)
            continue
        n += 1
        ex = Expr(f)
        vals = {}
        for b, t in f.calls():
            nm = strip_generics(callee_name(t))
            if nm.endswith("BackingStore::new"):
                vals["store"] = expr_strip_blocks(ex.of_operand(t["args"][0]))
            elif nm.endswith("::map_file") or nm in mapper_names(F):
                e = expr_strip_blocks(ex.of_operand(t["args"][1]))
                vals["map"] = e[2][0] if e[0] == "agg" and "::" in e[1] and len(e[2]) == 1 else e
            elif nm == "libc::mmap" and "map" not in vals:
                vals["map"] = expr_strip_blocks(ex.of_operand(t["args"][1]))      # the mapper's body, looked through
            elif nm in ("std::slice::from_raw_parts_mut", "std::ptr::copy_nonoverlapping", "std::ptr::write_bytes"):
                pass        # the fill is decided by fill_cover below
        # the region's length: the length part of the construction in this function (constructor call or struct literal)
        for (cf, cb, pop, lop, sop) in cons:
            if cf is f and lop is not None:
                vals["len"] = _norm_zero_case(f, ex, _norm_mapped_len(F, expr_strip_blocks(ex.of_operand(lop))))
        if "len" in vals:
            okc, why = fill_cover(f, vals["len"], norm=lambda e: _norm_zero_case(f, ex, _norm_mapped_len(F, _norm_ctor_field(F, e))))
            if okc:
                vals["fill"] = vals["len"]
                R.ok("%s: the fill covers the mapping: %s" % (name, why), f.loc(0), cfg)
            else:
                R.violate("%s:fill-not-covering" % name, "the bytes written by the fill are not exactly [0, length) of the mapping: %s" % why, f.path, f.loc(0), config=cfg)
                continue
        if set(vals) >= {"store", "map", "fill", "len"} and len({repr(v) for v in vals.values()}) == 1:
            R.ok("%s: one length (%s) for store, map, fill and region" % (name, expr_str(vals["len"])), f.loc(0), cfg)
        else:
            R.violate("%s:length-sources-differ" % name, "the four uses of the length disagree or are missing: %s" % {k: expr_str(v) for k, v in vals.items()}, f.path, f.loc(0), config=cfg)
    # create_shmem truncates to its length parameter and returns the descriptor it created
    R.count("fill_ctors[%s]" % cfg, n)


def rule_shm_sibling(ctx, cfg, F):
    R = ctx.rule("SHM-SIBLING", "the function that creates the backing object (shm_open or memfd_create, whichever this configuration compiles) -- or the one that called it for the descriptor -- "
                 "truncates that very descriptor to its own length parameter on every path, and every function between it and BackingStore::new passes its length parameter on unchanged: "
                 "the file has exactly the region's length (the receiver maps what fstat reports)")
    CREATE = ("libc::shm_open", "platform::unix::memfd_create", "libc::memfd_create")
    creators = [f for f in sorted(F.fns.values(), key=lambda x: x.path) if f.path.startswith("platform::unix") and strip_generics(f.path) not in CREATE
                and any(strip_generics(callee_name(t)) in CREATE for _, t in f.calls())]
    R.count("create_shmem[%s]" % cfg, len(creators))
    if not creators:
        R.violate("anchor-missing:create_shmem", "no function creates a shared-memory object", config=cfg)
        return
    n_store = 0
    for f in creators:
        tr, ex = Tracer(f), Expr(f)
        cblocks = {b for b, t in f.calls() if strip_generics(callee_name(t)) in CREATE}
        fts = [(b, t) for b, t in f.calls_to("libc::ftruncate") if any(r.kind == "call" and r.block in cblocks for r in tr.roots_of_operand(t["args"][0]))]
        sized_here = False
        if len(fts) == 1:
            b, t = fts[0]
            le = expr_strip_blocks(ex.of_operand(t["args"][1]))
            ok_len = le[0] == "param" and f.local_ty(le[1]) == "usize"
            dominated = f.all_paths_pass(0, [b])[0]
            if ok_len and dominated:
                sized_here = True
                R.ok("%s: ftruncate(created fd, its length parameter) on every path" % f.path, f.loc(b), cfg)
            else:
                R.violate("%s:shape" % strip_generics(f.path), "%s: ftruncate on the created descriptor with the length parameter: %s, on every path: %s" % (f.path, ok_len, dominated), f.path, f.loc(b), config=cfg)
                continue
        elif len(fts) > 1:
            R.violate("%s:ftruncate-count" % strip_generics(f.path), "%d ftruncate calls on the created descriptor" % len(fts), f.path, f.loc(0), config=cfg)
            continue
        # walk up to BackingStore::new: each caller sizes the descriptor it got (if the creator did not) and passes its own length parameter down
        cur, hops = f, 0
        while not strip_generics(cur.path).endswith("BackingStore::new") and hops < 4:
            hops += 1
            callers = [(g, cb, ct) for g in sorted(F.fns.values(), key=lambda x: x.path) for cb, ct in g.calls() if strip_generics(callee_name(ct)) == strip_generics(cur.path)]
            if len(callers) != 1:
                R.violate("%s:store-size-not-length" % strip_generics(cur.path), "%s is called from %d places; expected the one store constructor" % (cur.path, len(callers)), cur.path, cur.loc(0), config=cfg)
                break
            g, cb, ct = callers[0]
            n_store += 1
            trg, exg = Tracer(g), Expr(g)
            if not sized_here:
                gts = [(b2, t2) for b2, t2 in g.calls_to("libc::ftruncate") if any(r.kind == "call" and r.block == cb for r in trg.roots_of_operand(t2["args"][0]))]
                le = expr_strip_blocks(exg.of_operand(gts[0][1]["args"][1])) if len(gts) == 1 else None
                if len(gts) == 1 and le[0] == "param" and g.local_ty(le[1]) == "usize" and g.all_paths_pass(ct["to"], [gts[0][0]])[0]:
                    sized_here = True
                    R.ok("%s: ftruncate(created fd, its length parameter) follows the creation on every path" % g.path, g.loc(gts[0][0]), cfg)
                else:
                    R.violate("%s:store-size-not-length" % strip_generics(g.path), "the descriptor %s returns is not truncated to %s's own length parameter on every path (%d ftruncate sites on it)" % (cur.path, g.path, len(gts)),
                              g.path, g.loc(cb), config=cfg)
                    break
            else:
                largs = [expr_strip_blocks(exg.of_operand(a)) for a in ct["args"] if a.get("k") in ("cp", "mv") and g.local_ty(a["pl"]["l"]) == "usize"]
                if largs and all(e[0] == "param" and g.local_ty(e[1]) == "usize" for e in largs):
                    R.ok("%s sizes the store with its length parameter, unchanged" % g.path, g.loc(cb), cfg)
                else:
                    R.violate("%s:store-size-not-length" % strip_generics(g.path), "the store is created with size %s, not with the length the region is created with: the receiver maps what fstat reports" % (
                        ", ".join(expr_str(e)[:80] for e in largs) or "?"), g.path, g.loc(cb), config=cfg)
                    break
            cur = g
        else:
            if not sized_here:
                R.violate("%s:ftruncate-count" % strip_generics(f.path), "the created descriptor is never sized", f.path, f.loc(0), config=cfg)
    R.count("store_creations[%s]" % cfg, max(n_store, 1 if creators else 0))


def rule_shm_unlink(ctx, cfg, F):
    R = ctx.rule("SHM-UNLINK-FIRST", "a named shared-memory object loses its name before anything else can fail: on every path from shm_open the next OS call is shm_unlink of the same name "
                 "(sizing, mapping and their assertions come after), so no failure leaves a name behind in /dev/shm")
    n = 0
    for f in sorted(F.fns.values(), key=lambda x: x.path):
        opens = [(b, t) for b, t in f.calls_to("libc::shm_open")]
        if not opens:
            continue
        tr = Tracer(f)
        for ob, ot in opens:
            n += 1
            unl = {b for b, t in f.calls_to("libc::shm_unlink")}
            other = {b for b, t in f.calls() if b != ob and b not in unl and (t.get("foreign") or strip_generics(callee_name(t)).startswith("libc::"))}
            nxt = f.term(ob).get("to", -1)
            if not unl:
                R.violate("%s:name-never-removed" % f.path, "%s creates a named object with shm_open and never unlinks the name" % f.path, f.path, f.loc(ob), config=cfg)
                continue
            # an OS call other than shm_unlink reachable from shm_open without passing shm_unlink
            reach = f.reachable(nxt, avoid=unl) if nxt >= 0 else set()
            early = sorted(b for b in other if b in reach)
            # every path from shm_open (with a descriptor) reaches shm_unlink or leaves through the failed-open assertion only
            ex = Expr(f)
            same_name = all(expr_strip_blocks(ex.of_operand(f.term(u)["args"][0])) == expr_strip_blocks(ex.of_operand(ot["args"][0])) for u in unl)
            if early:
                R.violate("%s:os-call-before-unlink" % f.path, "%s is called between shm_open and shm_unlink: if it fails (its assertion panics) the name stays in /dev/shm" % strip_generics(callee_name(f.term(early[0]))),
                          f.path, f.loc(early[0]), config=cfg)
            elif not same_name:
                R.violate("%s:unlinks-other-name" % f.path, "shm_unlink is not given the name passed to shm_open", f.path, f.loc(min(unl)), config=cfg)
            else:
                R.ok("%s: shm_unlink(name) is the first OS call after shm_open(name)" % f.path, f.loc(ob), cfg)
    R.count("named_objects[%s]" % cfg, n)


def rule_shm_inproc(ctx, cfg, F):
    R = ctx.rule("SHM-INPROC", "in-process regions: the pointer is the data pointer of the Arc<Vec<u8>> stored beside it, the length is that vector's length, Clone clones the Arc")
    n = 0
    for f in sorted(F.fns.values(), key=lambda x: x.path):
        if not f.path.startswith("platform::inprocess::OsIpcSharedMemory::from_byte") and not f.path.startswith("<platform::inprocess::OsIpcSharedMemory as std::clone::Clone>"):
            continue
        tr = Tracer(f)
        for b in f.live_blocks():
            for si, st in enumerate(f.stmts(b)):
                if st["s"] == "assign" and st["rv"]["r"] == "agg" and st["rv"]["kind"].get("adt") == "platform::inprocess::OsIpcSharedMemory":
                    n += 1
                    p, l, d = st["rv"]["a"]
                    if f.impl_trait == "std::clone::Clone":
                        ok = all(r.kind == "param" and r.field_names()[:1] == (nm,) for op, nm in ((p, "ptr"), (l, "length"), (d, "data")) for r in tr.roots_of_operand(op)) and \
                            "std::clone::Clone::clone" in chain_calls(f, d)
                    else:
                        dl = _root_local(f, tr, d)
                        pl = tr.roots_of_operand(p)
                        ok = any(r.kind == "call" and r.id in ("std::sync::Arc::get_mut",) or r.kind == "local" for r in pl) and "std::sync::Arc::get_mut" in chain_calls(f, p)
                        if not ok:
                            # `let mut v = ..; ptr: v.as_mut_ptr(); data: Arc::new(v)`: the pointer is taken from the very vector that is moved into the Arc
                            pv = {(r.kind, r.id, r.block) for r in pl if r.kind == "call"}
                            dv = set()
                            for r in tr.roots_of_operand(d):
                                if r.kind == "call" and r.id == "std::sync::Arc::new" and r.block is not None:
                                    dv |= {(x.kind, x.id, x.block) for x in tr.roots_of_operand(f.term(r.block)["args"][0]) if x.kind == "call"}
                            ok = bool(pv) and pv == dv and any(nm_ in chain_calls(f, p) for nm_ in ("std::vec::Vec::as_mut_ptr", "std::vec::Vec::as_ptr"))
                    if ok:
                        R.ok("%s couples ptr/length with the stored Arc" % f.path, f.loc(b, si), cfg)
                    else:
                        R.violate("%s:inproc-coupling" % strip_generics(f.path), "pointer/length are not derived from the Arc<Vec<u8>> stored in the region", f.path, f.loc(b, si), config=cfg)
    R.count("inproc_constructions[%s]" % cfg, n)


def _upvar_origin(F, f, root, depth=0):
    """for a root that is a closure capture (param 1, field k): the roots of the captured operand in the parent"""
    if f.kind != "Closure" or root.kind != "param" or root.id != 1 or not root.field_idx() or depth > 3:
        return None, None
    parent = F.fns.get(f.parent)
    if not parent:
        return None, None
    k = root.field_idx()[0]
    trp = Tracer(parent)
    for b in parent.live_blocks():
        for st in parent.stmts(b):
            if st["s"] == "assign" and st["rv"]["r"] == "agg" and st["rv"]["kind"].get("closure") == f.path and k < len(st["rv"]["a"]):
                rs = trp.roots_of_operand(st["rv"]["a"][k])
                out = set()
                for r in rs:
                    pf, pr = _upvar_origin(F, parent, r, depth + 1)
                    if pr is not None:
                        out |= {(pf, x) for x in pr}
                    else:
                        out.add((parent, r))
                return parent, {x[1] for x in out} if all(x[0] is parent for x in out) else {x[1] for x in out}
    return None, None


_FORK_DISTINCT = ("std::time::Duration::subsec_nanos", "std::time::Duration::subsec_micros", "std::time::Duration::as_nanos", "std::time::Duration::as_micros",
                  "libc::getpid", "std::process::id", "libc::gettid", "libc::getrandom", "libc::clock_gettime")


def rule_shm_name(ctx, cfg, F):
    R = ctx.rule("SHM-NAME", "the name a shared-memory object is created under (shm_open with O_EXCL, asserted to succeed) is built from a per-process counter and from something that "
                 "differs between a process and the children it forks within the same second -- a sub-second clock reading, an uncached process id or a random value: the counter and a "
                 "cached pid are copied by fork, so without it parent and child ask for the same name and the loser's region creation panics")
    n = 0
    for f in sorted(F.fns.values(), key=lambda x: x.path):
        if f.file.endswith("test.rs") or not f.path.startswith("platform::unix"):
            continue
        creates = [b for b, t in f.calls() if strip_generics(callee_name(t)) in ("platform::unix::create_shmem", "libc::shm_open")]
        fmts = [(b, t) for b, t in f.calls() if strip_generics(callee_name(t)).startswith("core::fmt::rt::Argument::new_")]
        if not creates or not fmts:
            continue
        n += 1
        tr = Tracer(f)
        ids = set()
        for b, t in fmts:
            for r in tr.roots_of_operand(t["args"][0]):
                if r.kind == "call":
                    ids.add(strip_generics(r.id))
                elif r.kind == "static":
                    ids.add("static:" + str(r.id))
        counter = any("fetch_add" in i for i in ids)
        distinct = sorted(i for i in ids if i in _FORK_DISTINCT or "uuid" in i.lower() or "rand" in i.lower())
        if counter and distinct:
            R.ok("%s: the object name combines a per-process counter with %s" % (f.path, ", ".join(x.split("::")[-1] for x in distinct)), f.loc(creates[0]), cfg)
        else:
            R.violate("%s:name-not-fork-distinct" % strip_generics(f.path), "the shared-memory object name is built from %s: nothing in it differs between a process and a child forked in the same second "
                      "(the counter and a cached pid are inherited), so concurrent region creation in parent and child collides on O_EXCL and panics" % (sorted(x.split("::")[-1] for x in ids) or "constants only"),
                      f.path, f.loc(creates[0]), config=cfg)
    R.count("named_objects[%s]" % cfg, n)


def rule_buf_fresh(ctx, cfg, F):
    R = ctx.rule("BUF-FRESH", "the byte vector a message is serialised into is created empty for that send (Vec::new / with_capacity in the same call) or cleared on every path before "
                 "serialisation: bytes left over from an earlier (failed) send can never prefix a later message")
    n = 0
    for f in sorted(F.fns.values(), key=lambda x: x.path):
        if not (f.path.startswith("ipc::") or f.path.startswith("<ipc::")):
            continue
        tr = None
        for b, t in f.calls():
            nm = strip_generics(callee_name(t))
            if nm not in ("bincode::serialize_into",):
                continue
            n += 1
            tr = tr or Tracer(f)
            roots = tr.roots_of_operand(t["args"][0])
            fresh, why = True, []
            for r in roots:
                origin = [r]
                pf, pr = _upvar_origin(F, f, r)
                if pr is not None:
                    origin = list(pr)
                for o in origin:
                    if o.kind == "call" and o.id in ("std::vec::Vec::with_capacity", "std::vec::Vec::new"):
                        continue
                    fresh = False
                    why.append(repr(o))
            cleared = False
            if not fresh:
                for b2, t2 in f.calls_to("std::vec::Vec::clear"):
                    if {r.key() for r in tr.roots_of_operand(t2["args"][0])} == {r.key() for r in roots} and f.dominates(b2, b):
                        cleared = True
            if fresh or cleared:
                R.ok("%s serialises into %s" % (f.path, "a vector created in this call" if fresh else "a vector cleared before use"), f.loc(b), cfg)
            else:
                R.violate("%s:stale-serialisation-buffer" % strip_generics(f.path), "the buffer handed to bincode::serialize_into is neither created in this call nor cleared on every path before use (%s): "
                          "bytes of an earlier message whose send failed would be transmitted in front of the next one" % ", ".join(sorted(set(why)))[:160], f.path, f.loc(b), config=cfg)
    R.count("serialise_calls[%s]" % cfg, n)


def rule_split_classify(ctx, cfg, F):
    R = ctx.rule("SPLIT-CLASSIFY", "every received descriptor is classified by its own is_socket() test: it becomes a channel only on that test's true edge and a region only on its false edge "
                 "(no positional shortcut: the per-message receiver follows the regions in a fragmented message)")
    from vlib.flow import segment_summaries
    from rules.fd import cmsg_loads
    g = next((x for x in F.fns.values() if any(strip_generics(callee_name(t)) == "libc::recv" for _, t in x.calls())), None)
    if not g:
        R.violate("anchor-missing:reassembly", "no function calls libc::recv", config=cfg)
        return
    tr = Tracer(g)
    loads = cmsg_loads(F, g)
    R.count("descriptor_loads[%s]" % cfg, len(loads))
    for (lb, si, st) in loads:
        fdl = st["lhs"]["l"]

        def is_fd(op):
            return any(r.kind == "local" and r.id == fdl for r in tr.roots_of_operand(op)) or op_local(op) == fdl or \
                any(_copy_of(g, op_local(op), fdl) for _ in [0])

        def edge_fact(b, s, labs):
            for lab in labs:
                if lab["kind"] == "callbool" and lab["callee"].endswith("::is_socket") and is_fd(lab["args"][0]):
                    yield ("sock", lab["truth"])

        def block_fact(b):
            t = g.term(b)
            if t["t"] == "call":
                nm = strip_generics(callee_name(t))
                if nm.endswith("::OsOpaqueIpcChannel::from_fd") and is_fd(t["args"][0]):
                    yield ("made", "channel")
                if nm.endswith("::OsIpcSharedMemory::from_fd") and is_fd(t["args"][0]):
                    yield ("made", "region")
                if nm == "libc::close" and is_fd(t["args"][0]):
                    yield ("made", "closed")        # a descriptor of a message that is being discarded
        bad = None
        n = 0
        for facts, end in segment_summaries(g, lb, [lb], edge_fact, block_fact):
            made = {x[1] for x in facts if x[0] == "made"}
            sock = {x[1] for x in facts if x[0] == "sock"}
            if not made:
                continue
            n += 1
            if made == {"closed"}:
                continue
            if made == {"channel"} and sock != {True}:
                bad = "a descriptor becomes a channel on a path that did not establish is_socket(fd) == true for it"
            if made == {"region"} and sock != {False}:
                bad = "a descriptor is mapped as a region on a path that did not establish is_socket(fd) == false for it"
            if len(made) > 1:
                bad = "a descriptor is wrapped twice on one path"
        if bad or not n:
            R.violate("%s:classification-not-by-own-test" % g.path, bad or "received descriptors are never wrapped", g.path, g.loc(lb, si), config=cfg)
        else:
            R.ok("descriptor -> channel iff is_socket(fd), region otherwise (%d wrapping paths)" % n, g.loc(lb, si), cfg)


def _copy_of(f, l, target):
    seen = set()
    while l is not None and l not in seen:
        if l == target:
            return True
        seen.add(l)
        ds = [d for d in f.defs().get(l, []) if d[1] is not None and not f.is_cleanup(d[0])]
        if len(ds) != 1 or ds[0][2]["rv"]["r"] not in ("use", "cast"):
            return False
        src = op_place(ds[0][2]["rv"]["a"][0])
        if src is None:
            return False
        flds = [e["f"] for e in src.get("p", []) if isinstance(e, dict) and "f" in e]
        if not src.get("p"):
            l = src["l"]
        elif len(flds) == 1 and all(isinstance(e, dict) and ("f" in e or "v" in e) for e in src["p"]) and len(src["p"]) <= 2:
            # `x = tuple.j` with `tuple = (.., y, ..)` (the argument tuple of a closure call), or `x = (opt as Some).0` with `opt = Some(y)` (an item handed
            # from a lowered iterator adaptor to the loop body)
            vsel = next((e["v"] for e in src["p"] if isinstance(e, dict) and "v" in e), None)
            ds2 = [d for d in f.defs().get(src["l"], []) if d[1] is not None and not f.is_cleanup(d[0]) and d[2]["rv"]["r"] == "agg" and
                   (vsel is None or d[2]["rv"]["kind"].get("vi") == vsel)]
            if len(ds2) == 1 and flds[0] < len(ds2[0][2]["rv"]["a"]) and op_place(ds2[0][2]["rv"]["a"][flds[0]]) is not None \
                    and not ds2[0][2]["rv"]["a"][flds[0]]["pl"].get("p"):
                l = ds2[0][2]["rv"]["a"][flds[0]]["pl"]["l"]
            else:
                return False
        else:
            return False
    return False


def _inline_pure(F, e, depth=0):
    """inline argument-free crate functions (e.g. get_max_fragment_size()) by their return expression"""
    if not isinstance(e, tuple) or depth > 3:
        return e
    if e and e[0] == "call" and not e[2]:
        g = F.fns.get(e[1]) or next((x for x in F.fns.values() if strip_generics(x.path) == e[1]), None)
        if g is not None and g.argc == 0 and g.path.startswith("platform::"):
            ex = Expr(g)
            return _inline_pure(F, expr_strip_blocks(ex.of_local(0)), depth + 1)
    return tuple(_inline_pure(F, x, depth) if isinstance(x, tuple) else x for x in e)


def rule_size_agree(ctx, cfg, F):
    R = ctx.rule("SIZE-AGREE", "the sender's single-packet threshold T (guard `len(data) <= T` of the unfragmented attempt) and the capacity C of the receiver's first-packet buffer derive from the "
                 "same expression (C = T or C = T + non-negative constant); the follow-up chunk size is the same function of the (only shrinking) estimate on the sender as of the system "
                 "value on the receiver")
    f, ff = send_fn(F), first_fragment_fn(F)
    g = next((x for x in F.fns.values() if any(strip_generics(callee_name(t)) == "libc::recv" for _, t in x.calls())), None)
    if not f or not ff or not g:
        R.violate("anchor-missing:size-functions", "send / reassembly functions not found", config=cfg)
        return
    tr = Tracer(f)
    ex = Expr(f)
    data_param = next((i for i in range(1, f.argc + 1) if f.local_ty(i) == "&[u8]"), None)
    ffname = strip_generics(ff.path)
    single = [b for b, t in f.calls() if strip_generics(callee_name(t)) == ffname and not _in_loop(f, b)]
    R.count("single_packet_sites[%s]" % cfg, len(single))
    T = None
    for sb in single:
        for s in f.live_blocks():
            if f.term(s)["t"] != "switch" or not f.dominates(s, sb):
                continue
            for tgt in f.succ(s):
                if not (tgt == sb or f.dominates(tgt, sb)):
                    continue
                for lab in edge_label(f, s, tgt):
                    if lab["kind"] != "cmp":
                        continue
                    ea, eb = expr_strip_blocks(ex.of_operand(lab["a"])), expr_strip_blocks(ex.of_operand(lab["b"]))
                    is_len = lambda e: e == ("call", "core::slice::len", (("param", data_param),))
                    if is_len(ea) and ((lab["op"] == "Le" and lab["truth"]) or (lab["op"] == "Gt" and not lab["truth"]) or (lab["op"] == "Lt" and lab["truth"])):
                        T = eb
                    elif is_len(eb) and ((lab["op"] == "Ge" and lab["truth"]) or (lab["op"] == "Lt" and not lab["truth"]) or (lab["op"] == "Gt" and lab["truth"])):
                        T = ea
    if T is None:
        R.violate("%s:single-packet-threshold" % f.path, "the single-packet attempt is not guarded by a plain comparison `len(data) <= T`: the threshold cannot be related to the receiver's first-packet buffer",
                  f.path, f.loc(single[0]) if single else None, config=cfg)
        return
    exg = Expr(g)
    C = None
    Cs = []
    for h, b, t, ix in first_buffer_capacity_sites(F, g):
        Cs.append((h, b, expr_strip_blocks((exg if h is g else Expr(h)).of_operand(t["args"][ix]))))
    if Cs:
        C = Cs[-1][2] if len(Cs) == 1 else Cs[0][2]
        for h, b, c in Cs[1:]:
            if _inline_pure(F, c) != _inline_pure(F, C):
                R.violate("%s:first-buffer-capacities-differ" % h.path, "landing buffers for the first packet are built with different capacities (%s here, %s elsewhere)" % (expr_str(c), expr_str(C)), h.path, h.loc(b), config=cfg)
    if C is None:
        R.violate("%s:no-first-buffer" % g.path, "the receiver's first-packet buffer (Vec::<u8>::with_capacity) was not found", g.path, config=cfg)
        return
    Tn, Cn = _inline_pure(F, T), _inline_pure(F, C)
    ok = Tn == Cn or (Cn[0] == "bin" and Cn[1] == "Add" and ((Cn[2] == Tn and Cn[3][0] == "const" and Cn[3][1] >= 0) or (Cn[3] == Tn and Cn[2][0] == "const" and Cn[2][1] >= 0)))
    if ok:
        R.ok("single-packet threshold and first-packet buffer agree: %s" % expr_str(T), f.loc(single[0]), cfg)
    else:
        R.violate("%s:threshold-vs-receive-buffer" % f.path, "the sender sends up to %s bytes in one packet but the receiver's first-packet buffer holds %s: for some socket buffer sizes a single packet is "
                  "larger than the buffer and is truncated" % (expr_str(T), expr_str(C)), f.path, f.loc(single[0]), config=cfg)
    # follow-up chunk: same crate function on both sides
    def chunk_fn(fn, exx, call_block):
        t = fn.term(call_block)
        return t
    fu = followup_fn(F)
    funame = strip_generics(fu.path)
    s_fn = r_fn = None
    for b, t in f.calls():
        if strip_generics(callee_name(t)) == funame:
            e = expr_strip_blocks(ex.of_operand(t["args"][1]))
            s_fn = _find_call(e, lambda n: n.startswith("platform::") and n.endswith("fragment_size"))
            if s_fn is None:
                # the end of the slice is a loop variable: look at its definitions in the follow-up branch (through the temporary of an `if` expression that clamps it)
                seen_v, work_v = set(), list(_vars(e))
                while work_v and len(seen_v) < 12 and s_fn is None:
                    v = work_v.pop()
                    if v in seen_v:
                        continue
                    seen_v.add(v)
                    for (db, si, node) in f.defs().get(v, []):
                        if si is not None and _in_loop(f, db):
                            ee = expr_strip_blocks(ex.of_rvalue(node["rv"], 0, db))
                            c = _find_call(ee, lambda n: n.startswith("platform::") and n.endswith("::fragment_size"))
                            if c:
                                s_fn = c
                            else:
                                work_v += list(_vars(ee))
    for b, t in g.calls_to("libc::recv"):
        e = expr_strip_blocks(exg.of_operand(t["args"][2]))
        r_fn = _find_call(e, lambda n: n.startswith("platform::") and n.endswith("::fragment_size"))
        if r_fn is None:
            # the window is the slice buffer[W..] whose end was fixed by the set_len that precedes the read in the same iteration
            for b2, t2 in g.calls_to("std::vec::Vec::set_len"):
                if g.dominates(b2, b) and _in_loop(g, b2):
                    e2 = expr_strip_blocks(exg.of_operand(t2["args"][1]))
                    r_fn = r_fn or _find_call(e2, lambda n: n.startswith("platform::") and n.endswith("::fragment_size"))
    if not (s_fn and r_fn):
        # the size functions were inlined (moved onto a helper type, or written out): compare the chunk terms themselves --
        # sender `min(position + X, len)`, receiver `min(len(buffer) + Y, total)`; X must be Y with the estimate in place of the system value
        def chunk_terms(fn_, exx):
            out = []
            for b_ in fn_.live_blocks():
                for si_, st_ in enumerate(fn_.stmts(b_)):
                    pass
            for b_, t_ in fn_.calls():
                if strip_generics(callee_name(t_)) in ("std::cmp::min", "std::cmp::Ord::min") and _in_loop(fn_, b_):
                    for a_ in t_["args"]:
                        e_ = expr_strip_blocks(exx.of_operand(a_))
                        if e_[0] == "bin" and e_[1] in ("Add", "AddUnchecked"):
                            out.append(e_[3])
                        elif e_[0] == "field" and e_[1][0] == "bin" and e_[1][1] == "AddWithOverflow":
                            out.append(e_[1][3])
            return out
        st_, rt_ = chunk_terms(f, ex), chunk_terms(g, exg)
        if st_ and rt_ and all(repr(x) == repr(rt_[0]) for x in st_ + rt_) and "static" in repr(rt_[0]):
            R.ok("follow-up chunk term is the same expression on both sides: %s" % expr_str(rt_[0]), g.loc(0), cfg)
            return
    if s_fn and r_fn and s_fn[1] == r_fn[1]:
        rarg = r_fn[2][0] if r_fn[2] else None
        sys_ok = rarg is not None and "static" in repr(rarg)
        if sys_ok:
            R.ok("follow-up chunk = %s(estimate) on the sender, %s(system value) on the receiver" % (s_fn[1].split("::")[-1], r_fn[1].split("::")[-1]), g.loc(0), cfg)
        else:
            R.violate("%s:receive-window-argument" % g.path, "the receiver's follow-up window is not computed from the system send-buffer size (%s)" % expr_str(rarg) if rarg else "?", g.path, config=cfg)
    else:
        R.violate("%s:chunk-functions-differ" % f.path, "sender and receiver size their follow-up chunks with different functions (%s vs %s)" % (s_fn and s_fn[1], r_fn and r_fn[1]), f.path, config=cfg)


def _vars(e):
    out = []
    if isinstance(e, tuple):
        if e and e[0] == "var":
            out.append(e[1])
        for x in e:
            if isinstance(x, tuple):
                out += _vars(x)
    return out


def _find_call(e, pred):
    if not isinstance(e, tuple):
        return None
    if e and e[0] == "call" and pred(e[1]):
        return e
    for x in e:
        if isinstance(x, tuple):
            r = _find_call(x, pred)
            if r:
                return r
    return None
